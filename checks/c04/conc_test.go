// C04 — modules compiled CONCURRENTLY must still link: structurally equal function types of
// different modules are one type for call_indirect through a shared table, different types are
// different, whatever the interleaving in which the runtime first saw them.
//
// A case is a sequence of rounds on one runtime. Each round invents two function signatures the
// runtime has never seen (S and X), builds one table owner and N-1 importers that all declare S
// and X, compiles the N modules from N goroutines released together (Runtime.CompileModule is
// documented as goroutine-safe), instantiates them, and lets every module call every slot of
// the shared table: with type S the call must reach the function the slot's module put there,
// with type X it must trap with "indirect call type mismatch".
package c04

import (
	"context"
	"encoding/json"
	"fmt"
	"runtime"
	"sync"
	"testing"

	"github.com/tetratelabs/wazero"
	"github.com/tetratelabs/wazero/api"
	"pgregory.net/rapid"

	"verif/internal/evid"
	"verif/internal/wasmenc"
	"verif/internal/wz"
)

type concRound struct {
	N    int    `json:"n"`    // modules compiled concurrently (owner + N-1 importers)
	Tail []byte `json:"tail"` // value types appended to the round-unique prefix of both signatures
}

type concCase struct {
	Engine string      `json:"engine"`
	Rounds []concRound `json:"rounds"`
}

var numTypes = []byte{wasmenc.I32, wasmenc.I64, wasmenc.F32, wasmenc.F64}

// sigParams returns the parameter list number k of a case: four value types spelling k in
// base 4 (so that all lists of one case differ) followed by tail.
func sigParams(k int, tail []byte) []byte {
	p := []byte{numTypes[(k>>6)&3], numTypes[(k>>4)&3], numTypes[(k>>2)&3], numTypes[k&3]}
	return append(p, tail...)
}

func pushZeros(b *wasmenc.B, params []byte) {
	for _, p := range params {
		switch p {
		case wasmenc.I32:
			b.I32Const(0)
		case wasmenc.I64:
			b.I64Const(0)
		case wasmenc.F32:
			b.F32Const(0)
		default:
			b.F64Const(0)
		}
	}
}

// concModule builds module k of a round: k == 0 owns the table, the others import it. Each puts
// its function (type S, returns 1000+k) into slot k and exports call(slot) / callx(slot).
func concModule(owner string, k, n int, ps, px []byte) []byte {
	m := &wasmenc.Module{}
	I32 := []byte{wasmenc.I32}
	if k == 0 {
		m.Tables = [][]byte{wasmenc.TableType(wasmenc.FuncRef, uint32(n), -1)}
		m.Exports = append(m.Exports, wasmenc.Export{Name: "t", Kind: kTable, Idx: 0})
	} else {
		m.Imports = append(m.Imports, wasmenc.Import{Mod: owner, Name: "t", Kind: kTable, Desc: wasmenc.TableType(wasmenc.FuncRef, uint32(n), -1)})
	}
	f := m.AddFunc(ps, I32, nil, wasmenc.NewB().I32Const(int32(1000+k)).Bytes())
	m.Elems = [][]byte{wasmenc.ActiveElemFuncs(int32(k), []uint32{f})}
	for _, c := range []struct {
		name string
		p    []byte
	}{{"call", ps}, {"callx", px}} {
		b := wasmenc.NewB()
		pushZeros(b, c.p)
		b.LocalGet(0).CallIndirect(m.AddType(c.p, I32), 0)
		m.ExportFunc(c.name, m.AddFunc(I32, I32, nil, b.Bytes()))
	}
	return m.Encode()
}

// runConc executes the case once; it returns a description of the first wrong observation.
func runConc(c *concCase) string {
	ctx := context.Background()
	rt := wazero.NewRuntimeWithConfig(ctx, wz.Config(c.Engine))
	defer rt.Close(ctx)
	for ri, rd := range c.Rounds {
		n := rd.N
		if n < 2 || n > 16 {
			continue
		}
		ps, px := sigParams(2*ri, rd.Tail), sigParams(2*ri+1, rd.Tail)
		owner := fmt.Sprintf("r%do", ri)
		bins := make([][]byte, n)
		for k := range bins {
			bins[k] = concModule(owner, k, n, ps, px)
		}
		compiled := make([]wazero.CompiledModule, n)
		errs := make([]error, n)
		start := make(chan struct{})
		var wg sync.WaitGroup
		for k := 0; k < n; k++ {
			wg.Add(1)
			go func(k int) {
				defer wg.Done()
				<-start
				compiled[k], errs[k] = rt.CompileModule(ctx, bins[k])
			}(k)
		}
		close(start)
		wg.Wait()
		mods := make([]api.Module, n)
		for k := 0; k < n; k++ {
			if errs[k] != nil {
				return fmt.Sprintf("[%s] round %d: CompileModule of module %d failed: %v", c.Engine, ri, k, errs[k])
			}
			name := owner
			if k > 0 {
				name = fmt.Sprintf("r%di%d", ri, k)
			}
			mod, err := rt.InstantiateModule(ctx, compiled[k], wazero.NewModuleConfig().WithName(name))
			if err != nil {
				return fmt.Sprintf("[%s] round %d: InstantiateModule of module %d failed: %v", c.Engine, ri, k, firstLine(err.Error()))
			}
			mods[k] = mod
		}
		for k, mod := range mods {
			for slot := 0; slot < n; slot++ {
				res, out := wz.SafeCall(ctx, mod.ExportedFunction("call"), uint64(slot))
				if out.Kind != wz.KOK || len(res) != 1 || uint32(res[0]) != uint32(1000+slot) {
					return fmt.Sprintf("[%s] round %d (%d modules compiled concurrently, signature %x -> i32 new to the runtime): module %d does call_indirect with that type on table slot %d, which holds module %d's function of exactly that type: outcome %v values %v, expected [%d]",
						c.Engine, ri, n, ps, k, slot, slot, out, res, 1000+slot)
				}
				res, out = wz.SafeCall(ctx, mod.ExportedFunction("callx"), uint64(slot))
				if out.Kind != wz.KTrap || out.Detail != trapSig {
					return fmt.Sprintf("[%s] round %d (%d modules compiled concurrently): module %d does call_indirect with type %x -> i32 on table slot %d, which holds a function of the different type %x -> i32: outcome %v values %v, expected trap %q",
						c.Engine, ri, n, k, px, slot, ps, out, res, trapSig)
				}
			}
		}
	}
	return ""
}

func TestConcurrentLink(t *testing.T) {
	if evid.ReplayPath() != "" {
		t.Skip()
	}
	// the interleaving needs real parallelism; the shard otherwise runs with GOMAXPROCS=2
	defer runtime.GOMAXPROCS(runtime.GOMAXPROCS(8))
	evid.Check(t, "concurrent-link", evid.Scale(480, 16000), func(t *rapid.T) {
		c := &concCase{Engine: rapid.SampledFrom(wz.Engines).Draw(t, "engine")}
		for i, n := 0, rapid.IntRange(6, 12).Draw(t, "rounds"); i < n; i++ {
			c.Rounds = append(c.Rounds, concRound{N: rapid.IntRange(4, 8).Draw(t, "modules"),
				Tail: rapid.SliceOfN(rapid.SampledFrom(numTypes), 0, 4).Draw(t, "tail")})
		}
		evid.Journal(c)
		if msg := runConc(c); msg != "" {
			evid.Fail(t, c, "%s", msg)
		}
		b, _ := json.Marshal(c)
		evid.Case(evid.Key(b), true, "concurrent:case-"+c.Engine)
		evid.Label("concurrent:rounds", int64(len(c.Rounds)))
		evid.Sample("concurrent-link", 1, c)
	})
}
