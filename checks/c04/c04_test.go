// C04 — linked modules share state exactly as the specification says.
//
// A case is a list of module specifications (spec_test.go) and a script that interleaves
// instantiations (some designed to fail), accessor calls through any instance and host-API
// reads/writes. The script is executed on each engine in lockstep with a reference model of
// the store (model_test.go); every observed value, trap and instantiation outcome is compared
// with the model. The generator (gen_test.go) draws the case while running the same model, so
// that declared import types, segment offsets and call arguments sit around the boundaries of
// the current state.
package c04

import (
	"context"
	"encoding/json"
	"fmt"
	"os"
	"os/exec"
	"path/filepath"
	"runtime"
	"sort"
	"strings"
	"testing"
	"time"

	"github.com/tetratelabs/wazero"
	"github.com/tetratelabs/wazero/api"
	"github.com/tetratelabs/wazero/experimental"
	"github.com/tetratelabs/wazero/experimental/table"
	"pgregory.net/rapid"

	"verif/internal/evid"
	"verif/internal/wasmenc"
	"verif/internal/wz"
)

func TestMain(m *testing.M) { evid.Main(m, "C04") }

// Step is one script step.
//
//	inst  instantiate Specs[Spec] under the name As (Bytes: through Runtime.InstantiateWithConfig
//	      on the binary instead of CompileModule + InstantiateModule)
//	acc   call the accessor (Acc, Idx, Sig) exported by instance Inst with Args
//	host  host-API operation Acc on instance Inst
//	gc    runtime.GC()
type Step struct {
	Op    string   `json:"op"`
	Spec  int      `json:"spec,omitempty"`
	As    string   `json:"as,omitempty"`
	Bytes bool     `json:"bytes,omitempty"`
	Inst  string   `json:"inst,omitempty"`
	Acc   string   `json:"acc,omitempty"`
	Idx   int      `json:"idx,omitempty"`
	Sig   int      `json:"sig,omitempty"`
	Args  []uint64 `json:"args,omitempty"`
	// inst: experimental.WithImportResolver designates instance Resolve[name] for imports from
	// module `name` (it may shadow an instance registered under that name)
	Resolve map[string]string `json:"resolve,omitempty"`
}

type Case struct {
	Limit  uint32     `json:"limit,omitempty"` // WithMemoryLimitPages; 0 = default
	Specs  []*ModSpec `json:"specs"`
	Script []Step     `json:"script"`
	// AllowExcluded runs the case even if it belongs to a class the generator excludes (only
	// the dedicated known-finding inputs set it).
	AllowExcluded bool `json:"allow_excluded,omitempty"`
}

func (c *Case) key() uint64 {
	b, _ := json.Marshal(c)
	return evid.Key(b)
}

// runResult is the outcome of executing a case on one engine.
type runResult struct {
	msg      string // violation ("" = none)
	harness  string // the harness itself is in trouble (a module believed valid does not compile)
	excluded string // the case reached an excluded class; nothing is concluded
	labels   map[string]int
	m        *model
}

func classifyInstErr(err error) string {
	s := err.Error()
	switch {
	case strings.HasPrefix(s, "import "), strings.Contains(s, "is not exported in module"),
		strings.Contains(s, "not instantiated"), strings.HasPrefix(s, "export ") && strings.Contains(s, " is a "):
		return "link"
	case strings.HasPrefix(s, "start "):
		return "start"
	case strings.HasPrefix(s, "data[") && strings.Contains(s, "out of bounds memory access"):
		return "data"
	case strings.HasPrefix(s, "element[") || strings.Contains(s, "out of bounds table access"):
		return "elem"
	}
	return "other"
}

type runner struct {
	ctx      context.Context
	engine   string
	rt       wazero.Runtime
	c        *Case
	m        *model
	mods     map[string]api.Module
	compiled map[int]wazero.CompiledModule
	res      *runResult
	nonce    int
	failed   bool

	allowExcluded bool // run cases of the excluded classes too (dedicated known-finding tests)
}

func firstLine(s string) string { return strings.SplitN(s, "\n", 2)[0] }

// runCase executes the case on one engine against a fresh model.
func runCase(c *Case, engine string) *runResult {
	allowExcluded := c.AllowExcluded
	ctx := context.Background()
	cfg := wz.Config(engine)
	if c.Limit != 0 {
		cfg = cfg.WithMemoryLimitPages(c.Limit)
	}
	r := &runner{ctx: ctx, engine: engine, rt: wazero.NewRuntimeWithConfig(ctx, cfg), c: c, m: newModel(c.Limit),
		mods: map[string]api.Module{}, compiled: map[int]wazero.CompiledModule{}, res: &runResult{labels: map[string]int{}}, allowExcluded: allowExcluded}
	r.m.allowExcluded = allowExcluded
	defer r.rt.Close(ctx)
	r.res.m = r.m
	for i, s := range c.Script {
		var msg string
		switch s.Op {
		case "inst":
			msg = r.instantiate(s)
		case "acc", "host":
			msg = r.access(s)
		case "gc":
			letTimePass()
		case "close":
			msg = r.close(s)
		}
		if msg == "" && (r.res.harness != "" || r.res.excluded != "") {
			return r.res
		}
		if msg != "" {
			r.res.msg = fmt.Sprintf("[%s] step %d %s: %s", engine, i, stepString(s), msg)
			return r.res
		}
	}
	if r.failed {
		letTimePass() // what a failed instance left unreachable is collected and finalized before the last look
	}
	if msg := r.sweep(true); msg != "" {
		r.res.msg = fmt.Sprintf("[%s] final sweep: %s", engine, msg)
	}
	return r.res
}

// letTimePass runs garbage collections and gives finalizers (which release compiled code) time
// to run.
func letTimePass() {
	runtime.GC()
	runtime.Gosched()
	time.Sleep(400 * time.Microsecond)
}

func stepString(s Step) string {
	b, _ := json.Marshal(s)
	return string(b)
}

func (r *runner) instantiate(s Step) string {
	if s.Spec < 0 || s.Spec >= len(r.c.Specs) || s.As == "" {
		return ""
	}
	if _, dup := r.m.live[s.As]; dup {
		return "" // instance names are unique by construction; nothing to do on a damaged replay file
	}
	spec := r.c.Specs[s.Spec]
	r.m.resolve = s.Resolve
	p := r.m.plan(spec, s.As)
	r.m.resolve = nil
	ictx := r.ctx
	if len(s.Resolve) > 0 {
		ictx = experimental.WithImportResolver(r.ctx, func(name string) api.Module {
			if d, ok := s.Resolve[name]; ok {
				if mod := r.mods[d]; mod != nil {
					return mod
				}
			}
			return nil
		})
	}
	if p.specCompat && !r.allowExcluded {
		switch {
		case p.elemOOB >= 0:
			r.res.excluded = "out-of-bounds active element segment (finding " + findOOBElem + ")"
		case len(p.nullOver) > 0:
			r.res.excluded = "null item of an active element segment over a non-null slot (finding " + findNullItem + ")"
		}
		if r.res.excluded != "" {
			return ""
		}
	}
	bin := spec.build("")
	mc := wazero.NewModuleConfig().WithName(s.As)
	var mod api.Module
	var err error
	cm, ok := r.compiled[s.Spec]
	if !ok {
		cm, err = r.rt.CompileModule(r.ctx, bin)
		if err != nil {
			if p.compileReject {
				r.res.labels["inst:rejected-at-compile(mutable global in const expr)"]++
				return ""
			}
			r.res.harness = fmt.Sprintf("module %s believed valid does not compile: %v", spec.Name, err)
			return ""
		}
		r.compiled[s.Spec] = cm
	}
	if p.typeErr {
		return fmt.Sprintf("CompileModule(%s) accepted a module whose element segment item reads an imported global of another type than the table's element type (constant expressions must have the element type)", spec.Name)
	}
	if p.compileReject {
		r.res.labels["inst:spec-invalid-const-expr-accepted"]++
	}
	if s.Bytes {
		r.nonce++
		mod, err = r.rt.InstantiateWithConfig(ictx, spec.build(fmt.Sprintf("%s-%d", s.As, r.nonce)), mc)
	} else {
		mod, err = r.rt.InstantiateModule(ictx, cm, mc)
	}
	if err == nil {
		if !p.specCompat {
			return fmt.Sprintf("InstantiateModule(%s as %q) succeeded although an import does not match its export: %s", spec.Name, s.As, p.why)
		}
		if st := r.m.run(p); st != "ok" {
			return fmt.Sprintf("InstantiateModule(%s as %q) succeeded although the specification requires it to fail (%s)", spec.Name, s.As, st)
		}
		r.mods[s.As] = mod
		r.res.labels["inst:accepted"]++
		if p.aliasMut {
			r.res.labels["inst:accepted-with-one-mutable-global-imported-twice"]++
		}
		if !p.wzCompat {
			r.res.labels["inst:accepted-beyond-documented-rule"]++
		}
		return ""
	}
	out := wz.Classify(err)
	if out.Kind == wz.KInternal {
		return fmt.Sprintf("InstantiateModule(%s as %q) failed with an internal error: %s", spec.Name, s.As, firstLine(err.Error()))
	}
	cls := classifyInstErr(err)
	if cls == "link" {
		if p.specCompat {
			r.res.labels["inst:compatible-but-rejected(converse, not part of the property)"]++
			if p.wzCompat {
				r.res.labels["inst:compatible-by-documented-rule-but-rejected"]++
			}
		} else {
			r.res.labels["inst:rejected-incompatible-import"]++
		}
		r.m.reject()
		return r.afterFailure()
	}
	if !p.specCompat {
		// It did not succeed, so acceptance is not violated, but it got past linking: whatever it
		// wrote is not in the model and the sweep below will show it.
		r.res.labels["inst:incompatible-import-failed-later"]++
		r.m.reject()
		return r.afterFailure()
	}
	want := r.m.run(p)
	if want != "ok" && p.inst.escapedToGlobal() && !r.allowExcluded {
		r.res.excluded = "function of a failed instance left in an imported funcref global (finding " + findDangle + ")"
		return ""
	}
	if cls != want {
		return fmt.Sprintf("InstantiateModule(%s as %q) failed with %q; the model expects outcome %q (imports match; constant expressions evaluated with the current values of the imported globals)",
			spec.Name, s.As, firstLine(err.Error()), want)
	}
	r.res.labels["inst:failed-at-"+want]++
	if p.inst.leftInTables() {
		r.failed = true // functions of the failed instance live on in shared tables
	}
	return r.afterFailure()
}

// close closes an instance that only imports what it shares (see model.closable): everything
// it imported must stay alive and unchanged for the other instances.
func (r *runner) close(s Step) string {
	in, ok := r.m.live[s.Inst]
	if !ok || !r.m.closable(in) {
		r.res.labels["step:skipped"]++
		return ""
	}
	if err := r.mods[s.Inst].Close(r.ctx); err != nil {
		return "Close failed: " + firstLine(err.Error())
	}
	delete(r.mods, s.Inst)
	r.m.close(s.Inst)
	r.res.labels["close:importer-closed"]++
	if msg := r.sweep(false); msg != "" {
		return "after closing " + s.Inst + ": " + msg
	}
	return ""
}

// afterFailure re-reads the whole store after a failed instantiation.
func (r *runner) afterFailure() string {
	if msg := r.sweep(false); msg != "" {
		return "after the failed instantiation: " + msg
	}
	return ""
}

func lookup(mod api.Module, tbl, slot uint32, sig int) (f api.Function, panicked any) {
	defer func() { panicked = recover() }()
	return table.LookupFunction(mod, tbl, slot, sigs[sig].P, sigs[sig].R), nil
}

func (r *runner) access(s Step) string {
	want := r.m.eval(s)
	if want.skip {
		if want.excl != "" {
			r.res.labels[want.excl]++
		} else {
			r.res.labels["step:skipped"]++
		}
		return ""
	}
	mod := r.mods[s.Inst]
	if mod == nil {
		return "harness: live instance without api.Module"
	}
	cmpVals := func(got []uint64) string {
		if len(got) != len(want.vals) {
			return fmt.Sprintf("returned %d values %x, model expects %x", len(got), got, want.vals)
		}
		for i := range got {
			if got[i]&want.mask[i] != want.vals[i]&want.mask[i] {
				return fmt.Sprintf("returned %x, model expects %x", got, want.vals)
			}
		}
		return ""
	}
	if s.Op == "acc" {
		name := accName(s.Acc, s.Idx, s.Sig)
		f := mod.ExportedFunction(name)
		if f == nil {
			r.res.harness = fmt.Sprintf("accessor %s missing in %s", name, s.Inst)
			return ""
		}
		got, out := wz.SafeCall(r.ctx, f, s.Args...)
		if want.trap != "" {
			if out.Kind != wz.KTrap || out.Detail != want.trap {
				return fmt.Sprintf("outcome %v values %x, model expects trap %q", out, got, want.trap)
			}
			return ""
		}
		if out.Kind != wz.KOK {
			return fmt.Sprintf("outcome %v, model expects values %x", out, want.vals)
		}
		return cmpVals(got)
	}
	// host operations
	switch s.Acc {
	case "hgget", "hgset":
		g := mod.ExportedGlobal(fmt.Sprintf("g%d", s.Idx))
		if g == nil {
			return "ExportedGlobal returned nil for an exported global"
		}
		mg, isMut := g.(api.MutableGlobal)
		if declared := r.m.live[s.Inst].v.gt[s.Idx].mut; isMut != declared {
			return fmt.Sprintf("ExportedGlobal is mutable=%v but the module declares the global mutable=%v", isMut, declared)
		}
		if s.Acc == "hgset" {
			mg.Set(arg(s.Args, 0))
			return ""
		}
		return r.cmpGlobal(g.Get(), want)
	case "higet":
		return r.cmpGlobal(mod.(experimental.InternalModule).Global(s.Idx).Get(), want)
	case "hm8", "hm32", "hmw8", "hmsize":
		mem := mod.Memory()
		if s.Sig == 1 && r.m.live[s.Inst].spec.exported(kMem, 0) {
			mem = mod.ExportedMemory("mem")
		}
		if mem == nil {
			return "Memory()/ExportedMemory returned nil for a module with a memory"
		}
		ad := uint32(arg(s.Args, 0))
		var v uint64
		ok := true
		switch s.Acc {
		case "hm8":
			var b byte
			b, ok = mem.ReadByte(ad)
			v = uint64(b)
		case "hm32":
			var w uint32
			w, ok = mem.ReadUint32Le(ad)
			v = uint64(w)
		case "hmw8":
			ok = mem.WriteByte(ad, byte(arg(s.Args, 1)))
		case "hmsize":
			return cmpVals([]uint64{uint64(mem.Size())})
		}
		if ok != (want.trap == "") {
			return fmt.Sprintf("host memory access ok=%v, model expects in-bounds=%v", ok, want.trap == "")
		}
		if ok && len(want.vals) > 0 {
			return cmpVals([]uint64{v})
		}
		return ""
	case "htl":
		f, p := lookup(mod, uint32(s.Idx), uint32(arg(s.Args, 0)), s.Sig)
		if want.trap != "" {
			if p == nil {
				return fmt.Sprintf("table.LookupFunction returned a function, model expects failure %q", want.trap)
			}
			return ""
		}
		if p != nil {
			return fmt.Sprintf("table.LookupFunction panicked (%v), model expects function %s.func[%d]", p, want.fnMod, want.fnIdx)
		}
		d := f.Definition()
		if d.ModuleName() != want.fnMod || int(d.Index()) != want.fnIdx {
			return fmt.Sprintf("table.LookupFunction returned %s.func[%d], model expects %s.func[%d]", d.ModuleName(), d.Index(), want.fnMod, want.fnIdx)
		}
		return ""
	case "hfcall":
		f := mod.ExportedFunction(fmt.Sprintf("f%d", s.Idx))
		if f == nil {
			return "ExportedFunction returned nil for an exported function"
		}
		got, out := wz.SafeCall(r.ctx, f, dummyArgs(r.m.live[s.Inst].funcs[s.Idx].sig)...)
		if want.trap != "" {
			if out.Kind != wz.KTrap || out.Detail != want.trap {
				return fmt.Sprintf("outcome %v values %x, model expects trap %q", out, got, want.trap)
			}
			return ""
		}
		if out.Kind != wz.KOK {
			return fmt.Sprintf("outcome %v, model expects values %x", out, want.vals)
		}
		return cmpVals(got)
	}
	return ""
}

func (r *runner) cmpGlobal(got uint64, want mres) string {
	if want.mask[0] == 0 { // funcref: only null-ness is comparable
		if (got == 0) != want.null {
			return fmt.Sprintf("funcref global is null=%v, model expects null=%v", got == 0, want.null)
		}
		return ""
	}
	if got&want.mask[0] != want.vals[0] {
		return fmt.Sprintf("api.Global.Get returned %x, model expects %x", got, want.vals[0])
	}
	return ""
}

// sweep reads every object through every live instance (host API and read-only accessors).
// The final sweep also CALLS every function found in a table (through the first instance that
// sees the table): functions left behind by failed or earlier instances must still run, on the
// state of the instance that defines them.
func (r *runner) sweep(final bool) string {
	called := map[*mTable]bool{}
	for _, name := range r.m.order {
		in := r.m.live[name]
		try := func(s Step) string {
			s.Inst = name
			if msg := r.access(s); msg != "" {
				return fmt.Sprintf("%s: %s", stepString(s), msg)
			}
			return ""
		}
		for i, g := range in.globals {
			hop := "hgget"
			if !in.spec.exported(kGlobal, i) {
				hop = "higet"
			}
			if msg := try(Step{Op: "host", Acc: hop, Idx: i}); msg != "" {
				return msg
			}
			op := Step{Op: "acc", Acc: "gget", Idx: i}
			if g.vt == wasmenc.FuncRef {
				op.Acc = "gnull"
			}
			if msg := try(op); msg != "" {
				return msg
			}
		}
		for i, t := range in.tables {
			if msg := try(Step{Op: "acc", Acc: "tsize", Idx: i}); msg != "" {
				return msg
			}
			for slot := 0; slot < t.size() && slot < 12; slot++ {
				if msg := try(Step{Op: "acc", Acc: "tnull", Idx: i, Args: []uint64{uint64(slot)}}); msg != "" {
					return msg
				}
				if t.elem == wasmenc.ExternRef {
					if msg := try(Step{Op: "acc", Acc: "tget", Idx: i, Args: []uint64{uint64(slot)}}); msg != "" {
						return msg
					}
				} else if f := t.fn[slot]; f != nil {
					if final && !called[t] {
						if msg := try(Step{Op: "acc", Acc: "tcall", Idx: i, Sig: f.f.sig, Args: []uint64{uint64(slot)}}); msg != "" {
							return msg
						}
						f = t.fn[slot] // the call may have rewritten the slot
						if f == nil {
							continue
						}
					}
					if msg := try(Step{Op: "host", Acc: "htl", Idx: i, Sig: f.f.sig, Args: []uint64{uint64(slot)}}); msg != "" {
						return msg
					}
				}
			}
		}
		for _, t := range in.tables {
			called[t] = true
		}
		if in.mem != nil {
			if msg := try(Step{Op: "acc", Acc: "msize"}); msg != "" {
				return msg
			}
			if msg := try(Step{Op: "host", Acc: "hmsize", Sig: 1}); msg != "" {
				return msg
			}
			addrs := []uint32{0, pageSize - 1}
			var dirty []uint32
			for a := range in.mem.b {
				dirty = append(dirty, a, a+1)
			}
			sort.Slice(dirty, func(i, j int) bool { return dirty[i] < dirty[j] })
			addrs = append(addrs, dirty...)
			for _, a := range addrs {
				if uint64(a) >= in.mem.bytes() {
					continue
				}
				if msg := try(Step{Op: "host", Acc: "hm8", Args: []uint64{uint64(a)}}); msg != "" {
					return msg
				}
			}
		}
	}
	return ""
}

// ---- evaluation of a case on both engines ----

func evaluate(c *Case) (msg string, harness string, results []*runResult) {
	evid.Journal(c)
	engines := wz.Engines
	if e := os.Getenv("VERIF_C04_ENGINE"); e != "" { // debugging aid: run one engine only
		engines = []string{e}
	}
	for _, e := range engines {
		res := runCase(c, e)
		results = append(results, res)
		if res.msg != "" {
			return res.msg, "", results
		}
		if res.harness != "" {
			return "", res.harness, results
		}
	}
	return "", "", results
}

func TestLinkedGraphs(t *testing.T) {
	if evid.ReplayPath() != "" {
		t.Skip()
	}
	evid.Check(t, "linked-graphs", evid.Scale(6000, 320000), func(t *rapid.T) {
		c := genCase(t)
		msg, harness, results := evaluate(c)
		if harness != "" {
			t.Fatalf("harness: %s\ncase: %s", harness, mustJSON(c))
		}
		if msg != "" {
			evid.Fail(t, c, "%s", msg)
		}
		record(c, results)
	})
}

func mustJSON(v any) string {
	b, _ := json.Marshal(v)
	return string(b)
}

// record writes the evidence counters of a passed case.
func record(c *Case, results []*runResult) {
	res := results[0]
	m := res.m
	if res.excluded != "" {
		evid.Case(c.key(), false, "case:stopped-at-excluded-class")
		return
	}
	nontrivial := m.crossRead || m.failAfter
	var lbls []string
	if m.crossRead {
		lbls = append(lbls, "case:write-through-one-instance-read-through-another")
	}
	if m.failAfter {
		lbls = append(lbls, "case:failing-instantiation-after-success")
	}
	failed := false
	for l, n := range res.labels {
		evid.Label(l, int64(n))
		if strings.HasPrefix(l, "inst:failed") || strings.HasPrefix(l, "inst:rejected") || strings.HasPrefix(l, "inst:compatible-but") {
			failed = true
		}
	}
	if failed {
		lbls = append(lbls, "case:with-failing-instantiation")
	}
	for k, n := range []string{"func", "table", "memory", "global"} {
		if m.sharedKind[k] {
			lbls = append(lbls, "case:shared-"+n)
		}
	}
	seen := map[*ModSpec]bool{}
	for _, n := range m.order {
		if sp := m.live[n].spec; seen[sp] {
			lbls = append(lbls, "case:two-live-instances-of-one-module")
			break
		} else {
			seen[sp] = true
		}
	}
	for _, st := range c.Script {
		if st.Acc == "rtcall" || st.Acc == "rcall" {
			lbls = append(lbls, "case:with-tail-call-accessor")
			break
		}
	}
	if m.closed > 0 {
		lbls = append(lbls, "case:with-closed-importer")
	}
	for _, st := range c.Script {
		if len(st.Resolve) > 0 {
			lbls = append(lbls, "case:with-import-resolver")
			break
		}
	}
	if m.deepTail > 0 {
		lbls = append(lbls, "case:tail-call-issued-by-another-instance-than-the-one-entered")
	}
	for _, sp := range c.Specs {
		if sp.Mem != nil && sp.Mem.Shared {
			lbls = append(lbls, "case:with-shared-memory")
			break
		}
	}
	if m.reexpUse > 0 {
		lbls = append(lbls, "case:re-exported-import-of-a-definer-with-function-imports")
	}
	if m.lookupImp > 0 {
		lbls = append(lbls, "case:host-lookup-of-reference-made-from-imported-function")
	}
	live := len(m.order)
	if live > 5 {
		live = 5
	}
	lbls = append(lbls, fmt.Sprintf("case:live-instances=%d%s", live, map[bool]string{true: "+"}[live == 5]))
	lbls = append(lbls, fmt.Sprintf("case:script-steps=%d0s", len(c.Script)/10))
	evid.Case(c.key(), nontrivial, lbls...)
	if nontrivial && evid.WantSample("graph", 3) {
		evid.Sample("graph", 3, c)
	}
}

func TestReplay(t *testing.T) {
	p := evid.ReplayPath()
	if p == "" {
		t.Skip()
	}
	var cc concCase
	if _, err := evid.LoadReplay(p, &cc); err == nil && len(cc.Rounds) > 0 {
		// schedule-dependent: the recorded rounds are repeated
		defer runtime.GOMAXPROCS(runtime.GOMAXPROCS(8))
		for i := 0; i < 200; i++ {
			if msg := runConc(&cc); msg != "" {
				evid.Violation("replay", &cc, "%s", msg)
				t.Fatal(msg)
			}
		}
		return
	}
	var tc typesCase
	if _, err := evid.LoadReplay(p, &tc); err == nil && len(tc.Sigs) > 0 {
		if msg := evalTypes(&tc); msg != "" {
			evid.Violation("replay", &tc, "%s", msg)
			t.Fatal(msg)
		}
		return
	}
	var c Case
	if _, err := evid.LoadReplay(p, &c); err != nil {
		t.Fatal(err)
	}
	msg, harness, _ := evaluate(&c)
	if harness != "" {
		t.Fatalf("harness: %s", harness)
	}
	if msg != "" {
		evid.Violation("replay", &c, "%s", msg)
		t.Fatal(msg)
	}
}

// ---- known findings: specific inputs of the classes the generator excludes ----

const (
	findNullItem    = "C04-null-elem-item-skipped"
	findOOBElem     = "C04-oob-elem-segment-ignored"
	findDataFirst   = "C04-data-oob-skips-elems" // fixed in /repo 0aaef3d: the class is generated again, the input stays
	findAliasGlobal = "C04-compiler-aliased-imported-globals"
	findLookupImp   = "C04-lookup-imported-funcref"
	findReexport    = "C04-compiler-reexported-import-wrong-function"
	findDangle      = "C04-failed-instance-funcref-global-dangles" // re-run in a child process, see TestKnownDangle
)

func knownCases() map[string]*Case {
	fr := wasmenc.FuncRef
	base := func() *ModSpec {
		return &ModSpec{Name: "m0", Funcs: []FuncSpec{{Sig: 0, ID: 101}}, Mem: &MemSpec{Min: 1, Max: noMax},
			Tables:  []TableSpec{{Elem: fr, Min: 2, Max: noMax}},
			Globals: []GlobalSpec{{VT: wasmenc.I32, Mut: true, Init: Expr{K: "i32", V: 5}}},
			Elems:   []ElemSpec{{Table: 0, Off: Expr{K: "i32"}, Items: []Expr{{K: "func", V: 0}}}}}
	}
	imps := []ImportSpec{{Mod: "m0", Name: "t0", Kind: kTable, Elem: fr, Min: 2, Max: noMax}, {Mod: "m0", Name: "mem", Kind: kMem, Min: 1, Max: noMax},
		{Mod: "m0", Name: "g0", Kind: kGlobal, VT: wasmenc.I32, Mut: true, Max: noMax}}
	script := []Step{{Op: "inst", Spec: 0, As: "m0"}, {Op: "inst", Spec: 1, As: "m1"}}
	gmut := ImportSpec{Mod: "m0", Name: "g0", Kind: kGlobal, VT: wasmenc.I32, Mut: true, Max: noMax}
	f3 := []FuncSpec{{Sig: 0, ID: 101}, {Sig: 0, ID: 102}, {Sig: 0, ID: 103}}
	return map[string]*Case{
		// m1 imports the mutable global m0.g0 twice ($a, $b); f: a++; b++; a++ must leave g0 = 3
		findAliasGlobal: {Specs: []*ModSpec{{Name: "m0", Globals: []GlobalSpec{{VT: wasmenc.I32, Mut: true, Init: Expr{K: "i32"}}}},
			{Name: "m1", Imports: []ImportSpec{gmut, gmut}, Funcs: []FuncSpec{{Sig: 0, ID: 201, Ops: []Op{{K: "ginc", A: 0}, {K: "ginc", A: 1}, {K: "ginc", A: 0}}}}}},
			Script: append(append([]Step{}, script...), Step{Op: "acc", Inst: "m1", Acc: "call", Idx: 0}, Step{Op: "acc", Inst: "m0", Acc: "gget", Idx: 0}), AllowExcluded: true},
		// m1 imports m0.f2, m0.f1 as functions 0, 1 and puts them into its own table; the host
		// looks the slots up with experimental/table.LookupFunction
		findLookupImp: {Specs: []*ModSpec{{Name: "m0", Funcs: f3},
			{Name: "m1", Imports: []ImportSpec{{Mod: "m0", Name: "f2", Kind: kFunc, Max: noMax}, {Mod: "m0", Name: "f1", Kind: kFunc, Max: noMax}},
				Tables: []TableSpec{{Elem: fr, Min: 2, Max: noMax}},
				Elems:  []ElemSpec{{Table: 0, Off: Expr{K: "i32"}, Items: []Expr{{K: "func", V: 0}, {K: "func", V: 1}}}}}},
			Script: append(append([]Step{}, script...), Step{Op: "host", Inst: "m1", Acc: "htl", Idx: 0, Args: []uint64{0}}, Step{Op: "host", Inst: "m1", Acc: "htl", Idx: 0, Args: []uint64{1}}), AllowExcluded: true},
		// m1 imports m0.f0 and defines f1, f2; m2 imports m1.f2 (its function 0, re-exported as
		// "f0"); m3 imports m2.f0. Calling it through m2's export (host) and through m3 must reach m1.f2
		findReexport: {Specs: []*ModSpec{{Name: "m0", Funcs: f3[:1]},
			{Name: "m1", Imports: []ImportSpec{{Mod: "m0", Name: "f0", Kind: kFunc, Max: noMax}}, Funcs: []FuncSpec{{Sig: 0, ID: 201}, {Sig: 0, ID: 202}}},
			{Name: "m2", Imports: []ImportSpec{{Mod: "m1", Name: "f2", Kind: kFunc, Max: noMax}}},
			{Name: "m3", Imports: []ImportSpec{{Mod: "m2", Name: "f0", Kind: kFunc, Max: noMax}}}},
			Script: append(append([]Step{}, script...), Step{Op: "inst", Spec: 2, As: "m2"}, Step{Op: "inst", Spec: 3, As: "m3"},
				Step{Op: "acc", Inst: "m2", Acc: "call", Idx: 0}, Step{Op: "host", Inst: "m2", Acc: "hfcall", Idx: 0}, Step{Op: "acc", Inst: "m3", Acc: "call", Idx: 0}),
			AllowExcluded: true},
		// m1: (elem (table m0.t0) (i32.const 0) funcref (ref.null func)) must overwrite slot 0 with null
		findNullItem: {Specs: []*ModSpec{base(), {Name: "m1", Imports: imps,
			Elems: []ElemSpec{{Table: 0, Off: Expr{K: "i32"}, Items: []Expr{{K: "null"}}}}}}, Script: script, AllowExcluded: true},
		// m1: second element segment is out of bounds: instantiation must fail after the first
		// segment was written; data segments and the start function must not run
		findOOBElem: {Specs: []*ModSpec{base(), {Name: "m1", Imports: imps, Funcs: []FuncSpec{{Sig: 0, ID: 201}},
			Elems: []ElemSpec{{Table: 0, Off: Expr{K: "i32", V: 1}, Items: []Expr{{K: "func", V: 0}}}, {Table: 0, Off: Expr{K: "i32", V: 2}, Items: []Expr{{K: "func", V: 0}}}},
			Datas: []DataSpec{{Off: Expr{K: "i32"}, Bytes: []byte("a")}},
			Start: &StartSpec{Ops: []Op{{K: "gsetc", A: 0, B: 7}}}}}, Script: script, AllowExcluded: true},
		// m1: element segment into the shared table, then an out-of-bounds data segment: the
		// element segment is applied first and persists
		findDataFirst: {Specs: []*ModSpec{base(), {Name: "m1", Imports: imps, Funcs: []FuncSpec{{Sig: 0, ID: 201}},
			Elems: []ElemSpec{{Table: 0, Off: Expr{K: "i32", V: 1}, Items: []Expr{{K: "func", V: 0}}}},
			Datas: []DataSpec{{Off: Expr{K: "i32", V: pageSize}, Bytes: []byte("x")}}}}, Script: script, AllowExcluded: true},
	}
}

// TestKnownFindings re-runs the specific input of each finding whose class the generator
// excludes, so that it is still reported (KNOWN-FINDING if listed open, else VIOLATION).
func TestKnownFindings(t *testing.T) {
	if evid.ReplayPath() != "" {
		t.Skip()
	}
	if sh, _ := evid.Shard(); sh != 0 {
		return
	}
	cases := knownCases()
	for _, id := range []string{findNullItem, findOOBElem, findDataFirst, findAliasGlobal, findLookupImp, findReexport} {
		c := cases[id]
		msg := ""
		for _, e := range wz.Engines {
			if res := runCase(c, e); res.msg != "" {
				msg = res.msg
				break
			} else if res.harness != "" {
				t.Fatalf("harness: %s", res.harness)
			}
		}
		if msg == "" {
			evid.Note("finding %s no longer reproduces on its specific input", id)
			continue
		}
		if evid.Finding(id, "known-"+id, c, "%s: %s", id, msg) {
			t.Errorf("%s: %s", id, msg)
		}
	}
}

// dangleCase: m1's start function stores its own function in m0's funcref global and traps;
// after GC m0 calls through the global.
// With imported == true the stored reference is to a function m1 IMPORTS from m0 (m0 is alive,
// but on the interpreter the reference points into m1's engine).
func dangleCase(imported bool) *Case {
	m1 := &ModSpec{Name: "m1", Imports: []ImportSpec{{Mod: "m0", Name: "g0", Kind: kGlobal, VT: wasmenc.FuncRef, Mut: true, Max: noMax}},
		Funcs:   []FuncSpec{{Sig: 0, ID: 201, Ops: []Op{{K: "ginc", A: 1}}}},
		Globals: []GlobalSpec{{VT: wasmenc.I32, Mut: true, Init: Expr{K: "i32", V: 5}}},
		Start:   &StartSpec{Ops: []Op{{K: "gsetf", A: 0, C: 1}}, Trap: true}}
	if imported {
		m1.Imports = append(m1.Imports, ImportSpec{Mod: "m0", Name: "f0", Kind: kFunc, Sig: 0, Max: noMax})
	}
	return &Case{AllowExcluded: true, Specs: []*ModSpec{
		{Name: "m0", Funcs: []FuncSpec{{Sig: 0, ID: 101}}, Globals: []GlobalSpec{{VT: wasmenc.FuncRef, Mut: true, Init: Expr{K: "null"}}}},
		m1},
		Script: []Step{{Op: "inst", Spec: 0, As: "m0"}, {Op: "inst", Spec: 1, As: "m1", Bytes: true}, {Op: "gc"}, {Op: "gc"}, {Op: "gc"},
			{Op: "inst", Spec: 0, As: "m0b", Bytes: true}, {Op: "gc"}, {Op: "gc"},
			{Op: "acc", Inst: "m0", Acc: "gcall", Idx: 0, Sig: 0}, {Op: "acc", Inst: "m0", Acc: "gcall", Idx: 0, Sig: 0}}}
}

// TestKnownDangle re-runs the input of finding findDangle in a child process (it can kill the
// process on the compiler) with GODEBUG=clobberfree=1, which makes the use of the collected
// instance deterministic.
func TestKnownDangle(t *testing.T) {
	if evid.ReplayPath() != "" {
		t.Skip()
	}
	if sh, _ := evid.Shard(); sh != 0 {
		return
	}
	for _, imported := range []bool{false, true} {
		if testKnownDangle(t, imported) {
			return
		}
	}
	evid.Note("finding %s no longer reproduces on its specific inputs", findDangle)
}

func testKnownDangle(t *testing.T, imported bool) (reproduced bool) {
	c := dangleCase(imported)
	dir := filepath.Join(evid.WorkDir(), fmt.Sprintf("dangle-%v", imported))
	os.MkdirAll(dir, 0o755)
	b, _ := json.Marshal(map[string]any{"property": "C04", "check": "known-" + findDangle, "case": c})
	rp := filepath.Join(dir, "case.json")
	if err := os.WriteFile(rp, b, 0o644); err != nil {
		t.Fatal(err)
	}
	cmd := exec.Command(os.Args[0], "-test.run", "^TestReplay$")
	cmd.Dir = dir
	for _, kv := range os.Environ() {
		if strings.HasPrefix(kv, "VERIF_SHARD_OUT=") || strings.HasPrefix(kv, "VERIF_JOURNAL=") || strings.HasPrefix(kv, "VERIF_REPLAY") || strings.HasPrefix(kv, "GODEBUG=") {
			continue
		}
		cmd.Env = append(cmd.Env, kv)
	}
	cmd.Env = append(cmd.Env, "VERIF_REPLAY="+rp, "VERIF_REPLAY_DIR="+filepath.Join(dir, "rp"), "GODEBUG=clobberfree=1")
	out, err := cmd.CombinedOutput()
	if err == nil {
		return false
	}
	msg := firstLine(strings.TrimSpace(strings.TrimPrefix(string(out), "--- FAIL: TestReplay")))
	for _, l := range strings.Split(string(out), "\n") {
		if strings.Contains(l, "step ") || strings.Contains(l, "fatal error") || strings.Contains(l, "SIGSEGV") {
			msg = strings.TrimSpace(l)
			break
		}
	}
	if evid.Finding(findDangle, "known-"+findDangle, c, "%s: after the failed instantiation of m1 and GC (reference to an imported function: %v): %s", findDangle, imported, msg) {
		t.Errorf("%s: %s", findDangle, msg)
	}
	return true
}
