// C04 — function types across instances: a call_indirect with expected type A on a slot of a
// shared table that holds a function of type B defined by another instance calls the function
// iff A and B are exactly the same type (same parameter and result lists over ALL value types:
// i32 i64 f32 f64 v128 funcref externref), otherwise it traps with "indirect call type
// mismatch" and the function does not run.
//
// A case is a pool of signatures and 2-4 modules; module 0 owns and exports a funcref table, the
// others import it. Module k defines one function of one pool signature (it records its id in the
// module's exported global "last" and returns zero/null values), puts it into slot k and
// exports one caller per signature of its call list: c<j>(slot) pushes zero/null arguments of
// signature j and does call_indirect with that type. Every caller is applied to every slot.
package c04

import (
	"context"
	"encoding/json"
	"fmt"
	"testing"

	"github.com/tetratelabs/wazero"
	"github.com/tetratelabs/wazero/api"
	"pgregory.net/rapid"

	"verif/internal/evid"
	"verif/internal/wasmenc"
	"verif/internal/wz"
)

type tSig struct {
	P []byte `json:"p"`
	R []byte `json:"r"`
}

func (s tSig) String() string { return fmt.Sprintf("(%s)->(%s)", vtNames(s.P), vtNames(s.R)) }

func vtNames(ts []byte) string {
	n := map[byte]string{wasmenc.I32: "i32", wasmenc.I64: "i64", wasmenc.F32: "f32", wasmenc.F64: "f64", wasmenc.V128: "v128", wasmenc.FuncRef: "funcref", wasmenc.ExternRef: "externref"}
	out := ""
	for i, t := range ts {
		if i > 0 {
			out += " "
		}
		out += n[t]
	}
	return out
}

func (s tSig) equal(o tSig) bool { return string(s.P) == string(o.P) && string(s.R) == string(o.R) }

type tMod struct {
	Func  int   `json:"func"`  // signature (index into Sigs) of the function this module puts into its slot
	Calls []int `json:"calls"` // signatures its callers expect
}

type typesCase struct {
	Sigs []tSig `json:"sigs"`
	Mods []tMod `json:"mods"`
}

func pushZero(b *wasmenc.B, t byte) {
	switch t {
	case wasmenc.I32:
		b.I32Const(0)
	case wasmenc.I64:
		b.I64Const(0)
	case wasmenc.F32:
		b.F32Const(0)
	case wasmenc.F64:
		b.F64Const(0)
	case wasmenc.V128:
		b.V128Const(0, 0)
	default:
		b.RefNull(t)
	}
}

func (c *typesCase) module(k int) []byte {
	n := len(c.Mods)
	m := &wasmenc.Module{}
	if k == 0 {
		m.Tables = [][]byte{wasmenc.TableType(wasmenc.FuncRef, uint32(n), -1)}
		m.Exports = append(m.Exports, wasmenc.Export{Name: "t", Kind: kTable, Idx: 0})
	} else {
		m.Imports = append(m.Imports, wasmenc.Import{Mod: "y0", Name: "t", Kind: kTable, Desc: wasmenc.TableType(wasmenc.FuncRef, uint32(n), -1)})
	}
	m.Globals = []wasmenc.Global{{Type: wasmenc.I32, Mut: true, Init: wasmenc.NewB().I32Const(0).Bytes()}}
	m.Exports = append(m.Exports, wasmenc.Export{Name: "last", Kind: kGlobal, Idx: 0})
	fs := c.Sigs[c.Mods[k].Func]
	b := wasmenc.NewB().I32Const(int32(100 + k)).GlobalSet(0)
	for _, r := range fs.R {
		pushZero(b, r)
	}
	f := m.AddFunc(fs.P, fs.R, nil, b.Bytes())
	m.Elems = [][]byte{wasmenc.ActiveElemFuncs(int32(k), []uint32{f})}
	for _, j := range c.Mods[k].Calls {
		cs := c.Sigs[j]
		b := wasmenc.NewB()
		for _, p := range cs.P {
			pushZero(b, p)
		}
		b.LocalGet(0).CallIndirect(m.AddType(cs.P, cs.R), 0)
		for range cs.R {
			b.Drop()
		}
		m.ExportFunc(fmt.Sprintf("c%d", j), m.AddFunc([]byte{wasmenc.I32}, nil, nil, b.Bytes()))
	}
	return m.Encode()
}

func (c *typesCase) valid() bool {
	if len(c.Mods) < 2 || len(c.Mods) > 8 {
		return false
	}
	for _, m := range c.Mods {
		if m.Func < 0 || m.Func >= len(c.Sigs) {
			return false
		}
		for _, j := range m.Calls {
			if j < 0 || j >= len(c.Sigs) {
				return false
			}
		}
	}
	return true
}

// runTypes executes the case on one engine; it returns the first wrong observation.
func runTypes(c *typesCase, engine string) string {
	if !c.valid() {
		return ""
	}
	ctx := context.Background()
	rt := wazero.NewRuntimeWithConfig(ctx, wz.Config(engine))
	defer rt.Close(ctx)
	mods := make([]api.Module, len(c.Mods))
	for k := range c.Mods {
		mod, err := rt.InstantiateWithConfig(ctx, c.module(k), wazero.NewModuleConfig().WithName(fmt.Sprintf("y%d", k)))
		if err != nil {
			return fmt.Sprintf("[%s] harness: module %d does not instantiate: %v", engine, k, firstLine(err.Error()))
		}
		mods[k] = mod
	}
	last := func(k int) uint64 { return mods[k].ExportedGlobal("last").Get() & 0xffffffff }
	for k, mk := range c.Mods {
		for _, j := range mk.Calls {
			for slot, ms := range c.Mods {
				a, b := c.Sigs[j], c.Sigs[ms.Func]
				_, out := wz.SafeCall(ctx, mods[k].ExportedFunction(fmt.Sprintf("c%d", j)), uint64(slot))
				what := fmt.Sprintf("[%s] module y%d: call_indirect with expected type %v on shared-table slot %d, which holds module y%d's function of type %v", engine, k, a, slot, slot, b)
				if a.equal(b) {
					if out.Kind != wz.KOK || last(slot) != uint64(100+slot) {
						return fmt.Sprintf("%s (identical): outcome %v, function ran=%v; expected the function to be called", what, out, last(slot) != 0)
					}
					mods[slot].ExportedGlobal("last").(api.MutableGlobal).Set(0)
				} else if out.Kind != wz.KTrap || out.Detail != trapSig || last(slot) != 0 {
					return fmt.Sprintf("%s (different): outcome %v, function ran=%v; expected trap %q without running the function", what, out, last(slot) != 0, trapSig)
				}
			}
		}
	}
	return ""
}

func evalTypes(c *typesCase) string {
	for _, e := range wz.Engines {
		if msg := runTypes(c, e); msg != "" {
			return msg
		}
	}
	return ""
}

// TestTypePairs enumerates every ordered pair of distinct value types (t1, t2) at every kind of
// position: two modules, the function of one has t1 there, the caller of the other expects t2.
func TestTypePairs(t *testing.T) {
	if evid.ReplayPath() != "" {
		t.Skip()
	}
	i := 0
	var n, bad int64
	for _, t1 := range allVT {
		for _, t2 := range allVT {
			if t1 == t2 {
				continue
			}
			shapes := [][2]tSig{
				{{P: []byte{t1}, R: []byte{wasmenc.I32}}, {P: []byte{t2}, R: []byte{wasmenc.I32}}},                     // only parameter
				{{P: []byte{wasmenc.I32}, R: []byte{t1}}, {P: []byte{wasmenc.I32}, R: []byte{t2}}},                     // only result
				{{P: []byte{wasmenc.I64, t1, wasmenc.F32}, R: nil}, {P: []byte{wasmenc.I64, t2, wasmenc.F32}, R: nil}}, // middle parameter
				{{P: nil, R: []byte{wasmenc.I32, t1}}, {P: nil, R: []byte{wasmenc.I32, t2}}},                           // second result
				{{P: []byte{t1, t1}, R: []byte{t1}}, {P: []byte{t1, t2}, R: []byte{t1}}},                               // among equal neighbours
				{{P: []byte{t1}, R: []byte{t2}}, {P: []byte{t2}, R: []byte{t1}}},                                       // swapped
			}
			for _, sh := range shapes {
				i++
				if !evid.Mine(i) {
					continue
				}
				c := &typesCase{Sigs: []tSig{sh[0], sh[1]}, Mods: []tMod{{Func: 0, Calls: []int{0, 1}}, {Func: 1, Calls: []int{0, 1}}}}
				n++
				if msg := evalTypes(c); msg != "" {
					bad++
					evid.Violation("type-pairs", c, "%s", msg)
					t.Errorf("%s", msg)
					if bad >= 3 {
						evid.Bulk(n, n, "types:pair-matrix")
						return
					}
				}
			}
		}
	}
	evid.Bulk(n, n, "types:pair-matrix")
}

func TestTypeMix(t *testing.T) {
	if evid.ReplayPath() != "" {
		t.Skip()
	}
	vt := rapid.SampledFrom(allVT)
	evid.Check(t, "type-mix", evid.Scale(1200, 80000), func(t *rapid.T) {
		c := &typesCase{}
		base := tSig{P: rapid.SliceOfN(vt, 0, 4).Draw(t, "params"), R: rapid.SliceOfN(vt, 0, 2).Draw(t, "results")}
		c.Sigs = append(c.Sigs, base)
		// near misses: exactly one position replaced by another type
		for i, n := 0, rapid.IntRange(1, 3).Draw(t, "variants"); i < n && len(base.P)+len(base.R) > 0; i++ {
			v := tSig{P: append([]byte{}, base.P...), R: append([]byte{}, base.R...)}
			pos := rapid.IntRange(0, len(v.P)+len(v.R)-1).Draw(t, "position")
			nt := vt.Filter(func(b byte) bool {
				if pos < len(v.P) {
					return b != v.P[pos]
				}
				return b != v.R[pos-len(v.P)]
			}).Draw(t, "other-type")
			if pos < len(v.P) {
				v.P[pos] = nt
			} else {
				v.R[pos-len(v.P)] = nt
			}
			c.Sigs = append(c.Sigs, v)
		}
		// and unrelated ones, a longer/shorter list
		if rapid.Bool().Draw(t, "longer") {
			c.Sigs = append(c.Sigs, tSig{P: append(append([]byte{}, base.P...), vt.Draw(t, "extra")), R: base.R})
		}
		if rapid.Bool().Draw(t, "unrelated") {
			c.Sigs = append(c.Sigs, tSig{P: rapid.SliceOfN(vt, 0, 3).Draw(t, "params2"), R: rapid.SliceOfN(vt, 0, 2).Draw(t, "results2")})
		}
		sig := rapid.IntRange(0, len(c.Sigs)-1)
		for k, n := 0, rapid.IntRange(2, 4).Draw(t, "modules"); k < n; k++ {
			c.Mods = append(c.Mods, tMod{Func: sig.Draw(t, "func-sig"), Calls: rapid.SliceOfNDistinct(sig, 1, len(c.Sigs), rapid.ID[int]).Draw(t, "call-sigs")})
		}
		if msg := evalTypes(c); msg != "" {
			evid.Fail(t, c, "%s", msg)
		}
		// non-trivial: some caller meets a function of another module with a different and one with the same type
		same, diff := false, false
		for k, mk := range c.Mods {
			for _, j := range mk.Calls {
				for s, ms := range c.Mods {
					if s != k {
						if c.Sigs[j].equal(c.Sigs[ms.Func]) {
							same = true
						} else {
							diff = true
						}
					}
				}
			}
		}
		b, _ := json.Marshal(c)
		evid.Case(evid.Key(b), same && diff, "types:mix")
		evid.Sample("type-mix", 1, c)
	})
}
