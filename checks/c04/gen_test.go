// C04 — generator. The case is drawn while the reference model is run on it (with wazero's
// documented acceptance rule as the predicted outcome of each instantiation), so that import
// types, segment offsets and call arguments can be placed around the current state of the
// objects they refer to.
package c04

import (
	"fmt"
	"sort"

	"pgregory.net/rapid"

	"verif/internal/evid"
	"verif/internal/wasmenc"
)

type gen struct {
	t       *rapid.T
	m       *model
	c       *Case
	maxMods int
	fresh   int
	hot     any // last written shared object (*mGlobal, *mTable, *mMem)
	hotBy   string
	hotSlot int // table slot written by the last tsetf (-1: none)
	zombies []zombie
	pending *mGlobal // mutable ref global that the next (spec-invalid) module reads in an element item
}

func (g *gen) n(lo, hi int, label string) int { return rapid.IntRange(lo, hi).Draw(g.t, label) }

// pct is true with probability p%. rapid's integer generators are biased towards small values
// (IntRange(0,99) < 6 holds a third of the time), booleans are not: seven of them make a
// uniform number in [0,128). All-false (what shrinking moves towards) gives false.
func (g *gen) pct(p int, label string) bool {
	v := 0
	for i := 0; i < 7; i++ {
		v <<= 1
		if rapid.Bool().Draw(g.t, label) {
			v |= 1
		}
	}
	return v >= 128-(p*128+50)/100
}

func pick[T any](g *gen, xs []T, label string) T {
	return xs[rapid.IntRange(0, len(xs)-1).Draw(g.t, label)]
}

var allVT = []byte{wasmenc.I32, wasmenc.I64, wasmenc.F32, wasmenc.F64, wasmenc.V128, wasmenc.FuncRef, wasmenc.ExternRef}

var interesting = map[byte][]uint64{
	wasmenc.I32:       {0, 1, 5, 0x7fffffff, 0x80000000, 0xffffffff, 65536},
	wasmenc.I64:       {0, 1, 0x7fffffffffffffff, 0x8000000000000000, 0xffffffffffffffff, 0x100000000},
	wasmenc.F32:       {0, 0x3f800000, 0x80000000, 0x7fc00001, 0xffc00000, 0x7f800001},
	wasmenc.F64:       {0, 0x3ff0000000000000, 0x8000000000000000, 0x7ff8000000000001, 0xfff8000000000000, 0x7ff0000000000001},
	wasmenc.V128:      {0, 1, 0xffffffffffffffff, 0x0123456789abcdef},
	wasmenc.ExternRef: {0, 1, 0xdeadbeef, 0x8000000000000005},
}

func (g *gen) value(vt byte, label string) uint64 {
	if g.pct(70, label+"-interesting") {
		return pick(g, interesting[vt], label)
	}
	v := rapid.Uint64().Draw(g.t, label)
	if vt == wasmenc.I32 || vt == wasmenc.F32 {
		v &= 0xffffffff
	}
	return v
}

func constExpr(vt byte, lo, hi uint64) Expr {
	switch vt {
	case wasmenc.I32:
		return Expr{K: "i32", V: lo}
	case wasmenc.I64:
		return Expr{K: "i64", V: lo}
	case wasmenc.F32:
		return Expr{K: "f32", V: lo}
	case wasmenc.F64:
		return Expr{K: "f64", V: lo}
	case wasmenc.V128:
		return Expr{K: "v128", V: lo, H: hi}
	}
	return Expr{K: "null"}
}

type cand struct {
	mod, name string
	ex        extern
}

func (g *gen) candidates() (by [4][]cand) {
	for _, name := range g.m.order {
		in := g.m.live[name]
		for i, f := range in.funcs {
			if !in.spec.exported(kFunc, i) {
				continue
			}
			by[kFunc] = append(by[kFunc], cand{name, fmt.Sprintf("f%d", i), extern{kind: kFunc, f: f}})
		}
		for i, t := range in.tables {
			if !in.spec.exported(kTable, i) {
				continue
			}
			by[kTable] = append(by[kTable], cand{name, fmt.Sprintf("t%d", i), extern{kind: kTable, t: t}})
		}
		if in.mem != nil && in.spec.exported(kMem, 0) {
			by[kMem] = append(by[kMem], cand{name, "mem", extern{kind: kMem, m: in.mem}})
		}
		for i, gl := range in.globals {
			if !in.spec.exported(kGlobal, i) {
				continue
			}
			by[kGlobal] = append(by[kGlobal], cand{name, fmt.Sprintf("g%d", i), extern{kind: kGlobal, g: gl}})
		}
	}
	return
}

func otherVT(g *gen, vt byte) byte {
	for {
		if o := pick(g, allVT, "other-vt"); o != vt {
			return o
		}
	}
}

// importOf draws the declared type of an import of candidate c: compatible (possibly on the
// edge) when bad is false, incompatible in exactly one respect when bad is true.
func (g *gen) importOf(c cand, bad bool) ImportSpec {
	im := ImportSpec{Mod: c.mod, Name: c.name, Kind: c.ex.kind, Max: noMax}
	if bad && g.pct(15, "bad-generic") {
		switch g.n(0, 2, "bad-generic-kind") {
		case 0:
			im.Name = "g99"
			im.Kind, im.VT = kGlobal, wasmenc.I32
		case 1:
			im.Mod = "nope"
			im.Kind, im.VT = kGlobal, wasmenc.I32
		default: // wrong extern kind
			if c.ex.kind == kGlobal {
				im.Kind, im.Sig = kFunc, 0
			} else {
				im.Kind, im.VT = kGlobal, wasmenc.I32
			}
		}
		return im
	}
	switch c.ex.kind {
	case kFunc:
		im.Sig = c.ex.f.sig
		if bad {
			im.Sig = (im.Sig + g.n(1, len(sigs)-1, "other-sig")) % len(sigs)
		}
	case kGlobal:
		im.VT, im.Mut = c.ex.g.vt, c.ex.g.mut
		if bad {
			switch g.n(0, 2, "bad-global") {
			case 0:
				im.Mut = !im.Mut
			case 1:
				im.VT = otherVT(g, im.VT)
			default:
				im.Mut, im.VT = !im.Mut, otherVT(g, im.VT)
			}
		}
	case kTable:
		t := c.ex.t
		size := uint32(t.size())
		im.Elem, im.Min, im.Max = t.elem, t.min, t.max
		// compatible variations
		switch g.n(0, 9, "table-min") {
		case 0, 1:
			if im.Min > 0 {
				im.Min--
			}
		case 2:
			im.Min = 0
		case 3, 4:
			im.Min = size // current size: matches by the specification; wazero compares with the declared minimum
		}
		if t.max >= 0 {
			switch g.n(0, 5, "table-max") {
			case 0:
				im.Max = noMax
			case 1:
				im.Max = t.max + 1
			}
		}
		if bad {
			switch g.n(0, 3, "bad-table") {
			case 0:
				if im.Elem == wasmenc.FuncRef {
					im.Elem = wasmenc.ExternRef
				} else {
					im.Elem = wasmenc.FuncRef
				}
			case 1:
				im.Min = size + 1
				if im.Max >= 0 && int64(im.Min) > im.Max { // keep the declared limits well-formed
					if t.max >= 0 && int64(im.Min) > t.max {
						im.Max = int64(im.Min) // still incompatible through min
					} else {
						im.Max = int64(im.Min)
					}
				}
			case 2:
				if t.max >= 1 {
					im.Max = t.max - 1
					if int64(im.Min) > im.Max {
						im.Min = uint32(im.Max)
					}
				} else if t.max == 0 {
					im.Elem ^= wasmenc.FuncRef ^ wasmenc.ExternRef
				} else {
					im.Max = int64(size) + int64(g.n(0, 2, "bad-table-max"))
					if int64(im.Min) > im.Max {
						im.Min = uint32(im.Max)
					}
				}
			default:
				if t.max < 0 {
					im.Max = int64(size) + 1
					if int64(im.Min) > im.Max {
						im.Min = uint32(im.Max)
					}
				} else {
					im.Min = size + 1
					if int64(im.Min) > im.Max && im.Max >= 0 {
						im.Max = int64(im.Min)
					}
				}
			}
		}
		if im.Max >= 0 && int64(im.Min) > im.Max {
			im.Min = uint32(im.Max)
		}
	case kMem:
		mm := c.ex.m
		im.Min = mm.pages
		im.Shared = mm.shared
		switch g.n(0, 5, "mem-min") {
		case 0:
			if im.Min > 0 {
				im.Min--
			}
		case 1:
			im.Min = 0
		}
		switch g.n(0, 3, "mem-max") {
		case 0:
			im.Max = noMax
		case 1:
			im.Max = int64(mm.effMax)
		case 2:
			im.Max = int64(mm.effMax) + 1
			if im.Max > 65536 {
				im.Max = 65536
			}
		default:
			if mm.effMax == g.m.limit {
				im.Max = noMax
			} else {
				im.Max = int64(mm.effMax)
			}
		}
		if im.Shared && im.Max < 0 { // a shared memory type needs a maximum
			im.Max = int64(mm.effMax)
		}
		if bad && g.pct(30, "bad-mem-shared") {
			im.Shared = !im.Shared
			if im.Shared && im.Max < 0 {
				im.Max = int64(mm.effMax)
			}
		} else if bad {
			if g.pct(50, "bad-mem-min") && mm.pages+1 <= g.m.limit {
				im.Min = mm.pages + 1
				if im.Max >= 0 && int64(im.Min) > im.Max {
					im.Max = int64(im.Min)
				}
				if im.Max >= 0 && g.m.effMax(im.Max) < mm.effMax && !im.Shared {
					im.Max = noMax
				}
			} else if mm.effMax >= 1 {
				im.Max = int64(mm.effMax) - 1
				if int64(im.Min) > im.Max {
					im.Min = uint32(im.Max)
				}
			} else { // a memory with max 0: the only incompatible type is a bigger minimum
				im.Min, im.Max = 1, noMax
				if im.Shared {
					im.Max = 1
				}
			}
		}
		if im.Max >= 0 && int64(im.Min) > im.Max {
			im.Min = uint32(im.Max)
		}
	}
	return im
}

// genSpec draws module number k.
func (g *gen) genSpec(k int) *ModSpec {
	s := &ModSpec{Name: fmt.Sprintf("m%d", k)}
	by := g.candidates()
	// ---- imports ----
	nImp := 0
	total := len(by[0]) + len(by[1]) + len(by[2]) + len(by[3])
	if total > 0 {
		nImp = g.n(0, 5, "n-imports")
		if nImp == 0 && g.pct(85, "force-import") {
			nImp = 1
		}
	}
	badIdx := -1
	if nImp > 0 && g.pct(20, "bad-import") {
		badIdx = g.n(0, nImp-1, "bad-import-index")
	}
	hasMemImport := false
	tailImported := false
	for i := 0; i < nImp; i++ {
		var kinds []byte
		for _, kk := range []byte{kGlobal, kGlobal, kGlobal, kTable, kTable, kMem, kMem, kFunc, kFunc} {
			if len(by[kk]) > 0 && !(kk == kMem && hasMemImport) {
				kinds = append(kinds, kk)
			}
		}
		if len(kinds) == 0 {
			break
		}
		kk := pick(g, kinds, "import-kind")
		// functions that end in a tail call through a table are worth importing: calling them from
		// here makes a chain entry -> other instance -> tail call -> third place
		var tailers []cand
		for _, x := range by[kFunc] {
			if x.ex.f.tail != nil && x.ex.f.tail.K == "ricall" {
				tailers = append(tailers, x)
			}
		}
		if len(tailers) > 0 && !tailImported && g.pct(50, "import-a-tail-caller") {
			kk, tailImported = kFunc, true
		} else {
			tailers = nil
		}
		c := pick(g, by[kk], "import-target")
		if tailers != nil {
			c = pick(g, tailers, "tail-caller")
		}
		if kk == kFunc && tailers == nil && g.pct(40, "prefer-re-export") {
			// functions that are imports in the exporting instance: resolution has to follow the chain
			var re, deep []cand
			for _, x := range by[kFunc] {
				if x.ex.f.def.name != x.mod {
					re = append(re, x)
					if g.m.live[x.mod].reexportHazard(x.name) { // ... and the definer has function imports itself
						deep = append(deep, x)
					}
				}
			}
			var own []cand // own functions of modules that import functions: importing one starts such a chain
			for _, x := range by[kFunc] {
				if x.ex.f.def.name == x.mod && x.ex.f.def.v.nIF > 0 {
					own = append(own, x)
				}
			}
			switch {
			case len(deep) > 0:
				c = pick(g, deep, "deep-re-exported-target")
			case len(own) > 0 && g.pct(60, "prefer-function-of-importing-module"):
				c = pick(g, own, "function-of-importing-module")
			case len(re) > 0:
				c = pick(g, re, "re-exported-target")
			}
		}
		im := g.importOf(c, i == badIdx)
		im.NoExport = g.pct(45, "import-not-re-exported")
		if im.Kind == kMem {
			if hasMemImport {
				continue
			}
			hasMemImport = true
		}
		s.Imports = append(s.Imports, im)
	}
	// what the imports resolve to right now (nil if some import does not match)
	cur := g.m.plan(&ModSpec{Name: s.Name, Imports: s.Imports}, s.Name).inst
	v := s.view()

	// ---- definitions ----
	if !v.hasMem && g.pct(65, "def-mem") {
		min := uint32(pick(g, []int{0, 1, 1, 1, 2}, "mem-min"))
		max := noMax
		if g.pct(60, "mem-has-max") {
			max = int64(min) + int64(g.n(0, 2, "mem-max-extra"))
		}
		if min > g.m.limit {
			min = g.m.limit
		}
		s.Mem = &MemSpec{Min: min, Max: max}
		if max >= 0 && g.pct(20, "shared-memory") {
			s.Mem.Shared = true
		}
	}
	for i, n := 0, g.n(0, 2, "n-tables"); i < n; i++ {
		t := TableSpec{Elem: wasmenc.FuncRef, Min: uint32(g.n(0, 3, "table-min")), Max: noMax}
		if g.pct(35, "externref-table") {
			t.Elem = wasmenc.ExternRef
		}
		if g.pct(60, "table-has-max") {
			t.Max = int64(t.Min) + int64(g.n(0, 2, "table-max-extra"))
		}
		s.Tables = append(s.Tables, t)
	}
	nFuncs := g.n(0, 3, "n-funcs")
	if k == 0 && nFuncs == 0 {
		nFuncs = 1
	}
	nF := v.nIF + nFuncs

	// imported globals usable in constant expressions, per value type
	immByVT := map[byte][]int{}
	mutByVT := map[byte][]int{}
	for i := 0; i < v.nIG; i++ {
		if v.gt[i].mut {
			mutByVT[v.gt[i].vt] = append(mutByVT[v.gt[i].vt], i)
		} else {
			immByVT[v.gt[i].vt] = append(immByVT[v.gt[i].vt], i)
		}
	}
	for i, n := 0, g.n(0, 4, "n-globals"); i < n; i++ {
		gs := GlobalSpec{VT: pick(g, allVT, "global-vt"), Mut: g.pct(60, "global-mut")}
		switch {
		case len(mutByVT[gs.VT]) > 0 && g.pct(6, "init-from-mutable"):
			gs.Init = Expr{K: "gget", V: uint64(pick(g, mutByVT[gs.VT], "init-mutable-global"))}
		case len(immByVT[gs.VT]) > 0 && g.pct(55, "init-from-import"):
			gs.Init = Expr{K: "gget", V: uint64(pick(g, immByVT[gs.VT], "init-global"))}
		case gs.VT == wasmenc.FuncRef:
			if nF > 0 && g.pct(70, "init-ref-func") {
				gs.Init = Expr{K: "func", V: uint64(g.n(0, nF-1, "init-func"))}
			} else {
				gs.Init = Expr{K: "null"}
			}
		case gs.VT == wasmenc.ExternRef:
			gs.Init = Expr{K: "null"}
		default:
			gs.Init = constExpr(gs.VT, g.value(gs.VT, "init-lo"), g.value(gs.VT, "init-hi"))
		}
		s.Globals = append(s.Globals, gs)
	}
	v = s.view()
	// sizes of tables and memory as they will be when the segments are applied
	tsize := func(ti int) int {
		if ti < v.nIT {
			if cur == nil {
				return 0
			}
			return cur.tables[ti].size()
		}
		return int(s.Tables[ti-v.nIT].Min)
	}
	memBytes := uint64(0)
	memMax := uint32(0)
	if v.impMem && cur != nil {
		memBytes, memMax = cur.mem.bytes(), cur.mem.effMax
	} else if s.Mem != nil {
		memBytes, memMax = uint64(s.Mem.Min)*pageSize, g.m.effMax(s.Mem.Max)
	}
	i32Val := func(gi int) (uint32, bool) { // current value of imported immutable i32 global gi
		if cur == nil {
			return 0, false
		}
		return uint32(cur.globals[gi].lo), true
	}

	// ---- ops available to functions and to the start function ----
	var mutInt []int
	for i, t := range v.gt {
		if t.mut && (t.vt == wasmenc.I32 || t.vt == wasmenc.I64) {
			mutInt = append(mutInt, i)
		}
	}
	var mutFuncref []int
	for i, t := range v.gt {
		if t.mut && t.vt == wasmenc.FuncRef {
			mutFuncref = append(mutFuncref, i)
		}
	}
	var ftables []int
	for i, e := range v.telem {
		if e == wasmenc.FuncRef {
			ftables = append(ftables, i)
		}
	}
	addr := func(label string) int64 {
		opts := []int64{0, 1, 5, pageSize - 1, pageSize}
		if memBytes > 0 {
			opts = append(opts, int64(memBytes)-1, int64(memBytes))
		}
		return pick(g, opts, label)
	}
	genOp := func(label string, callees []int) (Op, bool) {
		var kinds []string
		if len(callees) > 0 {
			kinds = append(kinds, "call", "call")
		}
		if len(mutInt) > 0 {
			kinds = append(kinds, "ginc", "ginc", "gsetc")
		}
		if v.hasMem {
			kinds = append(kinds, "minc", "minc", "mgrow")
		}
		if len(ftables) > 0 {
			kinds = append(kinds, "tset")
		}
		if len(mutFuncref) > 0 {
			kinds = append(kinds, "gsetf")
		}
		if len(kinds) == 0 {
			return Op{}, false
		}
		switch kk := pick(g, kinds, label); kk {
		case "call":
			return Op{K: kk, A: int64(pick(g, callees, label+"-callee"))}, true
		case "gsetf":
			return Op{K: kk, A: int64(pick(g, mutFuncref, label+"-global")), C: int64(g.n(0, nF, label+"-func"))}, true
		case "ginc":
			return Op{K: kk, A: int64(pick(g, mutInt, label+"-global"))}, true
		case "gsetc":
			return Op{K: kk, A: int64(pick(g, mutInt, label+"-global")), B: int64(g.n(-2, 100, label+"-value"))}, true
		case "minc":
			return Op{K: kk, A: addr(label + "-addr")}, true
		case "mgrow":
			return Op{K: kk}, true
		default:
			ti := pick(g, ftables, label+"-table")
			return Op{K: kk, A: int64(ti), B: int64(g.n(0, tsize(ti)+0, label+"-slot")), C: int64(g.n(0, nF, label+"-func"))}, true
		}
	}
	var intGlobals, ownMutInt []int
	for i, t := range v.gt {
		if t.vt == wasmenc.I32 || t.vt == wasmenc.I64 {
			intGlobals = append(intGlobals, i)
			if t.mut && i >= v.nIG {
				ownMutInt = append(ownMutInt, i)
			}
		}
	}
	fsig := append([]int{}, v.fsig[:v.nIF]...) // signatures of the functions callable so far
	resultClass := func(sg int) int {          // signatures with equal result types may tail-call each other
		if sg == 1 {
			return 0
		}
		return sg
	}
	for i := 0; i < nFuncs; i++ {
		f := FuncSpec{Sig: pick(g, []int{0, 0, 0, 1, 1, 1, 2, 3}, "func-sig"), ID: int64(k+1)*100 + int64(i) + 1}
		// callees keep every call chain finite: see FuncSpec
		var callees, tails []int
		for ci, cs := range fsig {
			if f.Sig != 0 || cs == 0 {
				callees = append(callees, ci)
				if resultClass(cs) == resultClass(f.Sig) {
					tails = append(tails, ci)
				}
			}
		}
		for j, n := 0, g.n(0, 2, "n-ops"); j < n; j++ {
			if o, ok := genOp("func-op", callees); ok {
				f.Ops = append(f.Ops, o)
			}
		}
		switch {
		case g.pct(4, "func-traps"):
			f.Ops = append(f.Ops, Op{K: "trap"})
		case f.Sig == 1 && len(ftables) > 0 && g.pct(70, "tail-indirect"):
			ti := pick(g, ftables, "tail-table")
			f.Tail = &Op{K: "ricall", A: int64(ti), B: int64(g.n(0, tsize(ti), "tail-slot")), C: 0}
		case len(tails) > 0 && g.pct(25, "tail-direct"):
			f.Tail = &Op{K: "rcall", A: int64(pick(g, tails, "tail-callee"))}
		}
		if f.Tail == nil && len(intGlobals) > 0 && g.pct(40, "result-shows-global") {
			// prefer the module's own mutable globals: what a failed instance did to them stays visible
			f.AddG = pick(g, intGlobals, "shown-global") + 1
			if len(ownMutInt) > 0 && g.pct(70, "shown-global-own") {
				f.AddG = pick(g, ownMutInt, "shown-own-global") + 1
			}
		}
		s.Funcs = append(s.Funcs, f)
		fsig = append(fsig, f.Sig)
	}

	wrongType := func(elem byte) int { // an immutable imported global of another type than elem, or -1
		for i := 0; i < v.nIG; i++ {
			if !v.gt[i].mut && v.gt[i].vt != elem {
				return i
			}
		}
		return -1
	}
	// ---- active element segments (always in bounds: see the excluded classes in check.json) ----
	if len(v.telem) > 0 {
		for i, n := 0, g.n(0, 2, "n-elems"); i < n; i++ {
			ti := g.n(0, len(v.telem)-1, "elem-table")
			size := tsize(ti)
			l := g.n(1, 3, "elem-len")
			if size < l {
				continue
			}
			off := pick(g, []int{0, size - l, g.n(0, size-l, "elem-off")}, "elem-off-choice")
			e := ElemSpec{Table: ti, Off: Expr{K: "i32", V: uint64(off)}}
			for _, gi := range immByVT[wasmenc.I32] {
				if val, ok := i32Val(gi); ok && int(val) <= size-l && val < 1<<20 && g.pct(50, "elem-off-global") {
					e.Off = Expr{K: "gget", V: uint64(gi)}
					break
				}
			}
			for j := 0; j < l; j++ {
				it := Expr{K: "null"}
				if v.telem[ti] == wasmenc.FuncRef {
					switch {
					case len(mutByVT[wasmenc.FuncRef]) > 0 && cur != nil && g.pct(15, "elem-item-mutable-global"):
						// deliberately invalid: the item reads a MUTABLE imported global
						gi := pick(g, mutByVT[wasmenc.FuncRef], "elem-item-mutable-global-idx")
						it = Expr{K: "gget", V: uint64(gi)}
						g.pending = cur.globals[gi]
					case wrongType(wasmenc.FuncRef) >= 0 && g.pct(6, "elem-item-wrong-type"):
						it = Expr{K: "gget", V: uint64(wrongType(wasmenc.FuncRef))}
					case len(immByVT[wasmenc.FuncRef]) > 0 && g.pct(25, "elem-item-global"):
						it = Expr{K: "gget", V: uint64(pick(g, immByVT[wasmenc.FuncRef], "elem-item-global-idx"))}
					case nF > 0 && g.pct(80, "elem-item-func"):
						it = Expr{K: "func", V: uint64(g.n(0, nF-1, "elem-item-func-idx"))}
					}
				} else if len(mutByVT[wasmenc.ExternRef]) > 0 && cur != nil && g.pct(15, "elem-item-mutable-extern-global") {
					gi := pick(g, mutByVT[wasmenc.ExternRef], "elem-item-mutable-global-idx")
					it = Expr{K: "gget", V: uint64(gi)}
					g.pending = cur.globals[gi]
				} else if wrongType(wasmenc.ExternRef) >= 0 && g.pct(6, "elem-item-wrong-type") {
					it = Expr{K: "gget", V: uint64(wrongType(wasmenc.ExternRef))}
				} else if len(immByVT[wasmenc.ExternRef]) > 0 && g.pct(30, "elem-item-extern-global") {
					it = Expr{K: "gget", V: uint64(pick(g, immByVT[wasmenc.ExternRef], "elem-item-global-idx"))}
				}
				e.Items = append(e.Items, it)
			}
			s.Elems = append(s.Elems, e)
		}
	}

	// ---- active data segments ----
	if v.hasMem && (cur != nil || !v.impMem) {
		inb := func(label string) DataSpec {
			l := g.n(0, 4, label+"-len")
			if uint64(l) > memBytes {
				l = int(memBytes)
			}
			d := DataSpec{Bytes: make([]byte, l)}
			for j := range d.Bytes {
				d.Bytes[j] = byte(g.n(1, 255, label+"-byte"))
			}
			opts := []uint64{0, memBytes - uint64(l)}
			if memBytes >= pageSize+2 && l >= 2 {
				opts = append(opts, pageSize-1)
			}
			if memBytes > 64 {
				opts = append(opts, uint64(g.n(0, 60, label+"-small")))
			}
			d.Off = Expr{K: "i32", V: pick(g, opts, label+"-off")}
			for _, gi := range immByVT[wasmenc.I32] {
				if val, ok := i32Val(gi); ok && uint64(val)+uint64(l) <= memBytes && g.pct(50, label+"-off-global") {
					d.Off = Expr{K: "gget", V: uint64(gi)}
					break
				}
			}
			return d
		}
		for i, n := 0, g.n(0, 2, "n-datas"); i < n; i++ {
			s.Datas = append(s.Datas, inb("data"))
		}
		if g.pct(16, "failing-data") {
			if len(s.Datas) == 0 {
				s.Datas = append(s.Datas, inb("data-before"))
			}
			l := g.n(0, 3, "oob-len")
			d := DataSpec{Bytes: make([]byte, l)}
			for j := range d.Bytes {
				d.Bytes[j] = byte(g.n(1, 255, "oob-byte"))
			}
			opts := []uint64{memBytes + 1, 0xffffffff, 0x7fffffff}
			if l > 0 {
				opts = append(opts, memBytes, memBytes-uint64(l)+1, memBytes-uint64(l)+1)
			}
			d.Off = Expr{K: "i32", V: pick(g, opts, "oob-off") & 0xffffffff}
			s.Datas = append(s.Datas, d)
			if g.pct(50, "data-after") {
				s.Datas = append(s.Datas, inb("data-after"))
			}
		}
	}
	_ = memMax

	// ---- start function ----
	if g.pct(25, "has-start") {
		st := &StartSpec{Trap: g.pct(50, "start-traps")}
		for j, n := 0, g.n(1, 3, "n-start-ops"); j < n; j++ {
			all := make([]int, nF)
			for ci := range all {
				all[ci] = ci
			}
			if o, ok := genOp("start-op", all); ok {
				st.Ops = append(st.Ops, o)
			}
		}
		s.Start = st
	}
	// What a start function did to the module's OWN globals before it trapped must stay visible
	// through the functions the module left in an imported table: start writes own global G, an
	// own function shows G in its result, an element segment puts it into an imported table.
	if s.Start != nil && len(ownMutInt) > 0 && len(s.Funcs) > 0 && g.pct(60, "start-writes-shown-global") {
		gi := pick(g, ownMutInt, "start-own-global")
		s.Start.Ops = append([]Op{{K: "ginc", A: int64(gi)}}, s.Start.Ops...)
		var plain []int
		for i, f := range s.Funcs {
			if f.Tail == nil {
				plain = append(plain, i)
			}
		}
		if len(plain) > 0 {
			fi := pick(g, plain, "shown-global-function")
			s.Funcs[fi].AddG = gi + 1
			var imported []int
			for _, ti := range ftables {
				if ti < v.nIT && tsize(ti) > 0 {
					imported = append(imported, ti)
				}
			}
			if len(imported) > 0 && len(s.Elems) < 3 {
				ti := pick(g, imported, "shown-global-table")
				s.Elems = append(s.Elems, ElemSpec{Table: ti, Off: Expr{K: "i32", V: uint64(g.n(0, tsize(ti)-1, "shown-global-slot"))},
					Items: []Expr{{K: "func", V: uint64(v.nIF + fi)}}})
			}
		}
	}

	// ---- excluded classes (open findings; see check.json and the dedicated tests) ----
	// findDangle: a module with a start function never stores a function reference it creates (to
	// an own or to an imported function) into an imported funcref global: if the start function
	// traps, nothing keeps the instance, hence the reference, alive.
	if s.Start != nil {
		fix := func(ops []Op) {
			for i := range ops {
				if o := &ops[i]; o.K == "gsetf" && int(o.A) < v.nIG && o.C != 0 {
					o.C = 0 // null
					evid.Label("excluded:new-reference-into-imported-funcref-global-of-module-with-start", 1)
				}
			}
		}
		fix(s.Start.Ops)
		for i := range s.Funcs {
			fix(s.Funcs[i].Ops)
		}
	}
	for iter := 0; iter < 10; iter++ {
		p := g.m.plan(s, s.Name)
		if !p.specCompat {
			break
		}
		switch {
		case p.elemOOB >= 0: // cannot happen by construction; keep the guarantee explicit
			s.Elems = nil
			evid.Label("excluded:oob-element-segment", 1)
			continue
		case len(p.nullOver) > 0:
			// a null item may only land on a slot that is null already
			o := p.nullOver[0]
			if nF > 0 {
				s.Elems[o[0]].Items[o[1]] = Expr{K: "func", V: uint64(g.n(0, nF-1, "replace-null-item"))}
			} else {
				s.Elems = append(s.Elems[:o[0]:o[0]], s.Elems[o[0]+1:]...)
			}
			evid.Label("excluded:null-element-item-over-non-null-slot", 1)
			continue
		}
		break
	}
	return s
}

// instStep appends an instantiation step and advances the generator's model with the outcome
// wazero is expected to produce by its documented rules.
func (g *gen) instStep(specIdx int, as string, bytesPct int) {
	st := Step{Op: "inst", Spec: specIdx, As: as, Bytes: g.pct(bytesPct, "instantiate-from-bytes")}
	// ImportResolver route: designate, for some imported module names, another live instance of
	// the same module specification than the one registered under that name
	spec := g.c.Specs[specIdx]
	if g.pct(45, "import-resolver") {
		res := map[string]string{}
		seen := map[string]bool{}
		for _, im := range spec.Imports {
			reg, ok := g.m.live[im.Mod]
			if seen[im.Mod] || !ok {
				continue
			}
			seen[im.Mod] = true
			var sib []string
			for _, n := range g.m.order {
				if o := g.m.live[n]; o != reg && o.spec == reg.spec {
					sib = append(sib, n)
				}
			}
			if len(sib) > 0 && g.pct(70, "shadow-registered-name") {
				res[im.Mod] = pick(g, sib, "designated-instance")
			}
		}
		if len(res) > 0 {
			g.m.resolve = res
			if p := g.m.plan(spec, as); p.elemOOB < 0 && len(p.nullOver) == 0 {
				st.Resolve = res
			}
			g.m.resolve = nil
		}
	}
	g.c.Script = append(g.c.Script, st)
	g.m.resolve = st.Resolve
	p := g.m.plan(g.c.Specs[specIdx], as)
	g.m.resolve = nil
	if p.compileReject || !p.wzCompat || p.inst == nil || p.elemOOB >= 0 || len(p.nullOver) > 0 {
		g.m.reject()
		return
	}
	if g.m.run(p) == "ok" {
		return
	}
	// The failed instance may have left its functions in imported tables: they must stay callable
	// however much later, also after the collector has run and other modules were compiled.
	in := p.inst
	for ti := 0; ti < in.v.nIT; ti++ {
		t := in.tables[ti]
		for slot, r := range t.fn {
			if r != nil && r.f.def == in {
				g.zombies = append(g.zombies, zombie{t, slot, r.f.sig})
			}
		}
	}
	if g.pct(35, "gc-after-failure") {
		g.c.Script = append(g.c.Script, Step{Op: "gc"})
	}
}

// chainCall emits a call chain that crosses instances before it tail-calls: instance X is
// entered through the API and calls a function g (usually imported from another instance Y)
// that ends in return_call_indirect through a table; some instance W (preferably X itself)
// first puts one of its own side-effecting functions into that slot. The callee must run on
// W's state although the frame that issued the tail call belongs to Y and the call entered in X.
func (g *gen) chainCall() bool {
	type cand struct {
		x *mInst
		i int
		f *mFunc
	}
	var far, near []cand
	for _, n := range g.m.order {
		x := g.m.live[n]
		for i, f := range x.funcs {
			if f.tail == nil || f.tail.K != "ricall" || int(f.tail.B) >= len(f.def.tables[f.tail.A].fn) {
				continue
			}
			if f.def != x {
				far = append(far, cand{x, i, f})
			} else {
				near = append(near, cand{x, i, f})
			}
		}
	}
	var c cand
	switch {
	case len(far) > 0 && (len(near) == 0 || g.pct(85, "chain-crosses-instances")):
		c = pick(g, far, "chain-entry")
	case len(near) > 0:
		c = pick(g, near, "chain-entry-near")
	default:
		return false
	}
	t := c.f.def.tables[c.f.tail.A]
	slot := uint64(c.f.tail.B)
	type wr struct {
		w      *mInst
		iw, fi int
	}
	var own, ownEff, xs []wr
	for _, n := range g.m.order {
		w := g.m.live[n]
		iw := indexOf(w, t)
		if iw < 0 {
			continue
		}
		for fi := w.v.nIF; fi < len(w.funcs); fi++ {
			if w.funcs[fi].sig != 0 {
				continue
			}
			e := wr{w, iw, fi}
			own = append(own, e)
			if len(w.funcs[fi].ops) > 0 {
				ownEff = append(ownEff, e)
				if w == c.x {
					xs = append(xs, e)
				}
			}
		}
	}
	if len(own) > 0 {
		e := pick(g, own, "chain-target")
		if len(ownEff) > 0 && g.pct(85, "chain-target-effectful") {
			e = pick(g, ownEff, "chain-target-eff")
		}
		if len(xs) > 0 && g.pct(60, "chain-target-in-entry-instance") {
			e = pick(g, xs, "chain-target-entry")
		}
		set := Step{Op: "acc", Inst: e.w.name, Acc: "tsetf", Idx: e.iw, Args: []uint64{slot, uint64(e.fi + 1)}}
		g.c.Script = append(g.c.Script, set)
		g.m.eval(set)
	}
	call := Step{Op: "acc", Inst: c.x.name, Acc: pick(g, []string{"call", "call", "rcall"}, "chain-call-form"), Idx: c.i}
	g.c.Script = append(g.c.Script, call)
	g.m.eval(call)
	return true
}

// closeStep closes an instance nobody depends on (see model.closable), preferably one that
// imports a memory, table or global other live instances keep using.
func (g *gen) closeStep() bool {
	var ok, sharing []string
	for _, n := range g.m.order {
		x := g.m.live[n]
		if len(g.m.order) < 2 || !g.m.closable(x) {
			continue
		}
		ok = append(ok, n)
		if x.v.impMem || x.v.nIT > 0 || x.v.nIG > 0 {
			sharing = append(sharing, n)
		}
	}
	if len(ok) == 0 {
		return false
	}
	n := pick(g, ok, "close")
	if len(sharing) > 0 && g.pct(85, "close-a-sharing-importer") {
		n = pick(g, sharing, "close-sharing")
	}
	g.c.Script = append(g.c.Script, Step{Op: "close", Inst: n})
	g.m.close(n)
	if g.hotBy == n {
		g.hot = nil
	}
	return true
}

// changeGlobal writes the mutable funcref/externref global gl through some live instance.
func (g *gen) changeGlobal(gl *mGlobal) {
	for _, n := range g.m.order {
		in := g.m.live[n]
		i := indexOf(in, gl)
		if i < 0 || !in.v.gt[i].mut {
			continue
		}
		st := Step{Op: "acc", Inst: n, Idx: i}
		if gl.vt == wasmenc.FuncRef {
			if len(in.funcs) == 0 {
				continue
			}
			st.Acc = "gsetf"
			k := g.n(1, len(in.funcs), "change-funcref")
			if in.ftab[k] == gl.fn && len(in.funcs) > 1 {
				k = k%len(in.funcs) + 1
			}
			st.Args = []uint64{uint64(k)}
		} else {
			st.Acc = "gset"
			st.Args = []uint64{gl.lo + 1 + uint64(g.n(0, 5, "change-externref"))}
		}
		g.c.Script = append(g.c.Script, st)
		g.m.eval(st)
		return
	}
}

type zombie struct {
	t    *mTable
	slot int
	sig  int
}

// zombieCall calls a slot that a failed instance filled, through any live instance seeing the table.
func (g *gen) zombieCall() bool {
	z := pick(g, g.zombies, "zombie")
	var via []*mInst
	for _, n := range g.m.order {
		if x := g.m.live[n]; indexOf(x, z.t) >= 0 {
			via = append(via, x)
		}
	}
	if len(via) == 0 {
		return false
	}
	in := pick(g, via, "zombie-caller")
	st := Step{Op: "acc", Inst: in.name, Acc: pick(g, []string{"tcall", "tcall", "rtcall"}, "zombie-call-form"), Idx: indexOf(in, z.t), Sig: z.sig, Args: []uint64{uint64(z.slot)}}
	g.c.Script = append(g.c.Script, st)
	g.m.eval(st)
	return true
}

// indexOf finds the index at which instance in sees the object obj (-1 if it does not).
func indexOf(in *mInst, obj any) int {
	switch o := obj.(type) {
	case *mGlobal:
		for i, x := range in.globals {
			if x == o {
				return i
			}
		}
	case *mTable:
		for i, x := range in.tables {
			if x == o {
				return i
			}
		}
	case *mMem:
		if in.mem == o {
			return 0
		}
	}
	return -1
}

func (g *gen) slot(t *mTable, label string) uint64 {
	size := t.size()
	opts := []int{0, size, size - 1, size + 1}
	if size > 1 {
		opts = append(opts, g.n(0, size-1, label+"-in"), g.n(0, size-1, label+"-in2"), g.n(0, size-1, label+"-in3"))
	}
	s := pick(g, opts, label)
	if s < 0 {
		s = 0
	}
	return uint64(s)
}

func (g *gen) memAddr(mm *mMem, n int, label string) uint64 {
	b := mm.bytes()
	opts := []uint64{0, 1, 5, pageSize - 1, pageSize, pageSize - 3}
	if b > 0 {
		opts = append(opts, b-1, b-uint64(n), b-uint64(n)+1, b)
	}
	keys := make([]uint64, 0, len(mm.b))
	for a := range mm.b {
		keys = append(keys, uint64(a))
	}
	sort.Slice(keys, func(i, j int) bool { return keys[i] < keys[j] }) // map order must not influence the draw
	if len(keys) > 8 {
		keys = keys[:8]
	}
	opts = append(opts, keys...)
	return pick(g, opts, label) & 0xffffffff
}

// argsFor draws the arguments of accessor/host op acc on instance in.
func (g *gen) argsFor(in *mInst, st *Step) {
	switch st.Acc {
	case "gset", "hgset":
		vt := in.globals[st.Idx].vt
		st.Args = []uint64{g.value(vt, "gset-value")}
		if vt == wasmenc.V128 {
			st.Args = append(st.Args, g.value(vt, "gset-hi"))
		}
	case "gsetf":
		k := g.n(0, len(in.funcs), "funcref-k")
		if g.pct(3, "funcref-k-oob") {
			k = len(in.ftab) + g.n(0, 1, "funcref-k-oob-by")
		}
		st.Args = []uint64{uint64(k)}
	case "tnull", "tget", "htl", "tcall", "rtcall":
		t := in.tables[st.Idx]
		sl := g.slot(t, "slot")
		st.Args = []uint64{sl}
		if g.hotSlot >= 0 && g.hot == any(t) && g.pct(60, "slot-just-written") {
			sl = uint64(g.hotSlot)
			st.Args = []uint64{sl}
		}
		if st.Acc == "htl" || st.Acc == "tcall" || st.Acc == "rtcall" {
			if t.elem == wasmenc.FuncRef && sl < uint64(len(t.fn)) && t.fn[sl] != nil && g.pct(75, "matching-sig") {
				st.Sig = t.fn[sl].f.sig
			} else if st.Acc == "htl" {
				st.Sig = g.n(0, len(sigs)-1, "lookup-sig")
			}
		}
	case "tsetx":
		st.Args = []uint64{g.slot(in.tables[st.Idx], "slot"), g.value(wasmenc.ExternRef, "externref")}
	case "tsetf":
		st.Args = []uint64{g.slot(in.tables[st.Idx], "slot"), uint64(g.n(0, len(in.funcs), "funcref-k"))}
	case "tgrowx":
		st.Args = []uint64{uint64(pick(g, []int{0, 1, 1, 2}, "table-delta")), g.value(wasmenc.ExternRef, "externref")}
	case "tgrowf":
		st.Args = []uint64{uint64(pick(g, []int{0, 1, 1, 2}, "table-delta")), uint64(g.n(0, len(in.funcs), "funcref-k"))}
	case "load8", "hm8", "xcall":
		st.Args = []uint64{g.memAddr(in.mem, 1, "addr")}
	case "load32", "hm32":
		st.Args = []uint64{g.memAddr(in.mem, 4, "addr")}
	case "store8", "hmw8":
		st.Args = []uint64{g.memAddr(in.mem, 1, "addr"), uint64(g.n(0, 255, "byte"))}
	case "store32":
		st.Args = []uint64{g.memAddr(in.mem, 4, "addr"), g.value(wasmenc.I32, "word")}
	case "mgrow":
		st.Args = []uint64{uint64(pick(g, []int{0, 1, 1, 2, 3}, "mem-delta"))}
	case "gcall":
		if f := in.globals[st.Idx].fn; f != nil && g.pct(75, "matching-sig") {
			st.Sig = f.f.sig
		}
	}
	if st.Op == "host" && (st.Acc == "hm8" || st.Acc == "hm32" || st.Acc == "hmw8" || st.Acc == "hmsize") {
		st.Sig = g.n(0, 1, "through-exported-memory")
	}
}

// hostOps lists the host operations available on the instance.
func hostOps(in *mInst) []accInfo {
	var out []accInfo
	for i, t := range in.v.gt {
		out = append(out, accInfo{"higet", i, 0})
		if !in.spec.exported(kGlobal, i) {
			continue
		}
		out = append(out, accInfo{"hgget", i, 0})
		if t.mut && t.vt != wasmenc.FuncRef && t.vt != wasmenc.V128 {
			out = append(out, accInfo{"hgset", i, 0}, accInfo{"hgset", i, 0})
		}
	}
	for i, e := range in.v.telem {
		if e == wasmenc.FuncRef {
			out = append(out, accInfo{"htl", i, 0})
		}
	}
	if in.mem != nil {
		out = append(out, accInfo{"hm8", 0, 0}, accInfo{"hm32", 0, 0}, accInfo{"hmw8", 0, 0}, accInfo{"hmw8", 0, 0}, accInfo{"hmsize", 0, 0})
	}
	for i := range in.funcs {
		if in.spec.exported(kFunc, i) {
			out = append(out, accInfo{"hfcall", i, 0})
		}
	}
	return out
}

var writers = map[string]bool{"gset": true, "gsetf": true, "hgset": true, "tsetx": true, "tsetf": true, "tgrowx": true, "tgrowf": true,
	"store8": true, "store32": true, "hmw8": true, "mgrow": true}

// accStep draws an accessor or host step on a live instance.
func (g *gen) accStep() {
	if len(g.m.order) == 0 {
		return
	}
	var in *mInst
	var pool []accInfo
	op := "acc"
	// follow a write with a read of the same object through another instance
	if g.hot != nil && g.pct(45, "follow-hot") {
		var others []*mInst
		for _, n := range g.m.order {
			if x := g.m.live[n]; n != g.hotBy && indexOf(x, g.hot) >= 0 {
				others = append(others, x)
			}
		}
		if len(others) > 0 {
			in = pick(g, others, "hot-reader")
			idx := indexOf(in, g.hot)
			host := g.pct(35, "hot-through-host")
			for _, a := range in.spec.accessors() {
				if a.Acc == "gxcall" {
					if _, isG := g.hot.(*mGlobal); isG && a.Sig == idx && !host {
						pool = append(pool, a)
					}
					continue
				}
				if a.Idx != idx || writers[a.Acc] || host {
					continue
				}
				switch g.hot.(type) {
				case *mGlobal:
					if a.Acc[0] == 'g' {
						pool = append(pool, a)
					}
				case *mTable:
					if a.Acc[0] == 't' || a.Acc == "rtcall" {
						pool = append(pool, a)
					}
				case *mMem:
					if a.Acc == "load8" || a.Acc == "load32" || a.Acc == "msize" {
						pool = append(pool, a)
					}
				}
			}
			if host {
				op = "host"
				for _, a := range hostOps(in) {
					if a.Idx != idx || writers[a.Acc] || a.Acc == "hfcall" {
						continue
					}
					switch g.hot.(type) {
					case *mGlobal:
						if a.Acc == "hgget" || a.Acc == "higet" {
							pool = append(pool, a)
						}
					case *mTable:
						if a.Acc == "htl" {
							pool = append(pool, a)
						}
					case *mMem:
						if a.Acc == "hm8" || a.Acc == "hm32" || a.Acc == "hmsize" {
							pool = append(pool, a)
						}
					}
				}
			}
		}
	}
	if len(pool) == 0 {
		in = g.m.live[pick(g, g.m.order, "instance")]
		if g.pct(28, "host-op") {
			op, pool = "host", hostOps(in)
		} else {
			op, pool = "acc", in.spec.accessors()
		}
		if len(pool) == 0 {
			return
		}
	}
	a := pick(g, pool, "accessor")
	st := Step{Op: op, Inst: in.name, Acc: a.Acc, Idx: a.Idx, Sig: a.Sig}
	g.argsFor(in, &st)
	g.c.Script = append(g.c.Script, st)
	res := g.m.eval(st)
	if writers[st.Acc] && res.trap == "" && !res.skip {
		switch {
		case st.Acc[0] == 'g' || st.Acc == "hgset":
			g.hot = in.globals[st.Idx]
		case st.Acc[0] == 't':
			g.hot = in.tables[st.Idx]
		default:
			g.hot = in.mem
		}
		g.hotBy = in.name
		g.hotSlot = -1
		if st.Acc == "tsetf" {
			g.hotSlot = int(arg(st.Args, 0))
		}
	}
}

// siblingCall emits the scenario "instance A puts one of its OWN functions (preferably one
// with side effects on A's state) into a funcref table it shares with instance B; B calls the
// slot" — through call_indirect or return_call_indirect. Pairs of instances of the same module
// specification (same CompiledModule unless instantiated from bytes) are preferred: the callee
// must run on A's globals/memory whoever the caller is.
func (g *gen) siblingCall() bool {
	type pair struct {
		a, b   *mInst
		ia, ib int
	}
	var same, other []pair
	for _, na := range g.m.order {
		a := g.m.live[na]
		if len(a.funcs) == a.v.nIF {
			continue
		}
		for ia, t := range a.tables {
			if t.elem != wasmenc.FuncRef || len(t.fn) == 0 {
				continue
			}
			for _, nb := range g.m.order {
				b := g.m.live[nb]
				ib := indexOf(b, t)
				if b == a || ib < 0 {
					continue
				}
				if a.spec == b.spec {
					same = append(same, pair{a, b, ia, ib})
				} else {
					other = append(other, pair{a, b, ia, ib})
				}
			}
		}
	}
	var p pair
	switch {
	case len(same) > 0 && (len(other) == 0 || g.pct(75, "sibling-same-spec")):
		p = pick(g, same, "sibling-pair")
	case len(other) > 0:
		p = pick(g, other, "other-pair")
	default:
		return false
	}
	var own, eff []int // own functions, and those with side effects
	for i := p.a.v.nIF; i < len(p.a.funcs); i++ {
		own = append(own, i)
		if len(p.a.funcs[i].ops) > 0 {
			eff = append(eff, i)
		}
	}
	fi := pick(g, own, "sibling-function")
	if len(eff) > 0 && g.pct(80, "sibling-effectful") {
		fi = pick(g, eff, "sibling-effectful-function")
	}
	slot := uint64(g.n(0, len(p.a.tables[p.ia].fn)-1, "sibling-slot"))
	set := Step{Op: "acc", Inst: p.a.name, Acc: "tsetf", Idx: p.ia, Args: []uint64{slot, uint64(fi + 1)}}
	call := Step{Op: "acc", Inst: p.b.name, Acc: pick(g, []string{"tcall", "rtcall", "rtcall"}, "sibling-call-form"), Idx: p.ib, Sig: p.a.funcs[fi].sig, Args: []uint64{slot}}
	for _, st := range []Step{set, call} {
		g.c.Script = append(g.c.Script, st)
		g.m.eval(st)
	}
	g.hot, g.hotBy, g.hotSlot = p.a.tables[p.ia], p.a.name, int(slot)
	return true
}

func genCase(t *rapid.T) *Case {
	g := &gen{t: t, c: &Case{}, hotSlot: -1}
	if g.pct(15, "small-memory-limit") {
		g.c.Limit = 3
	}
	g.m = newModel(g.c.Limit)
	g.maxMods = g.n(2, 4, "n-modules")
	steps := g.maxMods + 2 + 5*g.n(0, 4, "n-steps-coarse") + g.n(0, 4, "n-steps-fine") // 4..30, not biased to short scripts
	for i := 0; i < steps; i++ {
		left := steps - i
		need := 2 - len(g.c.Specs)
		newMod := len(g.c.Specs) == 0 || (need > 0 && left <= need) ||
			(len(g.c.Specs) < g.maxMods && g.pct(22, "new-module"))
		switch {
		case newMod:
			k := len(g.c.Specs)
			g.c.Specs = append(g.c.Specs, g.genSpec(k))
			if g.pending != nil {
				g.changeGlobal(g.pending) // so that its current value differs from its initial one
				g.pending = nil
			}
			g.instStep(k, g.c.Specs[k].Name, 30)
		case g.pct(10, "re-instantiate"):
			k := g.n(0, len(g.c.Specs)-1, "re-spec")
			if g.pct(60, "re-spec-with-shared-table") {
				// siblings that import the same funcref table (and define functions) are the interesting ones
				var ks []int
				for i, sp := range g.c.Specs {
					for _, im := range sp.Imports {
						if im.Kind == kTable && im.Elem == wasmenc.FuncRef && len(sp.Funcs) > 0 {
							ks = append(ks, i)
							break
						}
					}
				}
				if len(ks) > 0 {
					k = pick(g, ks, "re-spec-sharing")
				}
			}
			as := g.c.Specs[k].Name
			if _, live := g.m.live[as]; live {
				g.fresh++
				as = fmt.Sprintf("%sr%d", as, g.fresh)
			}
			g.instStep(k, as, 10) // mostly the same CompiledModule instantiated again
		case g.pct(6, "close-importer") && g.closeStep():
		case g.pct(10, "sibling-call") && g.siblingCall():
		case g.pct(15, "chain-call") && g.chainCall():
		case len(g.zombies) > 0 && g.pct(15, "zombie-call") && g.zombieCall():
		case g.pct(3, "gc"):
			g.c.Script = append(g.c.Script, Step{Op: "gc"})
		default:
			g.accStep()
		}
	}
	return g.c
}
