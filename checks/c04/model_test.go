// C04 — reference model of the store: objects with identity and, per instance, index spaces
// that point at them. Written from the WebAssembly 2.0 specification (module instantiation,
// import matching) and wazero's documentation of WithMemoryLimitPages.
package c04

import (
	"fmt"
	"strconv"
	"strings"

	"verif/internal/wasmenc"
)

const (
	trapOOBMem        = "out of bounds memory access"
	trapTable         = "invalid table access"
	trapSig           = "indirect call type mismatch"
	trapUnreach       = "unreachable"
	noMax       int64 = -1
)

type mFunc struct {
	def     *mInst
	modName string // name-section module name of the defining module (= spec name)
	idx     int    // index in the defining module's function index space
	sig     int
	id      int64
	ops     []Op
	tail    *Op
	addG    int
}

// mRef is a non-null function reference. imp records that it was created from an index that
// is an import in the creating module (ref.func / element item / ftab entry of an imported
// function): semantically irrelevant, kept as a coverage label (it was the class of the fixed
// finding C04-lookup-imported-funcref).
type mRef struct {
	f   *mFunc
	imp bool
	by  *mInst // the instance that created the reference (ref.func, element item, its ftab)
}

type mGlobal struct {
	vt     byte
	mut    bool
	lo, hi uint64
	fn     *mRef
	lastW  string
}

type mTable struct {
	elem  byte
	min   uint32 // declared
	max   int64  // declared
	fn    []*mRef
	ext   []uint64
	lastW string
}

func (t *mTable) size() int {
	if t.elem == wasmenc.FuncRef {
		return len(t.fn)
	}
	return len(t.ext)
}

type mMem struct {
	shared bool
	effMax uint32
	pages  uint32
	b      map[uint32]byte
	lastW  string
}

func (m *mMem) bytes() uint64 { return uint64(m.pages) * pageSize }

type mInst struct {
	name    string
	spec    *ModSpec
	v       *view
	funcs   []*mFunc
	tables  []*mTable
	mem     *mMem
	globals []*mGlobal
	refs    []*mRef // one reference per function index, as this instance creates them
	ftab    []*mRef
}

type model struct {
	limit uint32
	live  map[string]*mInst
	order []string // live instance names in instantiation order

	// bookkeeping for the non-triviality rule and labels
	crossRead  bool
	okInst     int
	failAfter  bool
	sharedKind [4]bool
	lookupImp  int
	closed     int
	resolved   int
	ghosts     []*mInst          // instances whose instantiation failed after linking
	resolve    map[string]string // ImportResolver of the instantiation being planned: module name -> instance name
	depth      int
	entry      *mInst // instance entered through the API by the step being evaluated
	deepTail   int
	reexpUse   int

	allowExcluded bool
}

func newModel(limit uint32) *model {
	if limit == 0 {
		limit = 65536
	}
	return &model{limit: limit, live: map[string]*mInst{}}
}

func (m *model) effMax(declared int64) uint32 {
	if declared < 0 || declared > int64(m.limit) {
		return m.limit
	}
	return uint32(declared)
}

// ---- exports ----

type extern struct {
	kind byte
	f    *mFunc
	t    *mTable
	m    *mMem
	g    *mGlobal
}

func (in *mInst) export(name string) (extern, bool) {
	if name == "mem" {
		if in.mem != nil && in.spec.exported(kMem, 0) {
			return extern{kind: kMem, m: in.mem}, true
		}
		return extern{}, false
	}
	if len(name) < 2 {
		return extern{}, false
	}
	i, err := strconv.Atoi(name[1:])
	if err != nil || i < 0 {
		return extern{}, false
	}
	switch name[0] {
	case 'f':
		if i < len(in.funcs) && in.spec.exported(kFunc, i) {
			return extern{kind: kFunc, f: in.funcs[i]}, true
		}
	case 't':
		if i < len(in.tables) && in.spec.exported(kTable, i) {
			return extern{kind: kTable, t: in.tables[i]}, true
		}
	case 'g':
		if i < len(in.globals) && in.spec.exported(kGlobal, i) {
			return extern{kind: kGlobal, g: in.globals[i]}, true
		}
	}
	return extern{}, false
}

// reexportHazard reports whether the function export `name` of the instance is itself an
// import of that instance whose defining module has function imports of its own (coverage
// label; it was the class of the fixed finding C04-compiler-reexported-import-wrong-function).
func (in *mInst) reexportHazard(name string) bool {
	if len(name) < 2 || name[0] != 'f' {
		return false
	}
	i, err := strconv.Atoi(name[1:])
	return err == nil && i >= 0 && i < in.v.nIF && i < len(in.funcs) && in.funcs[i].def.v.nIF > 0
}

// ---- instantiation ----

// plan is the model's analysis of instantiating a spec in the current store.
type plan struct {
	compileReject bool     // the module reads a mutable global in a constant expression (spec-invalid)
	typeErr       bool     // ... or an element item reads a global of another type than the element type
	specCompat    bool     // every import matches its export by the specification's rules
	wzCompat      bool     // every import matches by the (stricter) rules wazero documents/implements
	why           string   // first incompatibility
	inst          *mInst   // candidate instance (allocated, globals initialised), nil if !specCompat
	elemOOB       int      // index of the first out-of-bounds active element segment, -1 if none
	elemShared    bool     // some user element segment writes to an imported table
	nullOver      [][2]int // (segment, item) of null items that land on a non-null funcref slot
	aliasMut      bool     // one mutable global object is imported under two indices
	reexpChain    bool     // imports a re-exported function import whose defining module has function imports
}

func (m *model) matchImport(im ImportSpec) (ex extern, spec, wz bool, why string) {
	src, ok := m.source(im.Mod)
	if !ok {
		return ex, false, false, fmt.Sprintf("module %q is not instantiated", im.Mod)
	}
	ex, ok = src.export(im.Name)
	if !ok {
		return ex, false, false, fmt.Sprintf("%s.%s is not exported", im.Mod, im.Name)
	}
	if ex.kind != im.Kind {
		return ex, false, false, fmt.Sprintf("%s.%s has extern kind %d, imported as %d", im.Mod, im.Name, ex.kind, im.Kind)
	}
	switch im.Kind {
	case kFunc:
		if ex.f.sig != im.Sig {
			return ex, false, false, fmt.Sprintf("function %s.%s has signature #%d, imported as #%d", im.Mod, im.Name, ex.f.sig, im.Sig)
		}
		return ex, true, true, ""
	case kGlobal:
		if ex.g.vt != im.VT || ex.g.mut != im.Mut {
			return ex, false, false, fmt.Sprintf("global %s.%s is (type 0x%x, mutable %v), imported as (0x%x, %v)", im.Mod, im.Name, ex.g.vt, ex.g.mut, im.VT, im.Mut)
		}
		return ex, true, true, ""
	case kTable:
		t := ex.t
		if t.elem != im.Elem {
			return ex, false, false, fmt.Sprintf("table %s.%s has element type 0x%x, imported as 0x%x", im.Mod, im.Name, t.elem, im.Elem)
		}
		maxOK := im.Max < 0 || (t.max >= 0 && t.max <= im.Max)
		if !maxOK {
			return ex, false, false, fmt.Sprintf("table %s.%s has max %d, import declares max %d", im.Mod, im.Name, t.max, im.Max)
		}
		if uint64(im.Min) > uint64(t.size()) {
			return ex, false, false, fmt.Sprintf("table %s.%s has size %d, import declares min %d", im.Mod, im.Name, t.size(), im.Min)
		}
		return ex, true, im.Min <= t.min, ""
	default:
		mm := ex.m
		if im.Min > mm.pages {
			return ex, false, false, fmt.Sprintf("memory %s.%s has %d pages, import declares min %d", im.Mod, im.Name, mm.pages, im.Min)
		}
		if m.effMax(im.Max) < mm.effMax {
			return ex, false, false, fmt.Sprintf("memory %s.%s has max %d, import declares max %d (limit %d)", im.Mod, im.Name, mm.effMax, im.Max, m.limit)
		}
		if (im.Shared && im.Max >= 0) != mm.shared {
			return ex, false, false, fmt.Sprintf("memory %s.%s is shared=%v, import declares shared=%v", im.Mod, im.Name, mm.shared, im.Shared)
		}
		return ex, true, true, ""
	}
}

func (m *model) evalExpr(in *mInst, e Expr) (lo, hi uint64, fn *mRef) {
	switch e.K {
	case "i32", "f32":
		return uint64(uint32(e.V)), 0, nil
	case "i64", "f64":
		return e.V, 0, nil
	case "v128":
		return e.V, e.H, nil
	case "null":
		return 0, 0, nil
	case "func":
		return 0, 0, in.refs[e.V]
	case "gget":
		g := in.globals[e.V]
		return g.lo, g.hi, g.fn
	}
	panic("bad expr")
}

// source is the instance that satisfies imports from module name mod: the one the
// ImportResolver of the current instantiation designates ("the first step in resolving
// imports"), else the instance registered under that name.
func (m *model) source(mod string) (*mInst, bool) {
	if d, ok := m.resolve[mod]; ok {
		if in, ok := m.live[d]; ok {
			return in, true
		}
	}
	in, ok := m.live[mod]
	return in, ok
}

// closable reports whether closing the instance is within what wazero documents: nothing the
// instance DEFINES (functions, memory, tables, globals) is visible to another live instance,
// directly or as a function reference in a table or global another instance can reach. What it
// merely imports stays alive and unchanged for the others.
func (m *model) closable(x *mInst) bool {
	mine := func(r *mRef) bool { return r != nil && (r.f.def == x || r.by == x) }
	others := append([]*mInst{}, m.ghosts...) // failed instances whose functions may live on in tables
	for _, n := range m.order {
		others = append(others, m.live[n])
	}
	for _, o := range others {
		if o == x {
			continue
		}
		for _, f := range o.funcs {
			if f.def == x {
				return false
			}
		}
		for _, t := range o.tables {
			if indexOf(x, t) >= x.v.nIT {
				return false // defined by x
			}
			for _, r := range t.fn {
				if mine(r) {
					return false
				}
			}
		}
		if o.mem != nil && o.mem == x.mem && !x.v.impMem {
			return false
		}
		for _, g := range o.globals {
			if i := indexOf(x, g); i >= x.v.nIG {
				return false
			}
			if mine(g.fn) {
				return false
			}
		}
		for _, r := range o.ftab {
			if mine(r) {
				return false
			}
		}
	}
	return true
}

// close removes a closed instance.
func (m *model) close(name string) {
	delete(m.live, name)
	for i, n := range m.order {
		if n == name {
			m.order = append(m.order[:i:i], m.order[i+1:]...)
			break
		}
	}
	m.closed++
}

// plan analyses the instantiation of spec under instance name `name` without changing the store.
func (m *model) plan(spec *ModSpec, name string) *plan {
	p := &plan{specCompat: true, wzCompat: true, elemOOB: -1}
	p.typeErr = spec.elemItemTypeError()
	p.compileReject = p.typeErr || spec.readsMutableGlobalInConstExpr()
	in := &mInst{name: name, spec: spec, v: spec.view()}
	for _, im := range spec.Imports {
		ex, sp, wz, why := m.matchImport(im)
		if !sp {
			p.specCompat, p.wzCompat = false, false
			if p.why == "" {
				p.why = why
			}
			continue
		}
		if !wz {
			p.wzCompat = false
		}
		switch im.Kind {
		case kFunc:
			if src, _ := m.source(im.Mod); src.reexportHazard(im.Name) {
				p.reexpChain = true
				m.reexpUse++
			}
			in.funcs = append(in.funcs, ex.f)
		case kTable:
			in.tables = append(in.tables, ex.t)
		case kMem:
			in.mem = ex.m
		case kGlobal:
			if ex.g.mut {
				for _, o := range in.globals {
					if o == ex.g {
						p.aliasMut = true
					}
				}
			}
			in.globals = append(in.globals, ex.g)
		}
	}
	if !p.specCompat {
		return p
	}
	for i, f := range spec.Funcs {
		in.funcs = append(in.funcs, &mFunc{def: in, modName: spec.Name, idx: in.v.nIF + i, sig: f.Sig, id: f.ID, ops: f.Ops, tail: f.Tail, addG: f.AddG})
	}
	for i, f := range in.funcs {
		in.refs = append(in.refs, &mRef{f: f, imp: i < in.v.nIF, by: in})
	}
	for _, t := range spec.Tables {
		mt := &mTable{elem: t.Elem, min: t.Min, max: t.Max}
		if t.Elem == wasmenc.FuncRef {
			mt.fn = make([]*mRef, t.Min)
		} else {
			mt.ext = make([]uint64, t.Min)
		}
		in.tables = append(in.tables, mt)
	}
	if spec.Mem != nil {
		in.mem = &mMem{shared: spec.Mem.Shared && spec.Mem.Max >= 0, effMax: m.effMax(spec.Mem.Max), pages: spec.Mem.Min, b: map[uint32]byte{}}
	}
	for _, g := range spec.Globals {
		mg := &mGlobal{vt: g.VT, mut: g.Mut}
		mg.lo, mg.hi, mg.fn = m.evalExpr(in, g.Init)
		in.globals = append(in.globals, mg)
	}
	in.ftab = make([]*mRef, len(in.funcs)+2)
	copy(in.ftab[1:], in.refs)
	p.inst = in
	// look ahead (without writing) for the classes this check excludes
	overlay := map[*mTable]map[int]bool{} // slots written by earlier segments of this module: non-null?
	for i, e := range spec.Elems {
		off, _, _ := m.evalExpr(in, e.Off)
		t := in.tables[e.Table]
		if uint64(uint32(off))+uint64(len(e.Items)) > uint64(t.size()) {
			if p.elemOOB < 0 {
				p.elemOOB = i
			}
			break
		}
		if e.Table < in.v.nIT {
			p.elemShared = true
		}
		if t.elem != wasmenc.FuncRef {
			continue
		}
		if overlay[t] == nil {
			overlay[t] = map[int]bool{}
		}
		for j, it := range e.Items {
			slot := int(uint32(off)) + j
			_, _, fn := m.evalExpr(in, it)
			nonNull, seen := overlay[t][slot]
			if !seen {
				nonNull = t.fn[slot] != nil
			}
			if it.K == "null" && nonNull {
				p.nullOver = append(p.nullOver, [2]int{i, j})
			}
			overlay[t][slot] = fn != nil
		}
	}
	return p
}

// leftInTables reports whether an imported table of the (failed) instance holds a reference to
// one of the instance's own functions.
func (in *mInst) leftInTables() bool {
	for i := 0; i < in.v.nIT && i < len(in.tables); i++ {
		for _, r := range in.tables[i].fn {
			if r != nil && r.f.def == in {
				return true
			}
		}
	}
	return false
}

// escapedToGlobal reports whether an imported funcref global of the (failed) instance holds a
// reference that this instance CREATED — to one of its own functions or to a function it
// imports (class of finding findDangle: nothing keeps the creator alive; on the interpreter a
// reference made from an import index points into the creator's engine, too).
func (in *mInst) escapedToGlobal() bool {
	for i := 0; i < in.v.nIG && i < len(in.globals); i++ {
		if g := in.globals[i]; g.vt == wasmenc.FuncRef && g.fn != nil && (g.fn.by == in || g.fn.f.def == in) {
			return true
		}
	}
	return false
}

// reject records an instantiation that failed before anything was written (link failure).
func (m *model) reject() {
	if m.okInst > 0 {
		m.failAfter = true
	}
}

// run applies the instantiation of the candidate instance as the specification prescribes once
// all imports matched — active element segments in order, active data segments in order, start
// function — and returns where it ends:
//
//	"elem"  at the first out-of-bounds element segment (table.init traps before writing)
//	"data"  at the first out-of-bounds data segment (memory.init traps before writing)
//	"start" the start function trapped (its writes up to the trap persist)
//	"ok"    success: the instance is registered
//
// Everything written before the failing point persists; the functions of a failed instance may
// live on in shared tables and operate on its (otherwise unreachable) objects.
func (m *model) run(p *plan) string {
	in := p.inst
	m.entry = in
	who := in.name
	fail := func(stage string) string {
		m.ghosts = append(m.ghosts, in)
		m.reject()
		return stage
	}
	for _, e := range in.spec.Elems {
		off, _, _ := m.evalExpr(in, e.Off)
		t := in.tables[e.Table]
		if uint64(uint32(off))+uint64(len(e.Items)) > uint64(t.size()) {
			return fail("elem")
		}
		for j, it := range e.Items {
			lo, _, fn := m.evalExpr(in, it)
			if t.elem == wasmenc.FuncRef {
				t.fn[int(uint32(off))+j] = fn
			} else {
				t.ext[int(uint32(off))+j] = lo
			}
		}
		t.lastW = who
	}
	for _, d := range in.spec.Datas {
		off, _, _ := m.evalExpr(in, d.Off)
		if uint64(uint32(off))+uint64(len(d.Bytes)) > in.mem.bytes() {
			return fail("data")
		}
		for j, b := range d.Bytes {
			in.mem.b[uint32(off)+uint32(j)] = b
		}
		if len(d.Bytes) > 0 {
			in.mem.lastW = who
		}
	}
	if st := in.spec.Start; st != nil {
		if tr := m.runOps(in, st.Ops); tr != "" || st.Trap {
			return fail("start")
		}
	}
	m.live[in.name] = in
	m.order = append(m.order, in.name)
	m.okInst++
	for _, im := range in.spec.Imports {
		m.sharedKind[im.Kind] = true
	}
	return "ok"
}

// runOps executes ops in the context of instance in; it returns a trap message or "".
func (m *model) runOps(in *mInst, ops []Op) string {
	for _, o := range ops {
		switch o.K {
		case "ginc":
			g := in.globals[o.A]
			if g.vt == wasmenc.I64 {
				g.lo++
			} else {
				g.lo = uint64(uint32(g.lo) + 1)
			}
			g.lastW = in.name
		case "gsetc":
			g := in.globals[o.A]
			if g.vt == wasmenc.I64 {
				g.lo = uint64(o.B)
			} else {
				g.lo = uint64(uint32(o.B))
			}
			g.lastW = in.name
		case "minc":
			a := uint32(o.A)
			if uint64(a) >= in.mem.bytes() {
				return trapOOBMem
			}
			in.mem.b[a]++
			in.mem.lastW = in.name
		case "mgrow":
			if in.mem.pages+1 <= in.mem.effMax {
				in.mem.pages++
				in.mem.lastW = in.name
			}
		case "tset":
			if uint64(uint32(o.C)) >= uint64(len(in.ftab)) {
				return trapTable
			}
			t := in.tables[o.A]
			if uint64(uint32(o.B)) >= uint64(len(t.fn)) {
				return trapTable
			}
			t.fn[uint32(o.B)] = in.ftab[uint32(o.C)]
			t.lastW = in.name
		case "gsetf":
			if uint64(uint32(o.C)) >= uint64(len(in.ftab)) {
				return trapTable
			}
			g := in.globals[o.A]
			g.fn = in.ftab[uint32(o.C)]
			g.lastW = in.name
		case "call":
			if _, tr := m.callFunc(in.funcs[o.A]); tr != "" {
				return tr
			}
		case "trap":
			return trapUnreach
		}
	}
	return ""
}

func (m *model) callFunc(f *mFunc) ([]uint64, string) {
	m.depth++
	defer func() { m.depth-- }()
	if m.depth > 200 { // impossible by construction (see FuncSpec); protects the harness from a damaged replay file
		return nil, "call chain too deep"
	}
	if tr := m.runOps(f.def, f.ops); tr != "" {
		return nil, tr
	}
	if tl := f.tail; tl != nil {
		in := f.def
		if tl.K == "rcall" {
			return m.callFunc(in.funcs[tl.A])
		}
		t := in.tables[tl.A]
		if uint64(uint32(tl.B)) >= uint64(len(t.fn)) {
			return nil, trapTable
		}
		m.read(in.name, t.lastW)
		if in != m.entry && t.fn[uint32(tl.B)] != nil {
			m.deepTail++ // a tail call issued by a function of another instance than the one entered
		}
		return m.callRef(t.fn[uint32(tl.B)], int(tl.C))
	}
	res := idResults(f.sig, f.id)
	if f.addG > 0 && f.addG <= len(f.def.globals) {
		g := f.def.globals[f.addG-1]
		v := g.lo
		if g.vt == wasmenc.I32 {
			v &= 0xffffffff
		}
		res = append([]uint64{}, res...)
		if f.sig == 2 {
			res[0] += v
		} else {
			res[0] = uint64(uint32(res[0]) + uint32(v))
		}
	}
	return res, ""
}

func (m *model) callRef(r *mRef, sig int) ([]uint64, string) {
	if r == nil {
		return nil, trapTable
	}
	if r.f.sig != sig {
		return nil, trapSig
	}
	return m.callFunc(r.f)
}

// ---- accessor / host operations ----

// result of evaluating a step on the model.
type mres struct {
	skip  bool     // the step does not apply (instance or object missing)
	excl  string   // the step belongs to an excluded class (not executed, counted)
	vals  []uint64 // expected results (after masking, see mask)
	mask  []uint64 // per result: bits that are compared
	trap  string   // expected trap message ("" = none)
	ok    bool     // host ops returning (value, ok)
	fnMod string   // htl: expected defining module / index
	fnIdx int
	null  bool // hgget on funcref: expected null-ness
}

func b2u(b bool) uint64 {
	if b {
		return 1
	}
	return 0
}

func maskOf(vt byte) uint64 {
	if vt == wasmenc.I32 || vt == wasmenc.F32 {
		return 0xffffffff
	}
	return ^uint64(0)
}

func (m *model) read(who string, lastW string) {
	if lastW != "" && lastW != who {
		m.crossRead = true
	}
}

func arg(a []uint64, i int) uint64 {
	if i < len(a) {
		return a[i]
	}
	return 0
}

func (mm *mMem) load(a uint64, n int) uint64 {
	var v uint64
	for i := 0; i < n; i++ {
		v |= uint64(mm.b[uint32(a)+uint32(i)]) << (8 * i)
	}
	return v
}

func (mm *mMem) store(a uint64, n int, v uint64) {
	for i := 0; i < n; i++ {
		b := byte(v >> (8 * i))
		if b == 0 {
			delete(mm.b, uint32(a)+uint32(i))
		} else {
			mm.b[uint32(a)+uint32(i)] = b
		}
	}
}

func (m *model) grow(mm *mMem, delta uint32, who string) uint64 {
	old := mm.pages
	if uint64(old)+uint64(delta) > uint64(mm.effMax) {
		return 0xffffffff
	}
	if delta > 0 {
		mm.pages += delta
		mm.lastW = who
	}
	return uint64(old)
}

func i32s(vals ...uint64) mres {
	r := mres{vals: vals}
	for range vals {
		r.mask = append(r.mask, 0xffffffff)
	}
	return r
}

// eval evaluates an accessor or host step on the model (and applies its effects).
func (m *model) eval(s Step) mres {
	in, ok := m.live[s.Inst]
	if !ok {
		return mres{skip: true}
	}
	who := in.name
	m.entry = in
	a := s.Args
	acc := s.Acc
	needG := (strings.HasPrefix(acc, "g") && acc != "gxcall") || acc == "hgget" || acc == "higet" || acc == "hgset"
	needT := strings.HasPrefix(acc, "t") || acc == "htl" || acc == "rtcall"
	needM := strings.HasPrefix(acc, "load") || strings.HasPrefix(acc, "store") || strings.HasPrefix(acc, "m") || strings.HasPrefix(acc, "hm") || acc == "xcall"
	needF := acc == "call" || acc == "rcall" || acc == "xcall" || acc == "hfcall" || acc == "gxcall"
	if s.Idx < 0 || (needG && s.Idx >= len(in.globals)) || (needT && s.Idx >= len(in.tables)) || (needM && in.mem == nil) || (needF && s.Idx >= len(in.funcs)) {
		return mres{skip: true}
	}
	if (acc == "gcall" || acc == "tcall" || acc == "rtcall" || acc == "htl") && (s.Sig < 0 || s.Sig >= len(sigs)) {
		return mres{skip: true}
	}
	if ((acc == "hgget" || acc == "hgset") && !in.spec.exported(kGlobal, s.Idx)) || (acc == "hfcall" && !in.spec.exported(kFunc, s.Idx)) {
		return mres{skip: true} // these host operations go through the export
	}
	var g *mGlobal
	if needG {
		g = in.globals[s.Idx]
	}
	var t *mTable
	if needT {
		t = in.tables[s.Idx]
	}
	mm := in.mem
	sigMask := func(sig int) []uint64 {
		var k []uint64
		for _, r := range sigs[sig].R {
			k = append(k, maskOf(r))
		}
		return k
	}
	switch acc {
	case "gget", "hgget", "higet":
		m.read(who, g.lastW)
		if g.vt == wasmenc.FuncRef {
			if acc == "gget" {
				return mres{skip: true}
			}
			return mres{null: g.fn == nil, vals: []uint64{0}, mask: []uint64{0}}
		}
		if g.vt == wasmenc.V128 && acc == "gget" {
			return mres{vals: []uint64{g.lo, g.hi}, mask: []uint64{^uint64(0), ^uint64(0)}}
		}
		return mres{vals: []uint64{g.lo & maskOf(g.vt)}, mask: []uint64{maskOf(g.vt)}}
	case "gset", "hgset":
		if !in.v.gt[s.Idx].mut || g.vt == wasmenc.FuncRef || (acc == "hgset" && g.vt == wasmenc.V128) {
			return mres{skip: true}
		}
		g.lo = arg(a, 0) & maskOf(g.vt)
		if g.vt == wasmenc.V128 {
			g.hi = arg(a, 1)
		}
		g.lastW = who
		return mres{}
	case "gnull":
		m.read(who, g.lastW)
		if g.vt == wasmenc.FuncRef {
			return i32s(b2u(g.fn == nil))
		}
		if g.vt == wasmenc.ExternRef {
			return i32s(b2u(g.lo == 0))
		}
		return mres{skip: true}
	case "gsetf":
		if !in.v.gt[s.Idx].mut || g.vt != wasmenc.FuncRef {
			return mres{skip: true}
		}
		k := arg(a, 0) & 0xffffffff
		if k >= uint64(len(in.ftab)) {
			return mres{trap: trapTable}
		}
		g.fn = in.ftab[k]
		g.lastW = who
		return mres{}
	case "gcall":
		if g.vt != wasmenc.FuncRef {
			return mres{skip: true}
		}
		m.read(who, g.lastW)
		in.ftab[len(in.ftab)-1] = g.fn
		v, tr := m.callRef(g.fn, s.Sig)
		return mres{vals: v, mask: sigMask(s.Sig), trap: tr}
	case "tsize":
		m.read(who, t.lastW)
		return i32s(uint64(t.size()))
	case "tnull":
		slot := arg(a, 0) & 0xffffffff
		if slot >= uint64(t.size()) {
			return mres{trap: trapTable}
		}
		m.read(who, t.lastW)
		if t.elem == wasmenc.FuncRef {
			return i32s(b2u(t.fn[slot] == nil))
		}
		return i32s(b2u(t.ext[slot] == 0))
	case "tget":
		if t.elem != wasmenc.ExternRef {
			return mres{skip: true}
		}
		slot := arg(a, 0) & 0xffffffff
		if slot >= uint64(len(t.ext)) {
			return mres{trap: trapTable}
		}
		m.read(who, t.lastW)
		return mres{vals: []uint64{t.ext[slot]}, mask: []uint64{^uint64(0)}}
	case "tsetx":
		if t.elem != wasmenc.ExternRef {
			return mres{skip: true}
		}
		slot := arg(a, 0) & 0xffffffff
		if slot >= uint64(len(t.ext)) {
			return mres{trap: trapTable}
		}
		t.ext[slot] = arg(a, 1)
		t.lastW = who
		return mres{}
	case "tsetf":
		if t.elem != wasmenc.FuncRef {
			return mres{skip: true}
		}
		slot, k := arg(a, 0)&0xffffffff, arg(a, 1)&0xffffffff
		if k >= uint64(len(in.ftab)) || slot >= uint64(len(t.fn)) {
			return mres{trap: trapTable}
		}
		t.fn[slot] = in.ftab[k]
		t.lastW = who
		return mres{}
	case "tgrowx", "tgrowf":
		delta := arg(a, 0) & 0xffffffff
		var fn *mRef
		if acc == "tgrowf" {
			if t.elem != wasmenc.FuncRef {
				return mres{skip: true}
			}
			k := arg(a, 1) & 0xffffffff
			if k >= uint64(len(in.ftab)) {
				return mres{trap: trapTable}
			}
			fn = in.ftab[k]
		} else if t.elem != wasmenc.ExternRef {
			return mres{skip: true}
		}
		if delta > 1<<16 { // keep the model (and the host) small; the generator never asks for more
			return mres{skip: true}
		}
		old := uint64(t.size())
		if t.max >= 0 && old+delta > uint64(t.max) {
			return i32s(0xffffffff)
		}
		for i := uint64(0); i < delta; i++ {
			if acc == "tgrowf" {
				t.fn = append(t.fn, fn)
			} else {
				t.ext = append(t.ext, arg(a, 1))
			}
		}
		if delta > 0 {
			t.lastW = who
		}
		return i32s(old)
	case "tcall", "rtcall":
		if t.elem != wasmenc.FuncRef {
			return mres{skip: true}
		}
		slot := arg(a, 0) & 0xffffffff
		if slot >= uint64(len(t.fn)) {
			return mres{trap: trapTable}
		}
		m.read(who, t.lastW)
		v, tr := m.callRef(t.fn[slot], s.Sig)
		return mres{vals: v, mask: sigMask(s.Sig), trap: tr}
	case "htl":
		if t.elem != wasmenc.FuncRef {
			return mres{skip: true}
		}
		slot := arg(a, 0) & 0xffffffff
		if slot >= uint64(len(t.fn)) || t.fn[slot] == nil {
			return mres{trap: trapTable}
		}
		f := t.fn[slot].f
		if f.sig != s.Sig {
			return mres{trap: trapSig}
		}
		m.read(who, t.lastW)
		if t.fn[slot].imp {
			m.lookupImp++
		}
		return mres{fnMod: f.modName, fnIdx: f.idx}
	case "load8", "load32", "hm8", "hm32":
		n := 1
		if acc == "load32" || acc == "hm32" {
			n = 4
		}
		ad := arg(a, 0) & 0xffffffff
		if ad+uint64(n) > mm.bytes() {
			return mres{trap: trapOOBMem}
		}
		m.read(who, mm.lastW)
		return mres{vals: []uint64{mm.load(ad, n)}, mask: []uint64{0xffffffff}, ok: true}
	case "store8", "store32", "hmw8":
		n := 1
		if acc == "store32" {
			n = 4
		}
		ad := arg(a, 0) & 0xffffffff
		if ad+uint64(n) > mm.bytes() {
			return mres{trap: trapOOBMem}
		}
		mm.store(ad, n, arg(a, 1))
		mm.lastW = who
		return mres{ok: true}
	case "msize":
		m.read(who, mm.lastW)
		return i32s(uint64(mm.pages))
	case "hmsize":
		m.read(who, mm.lastW)
		return i32s(mm.bytes() & 0xffffffff)
	case "mgrow":
		d := arg(a, 0) & 0xffffffff
		if d > 64 {
			return mres{skip: true}
		}
		return i32s(m.grow(mm, uint32(d), who))
	case "call", "rcall", "hfcall":
		if in.reexportHazard(fmt.Sprintf("f%d", s.Idx)) {
			m.reexpUse++
		}
		f := in.funcs[s.Idx]
		v, tr := m.callFunc(f)
		return mres{vals: v, mask: sigMask(f.sig), trap: tr}
	case "gxcall":
		if s.Sig < 0 || s.Sig >= len(in.globals) || !isNum(in.globals[s.Sig].vt) {
			return mres{skip: true}
		}
		gl := in.globals[s.Sig]
		k := maskOf(gl.vt)
		pre := gl.lo & k
		if _, tr := m.callFunc(in.funcs[s.Idx]); tr != "" {
			return mres{trap: tr}
		}
		m.read(who, gl.lastW)
		return mres{vals: []uint64{pre, gl.lo & k}, mask: []uint64{k, k}}
	case "xcall":
		ad := arg(a, 0) & 0xffffffff
		if ad >= mm.bytes() {
			return mres{trap: trapOOBMem}
		}
		pre := mm.load(ad, 1)
		if _, tr := m.callFunc(in.funcs[s.Idx]); tr != "" {
			return mres{trap: tr}
		}
		m.read(who, mm.lastW)
		return i32s(pre, mm.load(ad, 1), uint64(mm.pages))
	}
	return mres{skip: true}
}
