// C04 — module specifications ("link-oriented templates") and their wasm encoding.
//
// A ModSpec describes one module of the graph: what it imports (with the *declared* type of
// each import), what it defines, its active segments and its start function. Everything in
// the module's index spaces (functions, tables, the memory, globals — imported or defined)
// is exported under a conventional name ("f3", "t0", "mem", "g2"; the number is the index in
// the module's own index space) so that later modules can import it, and the module exports
// one accessor function per way of reading or writing each of those objects.
package c04

import (
	"encoding/binary"
	"fmt"

	"verif/internal/wasmenc"
)

const (
	kFunc   = wasmenc.KFunc
	kTable  = wasmenc.KTable
	kMem    = wasmenc.KMem
	kGlobal = wasmenc.KGlobal
)

const pageSize = 65536

// sigs is the small closed set of function signatures used by identity functions.
var sigs = []struct{ P, R []byte }{
	{nil, []byte{wasmenc.I32}},
	{[]byte{wasmenc.I32}, []byte{wasmenc.I32}},
	{[]byte{wasmenc.I64, wasmenc.F64}, []byte{wasmenc.I64}},
	{nil, []byte{wasmenc.I32, wasmenc.I64}},
}

// dummyArgs are the arguments every caller passes to a function of signature s.
func dummyArgs(s int) []uint64 {
	switch s {
	case 1:
		return []uint64{7}
	case 2:
		return []uint64{9, 0x3ff8000000000000} // 9, 1.5
	}
	return nil
}

// idResults are the results of the identity function `id` of signature s on dummyArgs.
func idResults(s int, id int64) []uint64 {
	switch s {
	case 0:
		return []uint64{uint64(uint32(id))}
	case 1:
		return []uint64{uint64(uint32(id + 7))}
	case 2:
		return []uint64{uint64(id + 9)}
	default:
		return []uint64{uint64(uint32(id)), uint64(id + 1000)}
	}
}

// ImportSpec is one import with its declared type.
type ImportSpec struct {
	Mod  string `json:"mod"`
	Name string `json:"name"`
	Kind byte   `json:"kind"`
	Sig  int    `json:"sig,omitempty"`  // functions
	Elem byte   `json:"elem,omitempty"` // tables
	Min  uint32 `json:"min,omitempty"`  // tables, memories
	Max  int64  `json:"max,omitempty"`  // tables, memories; -1 = no maximum
	VT   byte   `json:"vt,omitempty"`   // globals
	Mut  bool   `json:"mut,omitempty"`  // globals
	// Shared: memories (threads proposal); needs a maximum
	Shared bool `json:"shared,omitempty"`
	// NoExport: the importing module does not re-export this import (everything else in its
	// index spaces is exported).
	NoExport bool `json:"noexport,omitempty"`
}

// Expr is a constant expression.
type Expr struct {
	K string `json:"k"` // i32 i64 f32 f64 v128 null func gget
	V uint64 `json:"v,omitempty"`
	H uint64 `json:"h,omitempty"`
}

type GlobalSpec struct {
	VT   byte `json:"vt"`
	Mut  bool `json:"mut,omitempty"`
	Init Expr `json:"init"`
}

type TableSpec struct {
	Elem byte   `json:"elem"`
	Min  uint32 `json:"min"`
	Max  int64  `json:"max"`
}

type MemSpec struct {
	Min    uint32 `json:"min"`
	Max    int64  `json:"max"`
	Shared bool   `json:"shared,omitempty"` // threads proposal; needs a maximum
}

// Op is one side effect executed by an identity function or by the start function, in the
// context of the module that defines it.
//
//	ginc A      global A (mutable i32/i64) += 1
//	gsetc A B   global A (mutable i32/i64) = B
//	minc A      mem[A] = mem[A] + 1 (one byte)
//	mgrow       memory.grow 1 (result dropped)
//	tset A B C  table A (funcref) slot B = ftab[C]
//	call A      call function A (an import or an earlier function of the module), results dropped
//	gsetf A C   global A (mutable funcref) = ftab[C]
//	trap        unreachable
type Op struct {
	K string `json:"k"`
	A int64  `json:"a,omitempty"`
	B int64  `json:"b,omitempty"`
	C int64  `json:"c,omitempty"`
}

// FuncSpec is an identity function: it executes Ops and returns its ID — or, if Tail is set,
// ends with a tail call and so returns what the callee returns:
//
//	rcall A        return_call of function A (an import or an earlier function; same result types)
//	ricall A B C   return_call_indirect with signature C through table A, slot B
//
// To keep every call chain finite, functions of signature 0 only call / tail-call functions of
// signature 0 with a smaller index, and only functions of signature 1 use ricall, always with
// signature 0.
type FuncSpec struct {
	Sig  int   `json:"sig"`
	ID   int64 `json:"id"`
	Ops  []Op  `json:"ops,omitempty"`
	Tail *Op   `json:"tail,omitempty"`
	// AddG > 0: the first result is ID (+ param) + the current value of global AddG-1 (an i32 or
	// i64 global of the module's index space), so that callers can see the defining instance's
	// global through the function, even when that instance is otherwise unreachable.
	AddG int `json:"addg,omitempty"`
}

type ElemSpec struct {
	Table int    `json:"table"`
	Off   Expr   `json:"off"`
	Items []Expr `json:"items"` // func | null | gget
}

type DataSpec struct {
	Off   Expr   `json:"off"`
	Bytes []byte `json:"bytes"`
}

type StartSpec struct {
	Ops  []Op `json:"ops,omitempty"`
	Trap bool `json:"trap,omitempty"`
}

type ModSpec struct {
	Name    string       `json:"name"`
	Imports []ImportSpec `json:"imports,omitempty"`
	Funcs   []FuncSpec   `json:"funcs,omitempty"`
	Mem     *MemSpec     `json:"mem,omitempty"`
	Tables  []TableSpec  `json:"tables,omitempty"`
	Globals []GlobalSpec `json:"globals,omitempty"`
	Elems   []ElemSpec   `json:"elems,omitempty"`
	Datas   []DataSpec   `json:"datas,omitempty"`
	Start   *StartSpec   `json:"start,omitempty"`
}

// ---- static view of a spec (declared types per index space) ----

type gType struct {
	vt  byte
	mut bool
}

type view struct {
	nIF, nIT, nIG int    // imported functions, tables, globals
	fsig          []int  // signature per function index (imports + identity functions)
	telem         []byte // element type per table index (without ftab)
	gt            []gType
	hasMem        bool
	impMem        bool
}

func (s *ModSpec) view() *view {
	v := &view{}
	for _, im := range s.Imports {
		switch im.Kind {
		case kFunc:
			v.nIF++
			v.fsig = append(v.fsig, im.Sig)
		case kTable:
			v.nIT++
			v.telem = append(v.telem, im.Elem)
		case kMem:
			v.hasMem, v.impMem = true, true
		case kGlobal:
			v.nIG++
			v.gt = append(v.gt, gType{im.VT, im.Mut})
		}
	}
	for _, f := range s.Funcs {
		v.fsig = append(v.fsig, f.Sig)
	}
	for _, t := range s.Tables {
		v.telem = append(v.telem, t.Elem)
	}
	for _, g := range s.Globals {
		v.gt = append(v.gt, gType{g.VT, g.Mut})
	}
	if s.Mem != nil {
		v.hasMem = true
	}
	return v
}

// exported reports whether entry idx of the index space of the given kind is exported.
func (s *ModSpec) exported(kind byte, idx int) bool {
	n := 0
	for _, im := range s.Imports {
		if im.Kind == kind {
			if n == idx {
				return !im.NoExport
			}
			n++
		}
	}
	return true
}

// readsMutableGlobalInConstExpr reports whether some constant expression of the module reads
// a global that the module declares as a mutable import (invalid by the specification).
func (s *ModSpec) readsMutableGlobalInConstExpr() bool {
	v := s.view()
	bad := func(e Expr) bool { return e.K == "gget" && int(e.V) < v.nIG && v.gt[e.V].mut }
	for _, g := range s.Globals {
		if bad(g.Init) {
			return true
		}
	}
	for _, e := range s.Elems {
		if bad(e.Off) {
			return true
		}
		for _, it := range e.Items {
			if bad(it) {
				return true
			}
		}
	}
	for _, d := range s.Datas {
		if bad(d.Off) {
			return true
		}
	}
	return false
}

// elemItemTypeError reports whether an element-segment item reads an imported global whose
// declared type is not the element type of the segment's table (invalid by the specification).
func (s *ModSpec) elemItemTypeError() bool {
	v := s.view()
	for _, e := range s.Elems {
		for _, it := range e.Items {
			if it.K == "gget" && int(it.V) < v.nIG && e.Table < len(v.telem) && v.gt[it.V].vt != v.telem[e.Table] {
				return true
			}
		}
	}
	return false
}

// ---- accessors ----

// accInfo describes one exported accessor function of a module.
type accInfo struct {
	Acc string // kind
	Idx int    // object index in the module's index space
	Sig int    // for gcall / tcall
}

func accName(acc string, idx, sig int) string {
	switch acc {
	case "gcall", "tcall", "rtcall", "gxcall":
		return fmt.Sprintf("%s%d_%d", acc, idx, sig)
	case "load8", "store8", "load32", "store32", "msize", "mgrow":
		return acc
	}
	return fmt.Sprintf("%s%d", acc, idx)
}

func isNum(vt byte) bool {
	return vt == wasmenc.I32 || vt == wasmenc.I64 || vt == wasmenc.F32 || vt == wasmenc.F64
}

// accessors lists the accessor functions of the module in a fixed order.
func (s *ModSpec) accessors() []accInfo {
	v := s.view()
	var out []accInfo
	for i, g := range v.gt {
		switch {
		case g.vt == wasmenc.FuncRef:
			out = append(out, accInfo{"gnull", i, 0})
			for sg := range sigs {
				out = append(out, accInfo{"gcall", i, sg})
			}
			if g.mut {
				out = append(out, accInfo{"gsetf", i, 0})
			}
		default:
			out = append(out, accInfo{"gget", i, 0})
			if g.vt == wasmenc.ExternRef {
				out = append(out, accInfo{"gnull", i, 0})
			}
			if g.mut {
				out = append(out, accInfo{"gset", i, 0})
			}
		}
	}
	for i, e := range v.telem {
		out = append(out, accInfo{"tsize", i, 0}, accInfo{"tnull", i, 0})
		if e == wasmenc.FuncRef {
			out = append(out, accInfo{"tsetf", i, 0}, accInfo{"tgrowf", i, 0})
			for sg := range sigs {
				out = append(out, accInfo{"tcall", i, sg}, accInfo{"rtcall", i, sg})
			}
		} else {
			out = append(out, accInfo{"tget", i, 0}, accInfo{"tsetx", i, 0}, accInfo{"tgrowx", i, 0})
		}
	}
	if v.hasMem {
		for _, a := range []string{"load8", "store8", "load32", "store32", "msize", "mgrow"} {
			out = append(out, accInfo{a, 0, 0})
		}
	}
	var mutInt []int // the first few mutable integer globals
	for i, g := range v.gt {
		if g.mut && (g.vt == wasmenc.I32 || g.vt == wasmenc.I64) && len(mutInt) < 3 {
			mutInt = append(mutInt, i)
		}
	}
	for i := range v.fsig {
		out = append(out, accInfo{"call", i, 0}, accInfo{"rcall", i, 0})
		if v.hasMem {
			out = append(out, accInfo{"xcall", i, 0})
		}
		for _, gi := range mutInt {
			out = append(out, accInfo{"gxcall", i, gi}) // Sig carries the global index
		}
	}
	return out
}

// ---- encoding ----

func encExpr(e Expr, refType byte) []byte {
	b := wasmenc.NewB()
	switch e.K {
	case "i32":
		b.I32Const(int32(uint32(e.V)))
	case "i64":
		b.I64Const(int64(e.V))
	case "f32":
		b.F32Const(uint32(e.V))
	case "f64":
		b.F64Const(e.V)
	case "v128":
		b.V128Const(e.V, e.H)
	case "null":
		b.RefNull(refType)
	case "func":
		b.RefFunc(uint32(e.V))
	case "gget":
		b.GlobalGet(uint32(e.V))
	default:
		panic("bad expr kind " + e.K)
	}
	return b.Bytes()
}

func vtBytes(vt byte) []byte {
	if vt == wasmenc.V128 {
		return []byte{wasmenc.I64, wasmenc.I64}
	}
	return []byte{vt}
}

func emitOps(b *wasmenc.B, ops []Op, v *view, ftab uint32) {
	for _, o := range ops {
		switch o.K {
		case "ginc":
			b.GlobalGet(uint32(o.A))
			if v.gt[o.A].vt == wasmenc.I64 {
				b.I64Const(1).Raw(wasmenc.OpI64Add)
			} else {
				b.I32Const(1).Raw(wasmenc.OpI32Add)
			}
			b.GlobalSet(uint32(o.A))
		case "gsetc":
			if v.gt[o.A].vt == wasmenc.I64 {
				b.I64Const(o.B)
			} else {
				b.I32Const(int32(o.B))
			}
			b.GlobalSet(uint32(o.A))
		case "minc":
			b.I32Const(int32(o.A)).I32Const(int32(o.A)).Mem(wasmenc.OpI32Load8U, 0, 0).I32Const(1).Raw(wasmenc.OpI32Add).Mem(wasmenc.OpI32Store8, 0, 0)
		case "mgrow":
			b.I32Const(1).MemoryGrow().Drop()
		case "tset":
			b.I32Const(int32(o.B)).I32Const(int32(o.C)).TableGet(ftab).TableSet(uint32(o.A))
		case "gsetf":
			b.I32Const(int32(o.C)).TableGet(ftab).GlobalSet(uint32(o.A))
		case "call":
			sg := v.fsig[o.A]
			pushDummy(b, sg)
			b.Call(uint32(o.A))
			for range sigs[sg].R {
				b.Drop()
			}
		case "trap":
			b.Unreachable()
		default:
			panic("bad op " + o.K)
		}
	}
}

func pushDummy(b *wasmenc.B, s int) {
	switch s {
	case 1:
		b.I32Const(7)
	case 2:
		b.I64Const(9).F64(1.5)
	}
}

// build encodes the module. A non-empty nonce is added as a custom section: wazero keys its
// compiled-code cache by the hash of the binary, and closing one CompiledModule drops the code
// of every other CompiledModule of the same binary, so the binaries handed to
// Runtime.InstantiateWithConfig (which closes its code on failure) are made unique.
func (s *ModSpec) build(nonce string) []byte {
	v := s.view()
	m := &wasmenc.Module{ModuleName: s.Name}
	I32 := wasmenc.I32
	for _, im := range s.Imports {
		var desc []byte
		switch im.Kind {
		case kFunc:
			desc = wasmenc.U32(m.AddType(sigs[im.Sig].P, sigs[im.Sig].R))
		case kTable:
			desc = wasmenc.TableType(im.Elem, im.Min, im.Max)
		case kMem:
			desc = wasmenc.Limits(im.Min, im.Max, im.Shared && im.Max >= 0)
		case kGlobal:
			desc = wasmenc.GlobalType(im.VT, im.Mut)
		}
		m.Imports = append(m.Imports, wasmenc.Import{Mod: im.Mod, Name: im.Name, Kind: im.Kind, Desc: desc})
	}
	nF := len(v.fsig)
	ftab := uint32(len(v.telem))
	scratch := int32(nF + 1)

	// identity functions
	for _, f := range s.Funcs {
		b := wasmenc.NewB()
		emitOps(b, f.Ops, v, ftab)
		if tl := f.Tail; tl != nil {
			if tl.K == "rcall" {
				pushDummy(b, v.fsig[tl.A])
				b.ReturnCall(uint32(tl.A))
			} else {
				pushDummy(b, int(tl.C))
				b.I32Const(int32(tl.B)).ReturnCallIndirect(m.AddType(sigs[tl.C].P, sigs[tl.C].R), uint32(tl.A))
			}
			m.AddFunc(sigs[f.Sig].P, sigs[f.Sig].R, nil, b.Bytes())
			continue
		}
		addG := func(to64 bool) {
			if f.AddG <= 0 {
				return
			}
			b.GlobalGet(uint32(f.AddG - 1))
			g64 := v.gt[f.AddG-1].vt == wasmenc.I64
			switch {
			case to64 && !g64:
				b.Raw(wasmenc.OpI64ExtendI32U)
			case !to64 && g64:
				b.Raw(wasmenc.OpI32WrapI64)
			}
			if to64 {
				b.Raw(wasmenc.OpI64Add)
			} else {
				b.Raw(wasmenc.OpI32Add)
			}
		}
		switch f.Sig {
		case 0:
			b.I32Const(int32(f.ID))
			addG(false)
		case 1:
			b.I32Const(int32(f.ID)).LocalGet(0).Raw(wasmenc.OpI32Add)
			addG(false)
		case 2:
			b.I64Const(f.ID).LocalGet(0).Raw(wasmenc.OpI64Add)
			addG(true)
		default:
			b.I32Const(int32(f.ID))
			addG(false)
			b.I64Const(f.ID + 1000)
		}
		m.AddFunc(sigs[f.Sig].P, sigs[f.Sig].R, nil, b.Bytes())
	}
	for i := 0; i < nF; i++ {
		if s.exported(kFunc, i) {
			m.ExportFunc(fmt.Sprintf("f%d", i), uint32(i))
		}
	}

	// tables: defined ones, then the private ftab [null, f0..f(nF-1), scratch]
	for _, t := range s.Tables {
		m.Tables = append(m.Tables, wasmenc.TableType(t.Elem, t.Min, t.Max))
	}
	m.Tables = append(m.Tables, wasmenc.TableType(wasmenc.FuncRef, uint32(nF+2), -1))
	for i := range v.telem {
		if s.exported(kTable, i) {
			m.Exports = append(m.Exports, wasmenc.Export{Name: fmt.Sprintf("t%d", i), Kind: kTable, Idx: uint32(i)})
		}
	}
	if s.Mem != nil {
		m.Mems = append(m.Mems, wasmenc.Limits(s.Mem.Min, s.Mem.Max, s.Mem.Shared && s.Mem.Max >= 0))
	}
	if v.hasMem && s.exported(kMem, 0) {
		m.Exports = append(m.Exports, wasmenc.Export{Name: "mem", Kind: kMem, Idx: 0})
	}
	for _, g := range s.Globals {
		m.Globals = append(m.Globals, wasmenc.Global{Type: g.VT, Mut: g.Mut, Init: encExpr(g.Init, g.VT)})
	}
	for i := range v.gt {
		if s.exported(kGlobal, i) {
			m.Exports = append(m.Exports, wasmenc.Export{Name: fmt.Sprintf("g%d", i), Kind: kGlobal, Idx: uint32(i)})
		}
	}

	// element segments: the user's, then ftab's
	for _, e := range s.Elems {
		allFunc := true
		for _, it := range e.Items {
			if it.K != "func" {
				allFunc = false
			}
		}
		et := v.telem[e.Table]
		if allFunc && et == wasmenc.FuncRef {
			var idx []uint32
			for _, it := range e.Items {
				idx = append(idx, uint32(it.V))
			}
			m.Elems = append(m.Elems, wasmenc.ActiveElemFuncsTable(uint32(e.Table), encExpr(e.Off, 0), idx))
		} else {
			r := wasmenc.Cat([]byte{6}, wasmenc.U32(uint32(e.Table)), encExpr(e.Off, 0), []byte{0x0b, et}, wasmenc.U32(uint32(len(e.Items))))
			for _, it := range e.Items {
				r = append(r, encExpr(it, et)...)
				r = append(r, 0x0b)
			}
			m.Elems = append(m.Elems, r)
		}
	}
	if nF > 0 {
		all := make([]uint32, nF)
		for i := range all {
			all[i] = uint32(i)
		}
		m.Elems = append(m.Elems, wasmenc.ActiveElemFuncsTable(ftab, wasmenc.NewB().I32Const(1).Bytes(), all))
	}
	for _, d := range s.Datas {
		m.Datas = append(m.Datas, wasmenc.ActiveDataExpr(encExpr(d.Off, 0), d.Bytes))
	}

	// accessors
	for _, a := range s.accessors() {
		b := wasmenc.NewB()
		var p, r []byte
		i := uint32(a.Idx)
		switch a.Acc {
		case "gget":
			vt := v.gt[a.Idx].vt
			r = vtBytes(vt)
			if vt == wasmenc.V128 {
				b.GlobalGet(i).FD(0x1d, 0).GlobalGet(i).FD(0x1d, 1)
			} else {
				b.GlobalGet(i)
			}
		case "gset":
			vt := v.gt[a.Idx].vt
			p = vtBytes(vt)
			if vt == wasmenc.V128 {
				b.V128Const(0, 0).LocalGet(0).FD(0x1e, 0).LocalGet(1).FD(0x1e, 1).GlobalSet(i)
			} else {
				b.LocalGet(0).GlobalSet(i)
			}
		case "gnull":
			r = []byte{I32}
			b.GlobalGet(i).RefIsNull()
		case "gsetf":
			p = []byte{I32}
			b.LocalGet(0).TableGet(ftab).GlobalSet(i)
		case "gcall":
			r = sigs[a.Sig].R
			b.I32Const(scratch).GlobalGet(i).TableSet(ftab)
			pushDummy(b, a.Sig)
			b.I32Const(scratch).CallIndirect(m.AddType(sigs[a.Sig].P, sigs[a.Sig].R), ftab)
		case "tsize":
			r = []byte{I32}
			b.TableSize(i)
		case "tnull":
			p, r = []byte{I32}, []byte{I32}
			b.LocalGet(0).TableGet(i).RefIsNull()
		case "tget":
			p, r = []byte{I32}, []byte{wasmenc.ExternRef}
			b.LocalGet(0).TableGet(i)
		case "tsetx":
			p = []byte{I32, wasmenc.ExternRef}
			b.LocalGet(0).LocalGet(1).TableSet(i)
		case "tsetf":
			p = []byte{I32, I32}
			b.LocalGet(0).LocalGet(1).TableGet(ftab).TableSet(i)
		case "tgrowx":
			p, r = []byte{I32, wasmenc.ExternRef}, []byte{I32}
			b.LocalGet(1).LocalGet(0).TableGrow(i)
		case "tgrowf":
			p, r = []byte{I32, I32}, []byte{I32}
			b.LocalGet(1).TableGet(ftab).LocalGet(0).TableGrow(i)
		case "tcall":
			p, r = []byte{I32}, sigs[a.Sig].R
			pushDummy(b, a.Sig)
			b.LocalGet(0).CallIndirect(m.AddType(sigs[a.Sig].P, sigs[a.Sig].R), i)
		case "rtcall": // the same through return_call_indirect (tail call)
			p, r = []byte{I32}, sigs[a.Sig].R
			pushDummy(b, a.Sig)
			b.LocalGet(0).ReturnCallIndirect(m.AddType(sigs[a.Sig].P, sigs[a.Sig].R), i)
		case "rcall": // direct tail call of a (possibly imported) function
			sg := v.fsig[a.Idx]
			r = sigs[sg].R
			pushDummy(b, sg)
			b.ReturnCall(i)
		case "load8":
			p, r = []byte{I32}, []byte{I32}
			b.LocalGet(0).Mem(wasmenc.OpI32Load8U, 0, 0)
		case "store8":
			p = []byte{I32, I32}
			b.LocalGet(0).LocalGet(1).Mem(wasmenc.OpI32Store8, 0, 0)
		case "load32":
			p, r = []byte{I32}, []byte{I32}
			b.LocalGet(0).Mem(wasmenc.OpI32Load, 0, 0)
		case "store32":
			p = []byte{I32, I32}
			b.LocalGet(0).LocalGet(1).Mem(wasmenc.OpI32Store, 0, 0)
		case "msize":
			r = []byte{I32}
			b.MemorySize()
		case "mgrow":
			p, r = []byte{I32}, []byte{I32}
			b.LocalGet(0).MemoryGrow()
		case "call":
			sg := v.fsig[a.Idx]
			r = sigs[sg].R
			pushDummy(b, sg)
			b.Call(i)
		case "gxcall":
			sg, gvt := v.fsig[a.Idx], v.gt[a.Sig].vt
			r = []byte{gvt, gvt}
			b.GlobalGet(uint32(a.Sig))
			pushDummy(b, sg)
			b.Call(i)
			for range sigs[sg].R {
				b.Drop()
			}
			b.GlobalGet(uint32(a.Sig))
		case "xcall":
			sg := v.fsig[a.Idx]
			p, r = []byte{I32}, []byte{I32, I32, I32}
			b.LocalGet(0).Mem(wasmenc.OpI32Load8U, 0, 0)
			pushDummy(b, sg)
			b.Call(i)
			for range sigs[sg].R {
				b.Drop()
			}
			b.LocalGet(0).Mem(wasmenc.OpI32Load8U, 0, 0).MemorySize()
		default:
			panic("bad accessor " + a.Acc)
		}
		fi := m.AddFunc(p, r, nil, b.Bytes())
		m.ExportFunc(accName(a.Acc, a.Idx, a.Sig), fi)
	}
	if s.Start != nil {
		b := wasmenc.NewB()
		emitOps(b, s.Start.Ops, v, ftab)
		if s.Start.Trap {
			b.Unreachable()
		}
		fi := m.AddFunc(nil, nil, nil, b.Bytes())
		m.Start = &fi
	}
	if nonce != "" {
		m.Customs = append(m.Customs, wasmenc.Custom{Name: "nonce", Data: []byte(nonce)})
	}
	return m.Encode()
}

func le32(v uint32) []byte {
	var b [4]byte
	binary.LittleEndian.PutUint32(b[:], v)
	return b[:]
}
