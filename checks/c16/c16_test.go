// C16 — WASI file operations behave like a POSIX-style reference model.
//
// TestHistory: a rapid state machine issues path_open / fd_close / fd_renumber / fd_read /
// fd_write / fd_pread / fd_pwrite / fd_seek / fd_tell / fd_filestat_get /
// fd_filestat_set_size / path_filestat_get / fd_readdir / path_create_directory /
// path_remove_directory / path_unlink_file / path_rename through a real guest (wasiproxy)
// against fresh temp directories mounted with WithDirMount, and compares every result with
// verif/internal/fsmodel (an inode-based model written for this check). At the end the host
// tree must equal the model's tree.
//
// TestReaddir (readdir_test.go): dedicated fd_readdir protocol generator.
//
// Steps are generated as explicit values and executed by world.apply, which TestReplay
// shares.
package c16

import (
	"context"
	"encoding/binary"
	"encoding/json"
	"fmt"
	"io"
	"io/fs"
	"os"
	"path/filepath"
	"sort"
	"strings"
	"sync"
	"sync/atomic"
	"testing"
	"testing/fstest"

	"github.com/tetratelabs/wazero"
	"pgregory.net/rapid"

	"verif/internal/evid"
	"verif/internal/fsmodel"
	"verif/internal/wasiproxy"
	"verif/internal/wz"
)

func TestMain(m *testing.M) { evid.Main(m, "C16") }

// guest memory layout used by the harness (one 64 KiB page)
const (
	memRes   = 0     // 8 bytes: nread / nwritten / newoffset / opened fd / bufused
	memStat  = 64    // 64 bytes filestat
	memPath1 = 1024  // <= 1 KiB
	memPath2 = 2048  // <= 1 KiB
	memIov   = 3072  // iovec array
	memData  = 4096  // data buffers (8 KiB)
	memDir   = 16384 // fd_readdir buffer (<= 8 KiB + slack)
)

const (
	oCreat = 1
	oDir   = 2
	oExcl  = 4
	oTrunc = 8

	rightRead  = 1<<1 | 1<<2 | 1<<5 | 1<<14 | 1<<21
	rightWrite = 1<<6 | 1<<2 | 1<<5 | 1<<8 | 1<<22

	ftDir  = 3
	ftFile = 4
)

type step struct {
	Op     string   `json:"op"`
	FD     int32    `json:"fd"`
	To     int32    `json:"to,omitempty"` // fd_renumber target / path_rename new directory fd
	Path   string   `json:"path,omitempty"`
	Path2  string   `json:"path2,omitempty"`
	Flags  string   `json:"flags,omitempty"` // path_open: r w c(reat) x(excl) t(runc) d(irectory) a(ppend) f(ollow symlinks)
	Off    int64    `json:"off,omitempty"`
	Whence int      `json:"whence,omitempty"`
	Lens   []int    `json:"lens,omitempty"` // iovec lengths of reads
	Data   []string `json:"data,omitempty"` // iovec contents of writes
	Buf    uint32   `json:"buf,omitempty"`  // fd_readdir buffer length
	// Fault, when non-zero, replaces the call's result pointer (opened fd, nread, offset,
	// filestat, bufused) by this address outside guest memory. Only used with calls that have
	// no effect besides their result: the call must fail and change nothing.
	Fault uint32 `json:"fault,omitempty"`
}

// seedEnt is content that exists in mount 0 before the guest starts.
type seedEnt struct {
	Path string `json:"path"`
	Dir  bool   `json:"dir,omitempty"`
	Data string `json:"data,omitempty"`
}

type histCase struct {
	Kind  string    `json:"kind"`
	NPre  int       `json:"npre"`
	Mount string    `json:"mount,omitempty"` // "" / "dir": WithDirMount; "dirfs": WithFSMount(os.DirFS(dir)); "seekfs": the same with files that lack ReadAt; "mapfs": WithFSMount(fstest.MapFS)
	Seed  []seedEnt `json:"seed,omitempty"`
	Steps []step    `json:"steps"`
}

var caseCounter atomic.Int64

// world is one guest with its mounts and the model.
type world struct {
	ctx   context.Context
	rt    wazero.Runtime
	p     *wasiproxy.Proxy
	m     *fsmodel.Model
	base  string
	dirs  []string
	steps []step

	mount     string // mount kind, see histCase.Mount
	maps      []fstest.MapFS
	many      bool // generator mode: hold many descriptors open (table growth at 64/128/192)
	maxOpen   int
	lastErrno uint32 // errno of the most recent WASI call
	audits    int

	mixedIO       bool // one descriptor saw positional and sequential I/O
	rewindListing bool // a listing needed >= 2 calls on a descriptor listed before
	unlinkedIO    bool
	secondWord    bool
}

func newWorld(npre int, mount string, seed ...seedEnt) (*world, error) {
	w := &world{ctx: context.Background(), m: fsmodel.New(npre), mount: mount}
	w.m.ReadOnly = mount == "dirfs" || mount == "mapfs" || mount == "seekfs"
	w.m.NoTrailingSlash = w.m.ReadOnly
	w.base = filepath.Join(evid.WorkDir(), fmt.Sprintf("case-%d", caseCounter.Add(1)))
	os.RemoveAll(w.base)
	fsc := wazero.NewFSConfig()
	for i := 0; i < npre; i++ {
		d := filepath.Join(w.base, fmt.Sprintf("m%d", i))
		if err := os.MkdirAll(d, 0o755); err != nil {
			return nil, err
		}
		w.dirs = append(w.dirs, d)
		w.maps = append(w.maps, fstest.MapFS{})
		guest := "/"
		if i > 0 {
			guest = fmt.Sprintf("/m%d", i)
		}
		switch mount {
		case "dirfs":
			fsc = fsc.WithFSMount(os.DirFS(d), guest)
		case "seekfs":
			fsc = fsc.WithFSMount(seekOnlyFS{os.DirFS(d)}, guest)
		case "mapfs":
			fsc = fsc.WithFSMount(w.maps[i], guest)
		default:
			fsc = fsc.WithDirMount(d, guest)
		}
	}
	for _, e := range seed {
		if !w.m.Seed(0, e.Path, e.Dir, []byte(e.Data)) {
			continue
		}
		if err := w.hostCreate(0, e.Path, e.Dir, e.Data); err != nil {
			return nil, err
		}
	}
	w.rt = wazero.NewRuntimeWithConfig(w.ctx, wazero.NewRuntimeConfigInterpreter())
	p, err := wasiproxy.New(w.ctx, w.rt, wazero.NewModuleConfig().WithFSConfig(fsc), 1, -1)
	if err != nil {
		w.rt.Close(w.ctx)
		return nil, err
	}
	w.p = p
	return w, nil
}

// seekOnlyFS is an fs.FS whose regular files offer Read, Seek, Stat and Close but neither
// ReadAt nor anything else (directories are passed through): wazero has to serve fd_pread on
// them by seeking, reading and seeking back.
type seekOnlyFS struct{ fs.FS }

type seekOnlyFile struct{ f fs.File }

func (s seekOnlyFile) Stat() (fs.FileInfo, error) { return s.f.Stat() }
func (s seekOnlyFile) Read(b []byte) (int, error) { return s.f.Read(b) }
func (s seekOnlyFile) Close() error               { return s.f.Close() }
func (s seekOnlyFile) Seek(off int64, whence int) (int64, error) {
	return s.f.(io.Seeker).Seek(off, whence)
}

func (s seekOnlyFS) Open(name string) (fs.File, error) {
	f, err := s.FS.Open(name)
	if err != nil {
		return nil, err
	}
	if st, err := f.Stat(); err == nil && st.Mode().IsRegular() {
		return seekOnlyFile{f}, nil
	}
	return f, nil
}

// hostCreate / hostRemove change what is behind mount i directly (not through the guest).
func (w *world) hostCreate(i int, p string, dir bool, data string) error {
	if w.mount == "mapfs" {
		if dir {
			w.maps[i][p] = &fstest.MapFile{Mode: fs.ModeDir | 0o755}
		} else {
			w.maps[i][p] = &fstest.MapFile{Data: []byte(data), Mode: 0o644}
		}
		return nil
	}
	hp := filepath.Join(w.dirs[i], filepath.FromSlash(p))
	if dir {
		return os.Mkdir(hp, 0o755)
	}
	return os.WriteFile(hp, []byte(data), 0o644)
}

func (w *world) hostRemove(i int, p string) error {
	if w.mount == "mapfs" {
		delete(w.maps[i], p)
		return nil
	}
	return os.Remove(filepath.Join(w.dirs[i], filepath.FromSlash(p)))
}

func (w *world) close() {
	if w.rt != nil {
		w.rt.Close(w.ctx)
		w.rt = nil
	}
	os.RemoveAll(w.base)
}

// call issues one WASI call; a non-"ok" outcome (trap, panic, internal error) is reported.
func (w *world) call(name string, args ...uint64) (uint32, string) {
	e, out := w.p.Call(w.ctx, name, args...)
	w.lastErrno = e
	if out.Kind != wz.KOK {
		return e, fmt.Sprintf("%s did not return an errno: %s", name, out)
	}
	return e, ""
}

func (w *world) putPath(at uint32, p string) (uint64, uint64) {
	w.p.Mem.Write(at, []byte(p))
	return uint64(at), uint64(len(p))
}

func (w *world) u32(at uint32) uint32 { v, _ := w.p.Mem.ReadUint32Le(at); return v }
func (w *world) u64(at uint32) uint64 { v, _ := w.p.Mem.ReadUint64Le(at); return v }

// layIov lays out iovecs with the given lengths in the data area (3-byte gaps), filling the
// buffers with fill or with the given contents. It returns the buffer addresses.
func (w *world) layIov(lens []int, contents []string) []uint32 {
	addr := uint32(memData)
	var addrs []uint32
	iov := make([]byte, 8*len(lens))
	for i, l := range lens {
		binary.LittleEndian.PutUint32(iov[8*i:], addr)
		binary.LittleEndian.PutUint32(iov[8*i+4:], uint32(l))
		if contents != nil {
			w.p.Mem.Write(addr, []byte(contents[i]))
		} else {
			w.p.Mem.Write(addr, []byte(strings.Repeat("#", l)))
		}
		addrs = append(addrs, addr)
		addr += uint32(l) + 3
	}
	w.p.Mem.Write(memIov, iov)
	return addrs
}

func (w *world) gather(addrs []uint32, lens []int, n uint32) []byte {
	var out []byte
	for i, a := range addrs {
		if n == 0 {
			break
		}
		k := uint32(lens[i])
		if k > n {
			k = n
		}
		b, _ := w.p.Mem.Read(a, k)
		out = append(out, b...)
		n -= k
	}
	return out
}

func total(lens []int) int {
	t := 0
	for _, l := range lens {
		t += l
	}
	return t
}

func lensOf(data []string) []int {
	r := make([]int, len(data))
	for i, d := range data {
		r[i] = len(d)
	}
	return r
}

func parseOpen(flags string) (o fsmodel.Open, oflags, fdflags, dirflags uint64, rights uint64) {
	for _, c := range flags {
		switch c {
		case 'r':
			o.Read = true
			rights |= rightRead
		case 'w':
			o.Write = true
			rights |= rightWrite
		case 'c':
			o.Creat = true
			oflags |= oCreat
		case 'x':
			o.Excl = true
			oflags |= oExcl
		case 't':
			o.Trunc = true
			oflags |= oTrunc
		case 'd':
			o.Directory = true
			oflags |= oDir
		case 'a':
			o.Append = true
			fdflags |= 1
		case 'f':
			dirflags |= 1
		}
	}
	return
}

func errnoName(e uint32) string {
	switch e {
	case 0:
		return "ESUCCESS"
	case wasiproxy.EBADF:
		return "EBADF"
	case wasiproxy.EEXIST:
		return "EEXIST"
	case wasiproxy.EINVAL:
		return "EINVAL"
	case wasiproxy.EISDIR:
		return "EISDIR"
	case wasiproxy.ENOENT:
		return "ENOENT"
	case wasiproxy.ENOTDIR:
		return "ENOTDIR"
	case wasiproxy.ENOTEMPTY:
		return "ENOTEMPTY"
	case wasiproxy.EIO:
		return "EIO"
	case wasiproxy.EFAULT:
		return "EFAULT"
	case wasiproxy.EPERM:
		return "EPERM"
	case wasiproxy.ENOTSUP:
		return "ENOTSUP"
	case wasiproxy.ENOSYS:
		return "ENOSYS"
	}
	return fmt.Sprintf("errno(%d)", e)
}

func describeExpect(e fsmodel.Expect) string {
	if e.OK {
		return "success"
	}
	if len(e.Errnos) == 0 {
		return "a failure (" + e.Why + ")"
	}
	var n []string
	for _, x := range e.Errnos {
		n = append(n, errnoName(x))
	}
	return strings.Join(n, " or ") + " (" + e.Why + ")"
}

// verdict compares the errno class. It returns (proceed, message): proceed is true when the
// call succeeded as expected and outputs should be compared.
func verdict(s step, exp fsmodel.Expect, errno uint32) (bool, string) {
	if exp.Unspecified {
		// outside the model's domain (the generator avoids these): nothing is compared and
		// the history stops because the model can no longer follow the guest's state
		evid.Label("unspecified:"+s.Op, 1)
		return false, "desync"
	}
	if exp.Either {
		evid.Label("either-outcome:"+s.Op+":"+errnoName(errno), 1)
		return errno == 0, ""
	}
	if !exp.Matches(errno) {
		return false, fmt.Sprintf("%s returned %s, the reference model predicts %s", fmtStep(s), errnoName(errno), describeExpect(exp))
	}
	if errno == 0 {
		evid.Label("op:"+s.Op+":ok", 1)
	} else {
		evid.Label("op:"+s.Op+":"+errnoName(errno), 1)
	}
	return errno == 0, ""
}

func fmtStep(s step) string {
	b, _ := json.Marshal(s)
	return string(b)
}

// tableOps change the descriptor table when they succeed.
var tableOps = map[string]bool{"path_open": true, "fd_close": true, "fd_renumber": true}

// apply executes one step against the guest and the model; a non-empty result is a violation.
// After every call that failed (a failed call must change nothing) and after every call that
// changes the descriptor table, the guest's descriptor table is audited against the model.
func (w *world) apply(s step) string {
	w.steps = append(w.steps, s)
	msg := w.applyOp(s)
	if msg != "" {
		return msg
	}
	if n := len(w.m.FDs); n > w.maxOpen {
		w.maxOpen = n
	}
	if w.lastErrno != 0 || tableOps[s.Op] {
		return w.audit("after "+fmtStep(s)+" ("+errnoName(w.lastErrno)+")", false, s.FD, s.To)
	}
	return ""
}

// audit probes the descriptor numbers around the model's table with fd_filestat_get (a call
// without side effects): exactly the descriptors the model holds must be open, with the
// model's file type and size. Descriptors are valid from the open that returned them until
// they are closed, and no other number is ever valid.
func (w *world) audit(when string, full bool, focus ...int32) string {
	m := w.m
	hi := int32(6)
	for fd := range m.FDs {
		if fd+3 > hi {
			hi = fd + 3
		}
	}
	sel := map[int32]bool{63: true, 64: true, 65: true}
	if full || hi <= 40 {
		for fd := int32(3); fd < hi; fd++ {
			sel[fd] = true
		}
	} else {
		// large tables: the numbers around the descriptors the call touched, the lowest
		// free number and the top of the table; after a failed call also a rotating 1/16
		// sample and the word boundaries of the table. The whole table is audited at the
		// end of the history.
		lf := m.LowestFree()
		around := append([]int32{lf, hi - 2}, focus...)
		if w.lastErrno != 0 {
			for fd := 3 + int32(w.audits%16); fd < hi; fd += 16 {
				sel[fd] = true
			}
			around = append(around, 128, 192)
		}
		for _, c := range around {
			for d := int32(-1); d <= 1; d++ {
				if c+d >= 3 && c+d < hi+2 {
					sel[c+d] = true
				}
			}
		}
	}
	var probe []int32
	for fd := range sel {
		probe = append(probe, fd)
	}
	sort.Slice(probe, func(i, j int) bool { return probe[i] < probe[j] })
	w.audits++
	for _, fd := range probe {
		errno, msg := w.call("fd_filestat_get", uint64(uint32(fd)), memStat)
		if msg != "" {
			return msg
		}
		d := m.FDs[fd]
		if d == nil {
			if errno != wasiproxy.EBADF {
				return fmt.Sprintf("%s: descriptor %d answers fd_filestat_get with %s, but no call returned it or it was closed (model table: %v)", when, fd, errnoName(errno), m.SortedFDs())
			}
			continue
		}
		if errno != 0 {
			return fmt.Sprintf("%s: descriptor %d is open in the model (never closed) but fd_filestat_get fails with %s (model table: %v)", when, fd, errnoName(errno), m.SortedFDs())
		}
		typ, _ := w.p.Mem.ReadByte(memStat + 16)
		wantT := byte(ftFile)
		if d.Ino.Dir {
			wantT = ftDir
		}
		if typ != wantT {
			return fmt.Sprintf("%s: descriptor %d has filetype %d, the model's descriptor has %d", when, fd, typ, wantT)
		}
		if size := int64(w.u64(memStat + 32)); !d.Ino.Dir && size != int64(len(d.Ino.Data)) {
			return fmt.Sprintf("%s: descriptor %d reports size %d, the model's file has %d bytes", when, fd, size, len(d.Ino.Data))
		}
	}
	return ""
}

// faultVerdict judges a call whose result pointer lies outside guest memory: it must fail;
// the model is not advanced (the audit that follows checks that nothing changed).
func faultVerdict(s step, errno uint32) string {
	if errno == 0 {
		return fmt.Sprintf("%s returned ESUCCESS although its result pointer %#x lies outside the guest's memory", fmtStep(s), s.Fault)
	}
	evid.Label("fault:"+s.Op+":"+errnoName(errno), 1)
	return ""
}

func (w *world) applyOp(s step) string {
	m := w.m
	resPtr, statPtr := uint64(memRes), uint64(memStat)
	if s.Fault != 0 {
		resPtr, statPtr = uint64(s.Fault), uint64(s.Fault)
	}
	noteIO := func(fd int32) {
		if d := m.FDs[fd]; d != nil && d.Ino != nil {
			if d.SeqIO && d.PosIO {
				w.mixedIO = true
			}
			if !d.Ino.Dir && d.Ino.Nlink == 0 {
				w.unlinkedIO = true
			}
		}
	}
	if strings.HasPrefix(s.Op, "path_") {
		if d := m.FDs[s.FD]; d != nil && d.Ino != nil && d.Ino.Dir && !d.Preopen {
			evid.Label("path-call-relative-to-opened-directory", 1)
		}
	}
	switch s.Op {
	case "path_open":
		o, oflags, fdflags, dirflags, rights := parseOpen(s.Flags)
		pa, pl := w.putPath(memPath1, s.Path)
		w.p.Mem.WriteUint32Le(memRes, 0xdeadbeef)
		errno, msg := w.call("path_open", uint64(uint32(s.FD)), dirflags, pa, pl, oflags, rights, rights, fdflags, resPtr)
		if msg != "" {
			return msg
		}
		if s.Fault != 0 {
			if o.Creat || o.Trunc {
				return "desync" // whether the file was created/emptied before the fault is unspecified
			}
			return faultVerdict(s, errno)
		}
		before := m.SortedFDs()
		exp, wantFD := m.PathOpen(s.FD, s.Path, o)
		okc, msg := verdict(s, exp, errno)
		if msg != "" || !okc {
			return msg
		}
		if got := int32(w.u32(memRes)); got != wantFD {
			return fmt.Sprintf("%s returned descriptor %d, the lowest free descriptor is %d (open before the call: %v)", fmtStep(s), got, wantFD, before)
		}
		if wantFD >= 64 {
			w.secondWord = true
		}
	case "fd_close":
		errno, msg := w.call("fd_close", uint64(uint32(s.FD)))
		if msg != "" {
			return msg
		}
		_, msg = verdict(s, m.FdClose(s.FD), errno)
		return msg
	case "fd_renumber":
		errno, msg := w.call("fd_renumber", uint64(uint32(s.FD)), uint64(uint32(s.To)))
		if msg != "" {
			return msg
		}
		if s.To >= 64 {
			w.secondWord = true
		}
		_, msg = verdict(s, m.FdRenumber(s.FD, s.To, errno == 0), errno)
		return msg
	case "fd_read", "fd_pread":
		addrs := w.layIov(s.Lens, nil)
		w.p.Mem.WriteUint32Le(memRes, 0xdeadbeef)
		var errno uint32
		var msg string
		var exp fsmodel.Expect
		var want []byte
		if s.Op == "fd_read" {
			errno, msg = w.call("fd_read", uint64(uint32(s.FD)), memIov, uint64(len(s.Lens)), memRes)
			exp, want = m.FdRead(s.FD, total(s.Lens))
		} else {
			errno, msg = w.call("fd_pread", uint64(uint32(s.FD)), memIov, uint64(len(s.Lens)), uint64(s.Off), resPtr)
			if msg == "" && s.Fault != 0 {
				return faultVerdict(s, errno)
			}
			exp, want = m.FdPread(s.FD, total(s.Lens), s.Off)
		}
		if msg != "" {
			return msg
		}
		okc, msg := verdict(s, exp, errno)
		if msg != "" || !okc {
			return msg
		}
		n := w.u32(memRes)
		if int(n) != len(want) {
			return fmt.Sprintf("%s read %d bytes, the model file has %d bytes available there (%q)", fmtStep(s), n, len(want), want)
		}
		if got := w.gather(addrs, s.Lens, n); string(got) != string(want) {
			return fmt.Sprintf("%s read %q, the model file holds %q there", fmtStep(s), got, want)
		}
		noteIO(s.FD)
	case "fd_write", "fd_pwrite":
		lens := lensOf(s.Data)
		w.layIov(lens, s.Data)
		w.p.Mem.WriteUint32Le(memRes, 0xdeadbeef)
		data := []byte(strings.Join(s.Data, ""))
		var errno uint32
		var msg string
		var exp fsmodel.Expect
		var want int
		if s.Op == "fd_write" {
			errno, msg = w.call("fd_write", uint64(uint32(s.FD)), memIov, uint64(len(lens)), memRes)
			exp, want = m.FdWrite(s.FD, data)
		} else {
			errno, msg = w.call("fd_pwrite", uint64(uint32(s.FD)), memIov, uint64(len(lens)), uint64(s.Off), memRes)
			exp, want = m.FdPwrite(s.FD, data, s.Off)
		}
		if msg != "" {
			return msg
		}
		okc, msg := verdict(s, exp, errno)
		if msg != "" || !okc {
			return msg
		}
		if n := w.u32(memRes); int(n) != want {
			return fmt.Sprintf("%s reports %d bytes written, want %d", fmtStep(s), n, want)
		}
		noteIO(s.FD)
	case "fd_seek", "fd_tell":
		w.p.Mem.WriteUint64Le(memRes, 0xdeadbeefdeadbeef)
		var errno uint32
		var msg string
		var exp fsmodel.Expect
		var want int64
		if s.Op == "fd_seek" {
			errno, msg = w.call("fd_seek", uint64(uint32(s.FD)), uint64(s.Off), uint64(s.Whence), memRes)
			exp, want = m.FdSeek(s.FD, s.Off, s.Whence)
		} else {
			errno, msg = w.call("fd_tell", uint64(uint32(s.FD)), resPtr)
			if msg == "" && s.Fault != 0 {
				return faultVerdict(s, errno)
			}
			exp, want = m.FdSeek(s.FD, 0, 1)
		}
		if msg != "" {
			return msg
		}
		okc, msg := verdict(s, exp, errno)
		if msg != "" || !okc {
			return msg
		}
		if got := int64(w.u64(memRes)); got != want {
			return fmt.Sprintf("%s reports offset %d, the model's descriptor offset is %d", fmtStep(s), got, want)
		}
	case "fd_filestat_get", "path_filestat_get":
		var errno uint32
		var msg string
		var exp fsmodel.Expect
		var isDir bool
		var size int64
		if s.Op == "fd_filestat_get" {
			errno, msg = w.call("fd_filestat_get", uint64(uint32(s.FD)), statPtr)
			if msg == "" && s.Fault != 0 {
				return faultVerdict(s, errno)
			}
			exp, isDir, size = m.FdFilestat(s.FD)
		} else {
			pa, pl := w.putPath(memPath1, s.Path)
			var lf uint64
			if strings.Contains(s.Flags, "f") {
				lf = 1
			}
			errno, msg = w.call("path_filestat_get", uint64(uint32(s.FD)), lf, pa, pl, statPtr)
			if msg == "" && s.Fault != 0 {
				return faultVerdict(s, errno)
			}
			exp, isDir, size = m.PathFilestat(s.FD, s.Path)
		}
		if msg != "" {
			return msg
		}
		okc, msg := verdict(s, exp, errno)
		if msg != "" || !okc {
			return msg
		}
		ft := w.p.Mem
		typ, _ := ft.ReadByte(memStat + 16)
		gotSize := int64(w.u64(memStat + 32))
		wantT := byte(ftFile)
		if isDir {
			wantT = ftDir
		}
		if typ != wantT {
			return fmt.Sprintf("%s reports filetype %d, model says %d", fmtStep(s), typ, wantT)
		}
		if !isDir && gotSize != size {
			return fmt.Sprintf("%s reports size %d, model file has %d bytes", fmtStep(s), gotSize, size)
		}
	case "fd_filestat_set_size":
		errno, msg := w.call("fd_filestat_set_size", uint64(uint32(s.FD)), uint64(s.Off))
		if msg != "" {
			return msg
		}
		exp := m.FdSetSize(s.FD, s.Off)
		_, msg = verdict(s, exp, errno)
		return msg
	case "path_create_directory", "path_remove_directory", "path_unlink_file":
		pa, pl := w.putPath(memPath1, s.Path)
		errno, msg := w.call(s.Op, uint64(uint32(s.FD)), pa, pl)
		if msg != "" {
			return msg
		}
		var exp fsmodel.Expect
		switch s.Op {
		case "path_create_directory":
			exp = m.Mkdir(s.FD, s.Path)
		case "path_remove_directory":
			exp = m.Rmdir(s.FD, s.Path)
		default:
			exp = m.Unlink(s.FD, s.Path)
		}
		_, msg = verdict(s, exp, errno)
		return msg
	case "path_rename":
		pa, pl := w.putPath(memPath1, s.Path)
		pb, pl2 := w.putPath(memPath2, s.Path2)
		errno, msg := w.call("path_rename", uint64(uint32(s.FD)), pa, pl, uint64(uint32(s.To)), pb, pl2)
		if msg != "" {
			return msg
		}
		exp := m.Rename(s.FD, s.Path, s.To, s.Path2)
		_, msg = verdict(s, exp, errno)
		return msg
	case "fd_readdir":
		if s.Fault != 0 {
			errno, msg := w.call("fd_readdir", uint64(uint32(s.FD)), memDir, uint64(s.Buf), 0, resPtr)
			if msg != "" {
				return msg
			}
			return faultVerdict(s, errno)
		}
		return w.applyListing(s)
	}
	return ""
}

// applyListing reads a whole directory from cookie 0 with the step's buffer length.
func (w *world) applyListing(s step) string {
	before := 0
	if d := w.m.FDs[s.FD]; d != nil {
		before = d.Lists
	}
	exp, want := w.m.Listing(s.FD)
	got, calls, errno, msg := w.listAll(s.FD, s.Buf)
	if msg != "" {
		return fmtStep(s) + ": " + msg
	}
	okc, msg := verdict(s, exp, errno)
	if msg != "" || !okc {
		return msg
	}
	if exp.Either {
		// the directory was renamed/removed since the descriptor was opened: wazero (Go's
		// Readdir) looks every entry up again under the old name, so entries may be missing
		// and types may stem from a namesake; but no entry may appear that the directory this
		// descriptor was opened on does not hold
		seen := map[string]bool{}
		for _, e := range got {
			_, mine := want[e.Name]
			if e.Name != "." && e.Name != ".." && !mine || seen[e.Name] {
				return fmt.Sprintf("%s: the directory was renamed/removed since this descriptor was opened; the listing contains %q, which is not an entry of the directory it was opened on (%v) or is repeated", fmtStep(s), e.Name, want)
			}
			seen[e.Name] = true
		}
		evid.Label("listing-of-renamed-dir-compared", 1)
		return ""
	}
	wantL := []string{".:3", "..:3"}
	for n, isDir := range want {
		t := ftFile
		if isDir {
			t = ftDir
		}
		wantL = append(wantL, fmt.Sprintf("%s:%d", n, t))
	}
	var gotL []string
	for _, e := range got {
		gotL = append(gotL, fmt.Sprintf("%s:%d", e.Name, e.Type))
	}
	sort.Strings(wantL)
	sort.Strings(gotL)
	if strings.Join(wantL, " ") != strings.Join(gotL, " ") {
		return fmt.Sprintf("%s: complete listing (%d calls) yields entries name:type %v, the model directory holds %v", fmtStep(s), calls, gotL, wantL)
	}
	if calls >= 2 {
		evid.Label("listing-multi-call", 1)
		if before > 0 {
			w.rewindListing = true
		}
	}
	return ""
}

func (w *world) finalCheck() string {
	for i, root := range w.m.Roots {
		want := fsmodel.Tree(root)
		got := map[string]string{}
		if w.mount == "mapfs" {
			for k, f := range w.maps[i] {
				if f.Mode&fs.ModeDir != 0 {
					got[k] = "dir"
				} else {
					got[k] = "file:" + string(f.Data)
				}
			}
			if d := diffTrees(want, got); d != "" {
				return fmt.Sprintf("after the history the MapFS behind mount %d differs from the model tree: %s", i, d)
			}
			continue
		}
		base := w.dirs[i]
		err := filepath.WalkDir(base, func(p string, d fs.DirEntry, err error) error {
			if err != nil {
				return err
			}
			if p == base {
				return nil
			}
			rel, _ := filepath.Rel(base, p)
			switch {
			case d.IsDir():
				got[rel] = "dir"
			case d.Type().IsRegular():
				b, err := os.ReadFile(p)
				if err != nil {
					return err
				}
				got[rel] = "file:" + string(b)
			default:
				got[rel] = "other:" + d.Type().String()
			}
			return nil
		})
		if err != nil {
			return "walking the host tree failed: " + err.Error()
		}
		if d := diffTrees(want, got); d != "" {
			return fmt.Sprintf("after the history the host tree of mount %d differs from the model tree: %s", i, d)
		}
	}
	return ""
}

func diffTrees(want, got map[string]string) string {
	var keys []string
	for k := range want {
		keys = append(keys, k)
	}
	for k := range got {
		if _, dup := want[k]; !dup {
			keys = append(keys, k)
		}
	}
	sort.Strings(keys)
	var d []string
	for _, k := range keys {
		if want[k] != got[k] {
			d = append(d, fmt.Sprintf("%s: model %q host %q", k, want[k], got[k]))
		}
	}
	if len(d) > 6 {
		d = append(d[:6], "...")
	}
	return strings.Join(d, "; ")
}

// ---------------------------------------------------------------------------------------
// generator

var names = []string{"a", "b", "c", "d"}

// Note on rapid: IntRange/SampledFrom favour small values/indices (about half of the draws
// are shortened to a few bits), so frequent choices sit at the low end and rare ones at the
// high end of every range below.
var openCombos = []string{
	"rwc", "rd", "rw", "r", "wc", "rd", "rwt", "rwa", "w", "rwcx", "rwca", "wa", "wt", "rwct", "wcx", "wct",
	"wca", "wcat", "rwcxt", "rwcxa", "r", "rw", "rd",
	// read-only together with create/truncate/append: narrowed away (i), see genStep
	"rc", "rt", "ra",
}

var opCounts = []struct {
	op string
	n  int
}{
	{"fd_write", 5}, {"path_open", 8}, {"fd_read", 4}, {"fd_renumber", 3}, {"fd_close", 4}, {"fd_pwrite", 3},
	{"fd_pread", 3}, {"fd_seek", 3}, {"path_rename", 3}, {"path_create_directory", 3}, {"fd_tell", 2},
	{"fd_filestat_set_size", 2}, {"path_unlink_file", 2}, {"path_remove_directory", 2}, {"fd_readdir", 2},
	{"fd_filestat_get", 2}, {"path_filestat_get", 2},
}

// opWeights interleaves the operations (round robin) so that the low-index bias of
// SampledFrom does not starve any of them.
var opWeights = func() []string {
	var out []string
	for i := 0; i < 8; i++ {
		for _, oc := range opCounts {
			if oc.n > i {
				out = append(out, oc.op)
			}
		}
	}
	return out
}()

var fileOps = map[string]bool{"fd_read": true, "fd_write": true, "fd_pread": true, "fd_pwrite": true, "fd_seek": true,
	"fd_tell": true, "fd_filestat_set_size": true, "fd_close": true, "fd_renumber": true}

type fdClasses struct {
	files, dirs, validDirs, drifted, closed []int32
}

func (w *world) classes() fdClasses {
	var c fdClasses
	for _, fd := range w.m.SortedFDs() {
		d := w.m.FDs[fd]
		switch {
		case d.Stdio:
		case d.Ino.Dir:
			c.dirs = append(c.dirs, fd)
			if d.NameValid() {
				c.validDirs = append(c.validDirs, fd)
			} else {
				c.drifted = append(c.drifted, fd)
			}
		default:
			c.files = append(c.files, fd)
		}
	}
	seen := map[int32]bool{}
	add := func(fd int32) {
		if _, open := w.m.FDs[fd]; !open && !seen[fd] && fd >= 0 {
			seen[fd] = true
			c.closed = append(c.closed, fd)
		}
	}
	lf := w.m.LowestFree()
	add(lf)
	add(lf + 1)
	var freed []int32
	for fd := range w.m.Freed {
		freed = append(freed, fd)
	}
	sort.Slice(freed, func(i, j int) bool { return freed[i] < freed[j] })
	for _, fd := range freed {
		add(fd)
	}
	add(63)
	add(64)
	if w.many {
		for _, fd := range []int32{127, 128, 129, 191, 192} {
			add(fd)
		}
	}
	return c
}

// pickFD draws a descriptor: mostly from `pref`, sometimes a closed number, sometimes from `other`.
func pickFD(t *rapid.T, pref, other, closed []int32) int32 {
	r := rapid.IntRange(0, 19).Draw(t, "fdclass")
	switch {
	case r == 19 && len(closed) > 0:
		return rapid.SampledFrom(closed).Draw(t, "closedfd")
	case r == 18 && len(other) > 0:
		return rapid.SampledFrom(other).Draw(t, "otherfd")
	case len(pref) > 0:
		return rapid.SampledFrom(pref).Draw(t, "fd")
	case len(other) > 0:
		return rapid.SampledFrom(other).Draw(t, "otherfd")
	}
	return rapid.SampledFrom(closed).Draw(t, "closedfd")
}

// pickDirFD draws the directory descriptor of a path call. Narrowing (ii): descriptors of
// directories whose name drifted (renamed or removed since they were opened) are not used.
func (w *world) pickDirFD(t *rapid.T, c fdClasses) int32 {
	r := rapid.IntRange(0, 29).Draw(t, "dirfdclass")
	switch {
	case r == 29 && len(c.closed) > 0:
		return rapid.SampledFrom(c.closed).Draw(t, "closedfd")
	case r == 28 && len(c.files) > 0:
		return rapid.SampledFrom(c.files).Draw(t, "filefd")
	case r >= 6:
		// any directory descriptor, opened ones first
		var ds []int32
		for i := len(c.dirs) - 1; i >= 0; i-- {
			ds = append(ds, c.dirs[i])
		}
		fd := rapid.SampledFrom(ds).Draw(t, "dirfd")
		if !w.m.FDs[fd].NameValid() {
			evid.Label("narrow-ii-dirfd-name-drifted", 1)
			return 3
		}
		return fd
	}
	return 3
}

// genPath draws a path below the directory of dirfd. want biases the draw: "dir"/"file"/"any"
// towards existing entries of that kind, "new" towards a fresh name in an existing directory;
// every mode also produces colliding, missing and below-a-file paths.
func (w *world) genPath(t *rapid.T, dirfd int32, want string, allowDot bool) string {
	var all, dirs, files []string
	if d := w.m.FDs[dirfd]; d != nil && d.Ino != nil && d.Ino.Dir {
		all, dirs = fsmodel.Paths(d.Ino)
		isDir := map[string]bool{}
		for _, p := range dirs {
			isDir[p] = true
		}
		for _, p := range all {
			if !isDir[p] {
				files = append(files, p)
			}
		}
	}
	name := func() string { return rapid.SampledFrom(names).Draw(t, "name") }
	below := func() string {
		var shallow []string
		for _, d := range dirs {
			if strings.Count(d, "/") < 2 {
				shallow = append(shallow, d)
			}
		}
		if len(shallow) > 0 && rapid.IntRange(0, 2).Draw(t, "inroot") != 0 {
			return rapid.SampledFrom(shallow).Draw(t, "existingdir") + "/" + name()
		}
		return name()
	}
	r := rapid.IntRange(0, 19).Draw(t, "pathmode")
	if r < 12 {
		switch {
		case want == "dir" && len(dirs) > 0:
			return rapid.SampledFrom(dirs).Draw(t, "dir")
		case want == "file" && len(files) > 0:
			return rapid.SampledFrom(files).Draw(t, "file")
		case want == "any" && len(all) > 0:
			return rapid.SampledFrom(all).Draw(t, "existing")
		case want == "new":
			return below()
		}
	}
	switch {
	case r < 15 && len(all) > 0:
		return rapid.SampledFrom(all).Draw(t, "existing")
	case r == 15 && allowDot:
		return "."
	case r < 18:
		return below()
	case r == 18 && len(all) > 0:
		// below something that may be a file
		return rapid.SampledFrom(all).Draw(t, "existing") + "/" + name()
	}
	n := rapid.IntRange(1, 3).Draw(t, "depth")
	var cs []string
	for i := 0; i < n; i++ {
		cs = append(cs, name())
	}
	return strings.Join(cs, "/")
}

// genSeed draws a small initial tree for mount 0 (0-7 entries, directories first so that
// nested names find their parents).
func genSeed(t *rapid.T, rich bool) []seedEnt {
	n := rapid.IntRange(0, 7).Draw(t, "nseed")
	if rich {
		n = rapid.IntRange(3, 14).Draw(t, "nseedrich")
	}
	var out []seedEnt
	var dirs []string
	taken := map[string]bool{}
	for i := 0; i < n; i++ {
		p := rapid.SampledFrom(names).Draw(t, "seedname")
		if len(dirs) > 0 && rapid.Bool().Draw(t, "nested") {
			d := rapid.SampledFrom(dirs).Draw(t, "seeddir")
			if strings.Count(d, "/") < 1 {
				p = d + "/" + p
			}
		}
		if taken[p] {
			continue
		}
		taken[p] = true
		if rapid.IntRange(0, 2).Draw(t, "seedkind") == 0 {
			out = append(out, seedEnt{Path: p, Data: rapid.StringOfN(rapid.RuneFrom([]rune("stuv")), 0, 12, -1).Draw(t, "seeddata")})
		} else {
			out = append(out, seedEnt{Path: p, Dir: true})
			dirs = append(dirs, p)
		}
	}
	return out
}

func genData(t *rapid.T) []string {
	n := rapid.IntRange(1, 3).Draw(t, "niov")
	var out []string
	tot := 0
	for i := 0; i < n; i++ {
		s := rapid.StringOfN(rapid.RuneFrom([]rune("abcxyz019")), 0, 24, -1).Draw(t, "data")
		out = append(out, s)
		tot += len(s)
	}
	if tot == 0 {
		out[len(out)-1] = "Q"
	}
	return out
}

func genLens(t *rapid.T) []int {
	n := rapid.IntRange(1, 3).Draw(t, "niov")
	var out []int
	tot := 0
	for i := 0; i < n; i++ {
		l := rapid.IntRange(0, 40).Draw(t, "len")
		out = append(out, l)
		tot += l
	}
	if tot == 0 {
		out[len(out)-1] = 7
	}
	return out
}

// faultable lists the calls whose only effect is their result, so that a result pointer
// outside guest memory has an unambiguous outcome: failure, nothing changed.
var faultable = map[string]bool{"path_open": true, "fd_pread": true, "fd_tell": true, "fd_filestat_get": true,
	"path_filestat_get": true, "fd_readdir": true}

func (w *world) genStep(t *rapid.T) step {
	s := w.genStep0(t)
	if faultable[s.Op] && rapid.IntRange(0, 15).Draw(t, "fault") == 15 {
		if s.Op == "path_open" && strings.ContainsAny(s.Flags, "ct") {
			// whether a faulting open may already have created/emptied the file is unspecified
			evid.Label("narrow-fault-on-creating-open", 1)
			return s
		}
		s.Fault = rapid.SampledFrom([]uint32{65536, 65533, 0xfffffffc}).Draw(t, "faultptr")
	}
	return s
}

// genMany biases towards holding many descriptors: opens of existing files and directories
// (the same ones again and again), some closes of random descriptors and renumbers.
func (w *world) genMany(t *rapid.T) (step, bool) {
	c := w.classes()
	r := rapid.IntRange(0, 19).Draw(t, "manyop")
	switch {
	case r < 14:
		fd := w.pickDirFD(t, c)
		flags := rapid.SampledFrom([]string{"r", "rw", "rd", "rwc", "w", "rwa", "r"}).Draw(t, "flags")
		want := "any"
		switch {
		case strings.Contains(flags, "d"):
			want = "dir"
		case strings.Contains(flags, "w"):
			want = "file"
		}
		if w.m.ReadOnly && flags != "rd" {
			flags = "r"
		}
		return step{Op: "path_open", FD: fd, Path: w.genPath(t, fd, want, false), Flags: flags}, true
	case r < 17:
		var closable []int32
		for _, fd := range w.m.SortedFDs() {
			if d := w.m.FDs[fd]; !d.Stdio && !d.Preopen {
				closable = append(closable, fd)
			}
		}
		if len(closable) > 0 {
			// uniform over the open descriptors: an index drawn from the middle of the range
			i := rapid.IntRange(0, 2*len(closable)-1).Draw(t, "victim") % len(closable)
			return step{Op: "fd_close", FD: closable[i]}, true
		}
	}
	return step{}, false
}

// entryOps are the calls that act on a directory entry (not on what it names).
var entryOps = map[string]bool{"path_create_directory": true, "path_remove_directory": true, "path_unlink_file": true, "path_rename": true}

// spell re-spells a path: trailing slash, "./", "/.", "//", "x/../", "..", absolute. The
// model normalises '.'/'..' lexically like path.Clean and then looks the names up (see
// fsmodel.resolvePath).
func (w *world) spell(t *rapid.T, op string, dirfd int32, p string) string {
	if p == "." || p == "" {
		return p
	}
	k := rapid.IntRange(0, 47).Draw(t, "spelling")
	name := func() string {
		if d := w.m.FDs[dirfd]; d != nil && d.Ino != nil && d.Ino.Dir && rapid.IntRange(0, 3).Draw(t, "realdir") != 3 {
			if _, dirs := fsmodel.Paths(d.Ino); len(dirs) > 0 {
				return rapid.SampledFrom(dirs).Draw(t, "viadir")
			}
		}
		return rapid.SampledFrom(names).Draw(t, "via")
	}
	q := p
	switch {
	case k < 32:
		return p
	case k < 37:
		q = p + "/"
	case k == 37:
		q = "./" + p
	case k == 38:
		q = p + "/."
	case k == 39:
		q = strings.Replace(p, "/", "//", 1)
		if q == p {
			q = p + "//"
		}
	case k == 40 || k == 41:
		q = name() + "/../" + p
	case k == 42:
		q = p + "/.."
	case k == 43:
		q = "./" + p + "/"
	case k == 44:
		q = p + "/../" + rapid.SampledFrom(names).Draw(t, "sibling")
	case k == 45:
		q = name() + "/./" + p
	case k == 46:
		q = "../" + p
	default:
		q = "/" + p
	}
	if entryOps[op] && fsmodel.CleansToSelf(q) {
		// mkdir/rmdir/unlink/rename of the descriptor's own directory ("a/..") is not
		// generated: it would operate on the mount root
		evid.Label("narrow-entry-op-on-own-directory", 1)
		return p
	}
	evid.Label("spelling-decorated", 1)
	return q
}

func (w *world) genStep0(t *rapid.T) step {
	if w.many {
		if s, ok := w.genMany(t); ok {
			return s
		}
	}
	if !w.m.ReadOnly {
		if s, ok := w.genDrift(t); ok {
			return s
		}
	}
	s := w.genStep1(t)
	if w.m.ReadOnly {
		s = w.roAdjust(t, s)
	}
	switch s.Op {
	case "path_open", "path_filestat_get", "path_create_directory", "path_remove_directory", "path_unlink_file":
		s.Path = w.spell(t, s.Op, s.FD, s.Path)
	case "path_rename":
		s.Path = w.spell(t, s.Op, s.FD, s.Path)
		s.Path2 = w.spell(t, s.Op, s.To, s.Path2)
		if w.m.RenameSameMissing(s.FD, s.Path, s.To, s.Path2) && renameSameMissingBroken() {
			s.Path2 += "x"
		}
	}
	return s
}

// genDrift steers a share of the steps towards the history "open a directory, rename it away,
// create another directory under the old name, put something into it, read the still-open
// descriptor": the descriptor keeps naming the directory it was opened on.
func (w *world) genDrift(t *rapid.T) (step, bool) {
	if rapid.IntRange(0, 7).Draw(t, "drift") < 6 {
		return step{}, false
	}
	pre := func(d *fsmodel.Desc) int32 {
		for i, r := range w.m.Roots {
			if r == d.Root {
				return int32(3 + i)
			}
		}
		return 3
	}
	var fresh, gone, taken []int32
	for _, fd := range w.m.SortedFDs() {
		d := w.m.FDs[fd]
		if d.Stdio || d.Preopen || !d.Ino.Dir || len(d.Path) == 0 {
			continue
		}
		if p := w.m.FDs[pre(d)]; p == nil || !p.Preopen {
			continue
		}
		now := fsmodel.Resolve(d.Root, d.Path)
		switch {
		case now == d.Ino && d.Lists == 0:
			fresh = append(fresh, fd)
		case now == nil && fsmodel.Resolve(d.Root, d.Path[:len(d.Path)-1]) != nil:
			gone = append(gone, fd)
		case now != nil && now != d.Ino && now.Dir:
			taken = append(taken, fd)
		}
	}
	switch {
	case len(taken) > 0:
		fd := rapid.SampledFrom(taken).Draw(t, "takenfd")
		d := w.m.FDs[fd]
		if rapid.Bool().Draw(t, "fill") {
			// an entry that tells the new directory from the old one
			n := rapid.SampledFrom([]string{"x", "y", "z"}).Draw(t, "marker")
			return step{Op: "path_open", FD: pre(d), Path: strings.Join(d.Path, "/") + "/" + n, Flags: "rwc"}, true
		}
		evid.Label("readdir-on-dir-whose-name-was-taken-over", 1)
		return step{Op: "fd_readdir", FD: fd, Buf: rapid.SampledFrom([]uint32{4096, 64, 24, 100}).Draw(t, "buf")}, true
	case len(gone) > 0:
		d := w.m.FDs[rapid.SampledFrom(gone).Draw(t, "gonefd")]
		return step{Op: "path_create_directory", FD: pre(d), Path: strings.Join(d.Path, "/")}, true
	case len(fresh) > 0:
		d := w.m.FDs[rapid.SampledFrom(fresh).Draw(t, "freshfd")]
		to := rapid.SampledFrom([]string{"e", "g", "a", "b"}).Draw(t, "awayname")
		return step{Op: "path_rename", FD: pre(d), Path: strings.Join(d.Path, "/"), To: pre(d), Path2: to}, true
	}
	return step{}, false
}

// roAdjust adapts a step to a read-only (fs.FS) mount: opens ask for reading only (what a
// write/create open does on a read-only mount belongs to C17), and most write-type
// descriptor calls give way to directory listings, the part where fs.FS mounts have their own
// implementation. Mutating path calls stay: they must fail and leave the tree alone.
func (w *world) roAdjust(t *rapid.T, s step) step {
	switch s.Op {
	case "path_open":
		if strings.ContainsAny(s.Flags, "wctax") {
			evid.Label("narrow-ro-mount-write-open", 1)
			fl := "r"
			if strings.Contains(s.Flags, "f") {
				fl += "f"
			}
			s.Flags = fl
		}
	case "fd_write", "fd_pwrite", "fd_filestat_set_size":
		if rapid.IntRange(0, 3).Draw(t, "listinstead") != 3 {
			c := w.classes()
			return step{Op: "fd_readdir", FD: pickFD(t, c.dirs, c.files, c.closed),
				Buf: rapid.SampledFrom([]uint32{24, 26, 32, 51, 64, 100, 256, 4096, 25, 52}).Draw(t, "buf")}
		}
	}
	return s
}

func (w *world) genStep1(t *rapid.T) step {
	c := w.classes()
	op := rapid.SampledFrom(opWeights).Draw(t, "op")
	if len(c.files) == 0 && fileOps[op] && rapid.IntRange(0, 3).Draw(t, "needfile") != 0 {
		// nothing to do file I/O on yet: open (mostly create) a file instead
		fd := w.pickDirFD(t, c)
		flags := rapid.SampledFrom([]string{"rwc", "rwc", "wc", "rwca", "rw", "r"}).Draw(t, "flags")
		return step{Op: "path_open", FD: fd, Path: w.genPath(t, fd, "new", false), Flags: flags}
	}
	switch op {
	case "path_open":
		fd := w.pickDirFD(t, c)
		flags := rapid.SampledFrom(openCombos).Draw(t, "flags")
		if !strings.Contains(flags, "w") && strings.ContainsAny(flags, "cta") {
			// narrowing (i): create/truncate/append are requested only together with the
			// write right (the read-only + create corner belongs to C17)
			evid.Label("narrow-i-readonly-with-create-trunc-append", 1)
			flags = "w" + flags
		}
		want := "file"
		switch {
		case strings.Contains(flags, "d"):
			want = "dir"
		case strings.Contains(flags, "c") && rapid.Bool().Draw(t, "fresh"):
			want = "new"
		case rapid.IntRange(0, 3).Draw(t, "anykind") == 0:
			want = "any"
		}
		if rapid.Bool().Draw(t, "follow") {
			flags += "f"
		}
		return step{Op: op, FD: fd, Path: w.genPath(t, fd, want, !strings.ContainsAny(flags, "cxta")), Flags: flags}
	case "fd_close":
		var closable []int32
		closable = append(closable, c.files...)
		for _, fd := range c.dirs {
			if !w.m.FDs[fd].Preopen {
				closable = append(closable, fd)
			}
		}
		return step{Op: op, FD: pickFD(t, closable, nil, c.closed)}
	case "fd_renumber":
		var movable []int32
		movable = append(movable, c.files...)
		for _, fd := range c.dirs {
			if !w.m.FDs[fd].Preopen {
				movable = append(movable, fd)
			}
		}
		from := pickFD(t, movable, nil, c.closed)
		var tos, pre []int32
		tos = append(tos, movable...)
		tos = append(tos, c.closed...)
		for _, fd := range c.dirs {
			if w.m.FDs[fd].Preopen {
				pre = append(pre, fd)
			}
		}
		to := rapid.SampledFrom(tos).Draw(t, "to")
		switch rapid.IntRange(0, 11).Draw(t, "special") {
		case 11, 10:
			to = from
		case 9, 8:
			// onto a pre-opened directory: wazero refuses (ENOTSUP); a refused call must leave
			// `from` valid and its slot taken
			if len(pre) > 0 {
				to = rapid.SampledFrom(pre).Draw(t, "topre")
			}
		case 7:
			if len(pre) > 0 && rapid.Bool().Draw(t, "frompre") {
				from = rapid.SampledFrom(pre).Draw(t, "frompre2")
			}
		}
		if from == to && renumberSelfBroken() {
			// known finding C16-renumber-self: class excluded, its input is re-run by TestRenumberSelf
			evid.Label("excluded-renumber-self", 1)
			for _, x := range tos {
				if x != from {
					to = x
					break
				}
			}
		}
		return step{Op: op, FD: from, To: to}
	case "fd_read":
		return step{Op: op, FD: pickFD(t, c.files, c.dirs, c.closed), Lens: genLens(t)}
	case "fd_pread":
		st := step{Op: op, FD: pickFD(t, c.files, c.dirs, c.closed), Lens: genLens(t), Off: int64(rapid.IntRange(0, 80).Draw(t, "off"))}
		if d := w.m.FDs[st.FD]; d != nil && d.Ino != nil && rapid.IntRange(0, 2).Draw(t, "atcur") != 0 {
			// positional read exactly at (or next to) the descriptor's own offset
			st.Off = d.Off + int64(rapid.SampledFrom([]int{0, 0, 0, 1, -1}).Draw(t, "curdelta"))
			if st.Off < 0 {
				st.Off = 0
			}
			if st.Off == d.Off {
				evid.Label("pread-at-current-offset", 1)
			}
		}
		return st
	case "fd_write":
		return step{Op: op, FD: pickFD(t, c.files, c.dirs, c.closed), Data: genData(t)}
	case "fd_pwrite":
		fd := pickFD(t, c.files, c.dirs, c.closed)
		if d := w.m.FDs[fd]; d != nil && d.Append && d.Write {
			// narrowing (iii): no pwrite on an append-mode descriptor
			evid.Label("narrow-iii-pwrite-on-append", 1)
			return step{Op: "fd_write", FD: fd, Data: genData(t)}
		}
		return step{Op: op, FD: fd, Data: genData(t), Off: int64(rapid.IntRange(0, 80).Draw(t, "off"))}
	case "fd_seek":
		fd := pickFD(t, c.files, nil, c.closed)
		off := int64(rapid.IntRange(-30, 90).Draw(t, "off"))
		if rapid.IntRange(0, 9).Draw(t, "far") == 0 {
			off = int64(rapid.IntRange(-300, 300).Draw(t, "faroff"))
		}
		return step{Op: op, FD: fd, Off: off, Whence: rapid.IntRange(0, 2).Draw(t, "whence")}
	case "fd_tell":
		return step{Op: op, FD: pickFD(t, c.files, nil, c.closed)}
	case "fd_filestat_get":
		var any []int32
		any = append(any, c.files...)
		any = append(any, c.dirs...)
		return step{Op: op, FD: pickFD(t, any, nil, c.closed)}
	case "fd_filestat_set_size":
		return step{Op: op, FD: pickFD(t, c.files, c.dirs, c.closed), Off: int64(rapid.IntRange(0, 120).Draw(t, "size"))}
	case "path_filestat_get":
		fd := w.pickDirFD(t, c)
		fl := ""
		if rapid.Bool().Draw(t, "follow") {
			fl = "f"
		}
		return step{Op: op, FD: fd, Path: w.genPath(t, fd, "any", true), Flags: fl}
	case "fd_readdir":
		fd := pickFD(t, c.dirs, c.files, c.closed)
		if d := w.m.FDs[fd]; d != nil && d.Ino != nil && d.Ino.Dir && !d.NameValid() {
			evid.Label("readdir-on-renamed-or-removed-dir", 1)
		}
		return step{Op: op, FD: fd, Buf: rapid.SampledFrom([]uint32{24, 25, 26, 32, 51, 52, 64, 100, 256, 4096}).Draw(t, "buf")}
	case "path_create_directory", "path_remove_directory", "path_unlink_file":
		fd := w.pickDirFD(t, c)
		want := map[string]string{"path_create_directory": "new", "path_remove_directory": "dir", "path_unlink_file": "file"}[op]
		return step{Op: op, FD: fd, Path: w.genPath(t, fd, want, false)}
	default: // path_rename
		fd := w.pickDirFD(t, c)
		to := w.pickDirFD(t, c)
		if a, b := w.m.FDs[fd], w.m.FDs[to]; a != nil && b != nil && a.Root != b.Root {
			evid.Label("narrow-rename-across-mounts", 1)
			to = fd
		}
		st := step{Op: op, FD: fd, Path: w.genPath(t, fd, "any", false), To: to}
		st.Path2 = w.genPath(t, to, rapid.SampledFrom([]string{"new", "new", "any", "dir", "file"}).Draw(t, "newkind"), false)
		if rapid.IntRange(0, 11).Draw(t, "samepath") == 0 {
			st.To, st.Path2 = st.FD, st.Path
		}
		if w.m.RenameSameMissing(st.FD, st.Path, st.To, st.Path2) && renameSameMissingBroken() {
			// known finding C16-rename-same-missing: class excluded, its input is re-run by
			// TestRenameSameMissing
			evid.Label("excluded-rename-same-missing", 1)
			st.Path2 = st.Path2 + "x"
		}
		return st
	}
}

// ---------------------------------------------------------------------------------------
// known finding: fd_renumber(fd, fd)

var renumberSelfCase = histCase{Kind: "history", NPre: 1, Steps: []step{
	{Op: "path_open", FD: 3, Path: "a", Flags: "rwc"},
	{Op: "fd_renumber", FD: 4, To: 4},
	{Op: "fd_write", FD: 4, Data: []string{"x"}},
}}

var (
	rsOnce   sync.Once
	rsBroken bool
	rsMsg    string
)

// renumberSelfBroken probes once whether the known defect (fd_renumber onto itself closes
// the file) is present on the tree under test; if so the generator leaves that class out.
func renumberSelfBroken() bool {
	if os.Getenv("C16_NO_EXCLUDE") != "" { // sensitivity runs only: let the search meet the finding
		return false
	}
	rsOnce.Do(func() {
		rsMsg = runHistory(renumberSelfCase)
		rsBroken = rsMsg != ""
	})
	return rsBroken
}

func TestRenumberSelf(t *testing.T) {
	if evid.ReplayPath() != "" {
		t.Skip()
	}
	if !evid.Mine(0) {
		t.Skip()
	}
	if renumberSelfBroken() {
		if evid.Finding("C16-renumber-self", "renumber-self", renumberSelfCase, "fd_renumber(fd, fd) is not a no-op: %s", rsMsg) {
			t.Errorf("fd_renumber(fd, fd) is not a no-op: %s", rsMsg)
		}
	} else {
		evid.Note("fd_renumber(fd, fd) is a no-op on this tree; the class is part of the generated histories")
	}
	evid.Bulk(1, 0, "renumber-self-probe")
}

// known finding: path_rename of a missing name onto itself reports success

var renameSameMissingCase = histCase{Kind: "history", NPre: 1, Steps: []step{
	{Op: "path_rename", FD: 3, Path: "a", To: 3, Path2: "a"},
}}

var (
	rmOnce   sync.Once
	rmBroken bool
	rmMsg    string
)

func renameSameMissingBroken() bool {
	if os.Getenv("C16_NO_EXCLUDE") != "" {
		return false
	}
	rmOnce.Do(func() {
		rmMsg = runHistory(renameSameMissingCase)
		rmBroken = rmMsg != ""
	})
	return rmBroken
}

func TestRenameSameMissing(t *testing.T) {
	if evid.ReplayPath() != "" {
		t.Skip()
	}
	if !evid.Mine(0) {
		t.Skip()
	}
	if renameSameMissingBroken() {
		if evid.Finding("C16-rename-same-missing", "rename-same-missing", renameSameMissingCase, "path_rename of a missing name onto itself does not fail: %s", rmMsg) {
			t.Errorf("path_rename of a missing name onto itself does not fail: %s", rmMsg)
		}
	} else {
		evid.Note("path_rename of a missing name onto itself fails on this tree; the class is part of the generated histories")
	}
	evid.Bulk(1, 0, "rename-same-missing-probe")
}

// runHistory executes a recorded history without rapid.
func runHistory(c histCase) string {
	w, err := newWorld(c.NPre, c.Mount, c.Seed...)
	if err != nil {
		return "harness: " + err.Error()
	}
	defer w.close()
	for _, s := range c.Steps {
		msg := w.apply(s)
		if msg == "desync" {
			return ""
		}
		if msg != "" {
			return msg
		}
	}
	return w.finish()
}

// finish audits the whole descriptor table, closes the guest and compares the trees.
func (w *world) finish() string {
	if msg := w.audit("at the end of the history", true); msg != "" {
		return msg
	}
	w.rt.Close(w.ctx)
	return w.finalCheck()
}

func runHistoryProp(t *rapid.T) {
	npre := rapid.SampledFrom([]int{1, 1, 1, 2}).Draw(t, "npre")
	// mount kind: most histories use the writable directory mount; the read-only fs.FS
	// mounts (other File implementation in wazero: fsFile) get a richer seed tree
	// (a MapFS is used by the readdir generator only: its files refuse offsets beyond EOF and
	// its lookups answer ENOENT below a file, which says nothing about wazero)
	mount := rapid.SampledFrom([]string{"dir", "dir", "dirfs", "dir", "seekfs", "dir", "dirfs", "dir", "seekfs", "dir"}).Draw(t, "mount")
	seed := genSeed(t, mount != "dir")
	w, err := newWorld(npre, mount, seed...)
	if err != nil {
		t.Fatalf("harness: %v", err)
	}
	defer w.close()
	n := rapid.IntRange(5, 40).Draw(t, "nsteps")
	if rapid.IntRange(0, 7).Draw(t, "many") == 7 {
		// a share of the histories holds many descriptors open so that the table grows past
		// 64, 128 and 192 entries
		w.many = true
		n = rapid.IntRange(70, 300).Draw(t, "manysteps")
	}
	cs := func() histCase {
		return histCase{Kind: "history", NPre: npre, Mount: mount, Seed: seed, Steps: w.steps}
	}
	for k := 0; k < n; k++ {
		s := w.genStep(t)
		msg := w.apply(s)
		if msg == "desync" {
			evid.Label("desync-stop", 1)
			break
		}
		if msg != "" {
			evid.Fail(t, cs(), "%s", msg)
		}
	}
	if msg := w.finish(); msg != "" {
		evid.Fail(t, cs(), "%s", msg)
	}
	nt := w.m.Reused || w.mixedIO || w.rewindListing
	var lbl []string
	if w.m.Reused {
		lbl = append(lbl, "hist-fd-number-reused")
	}
	if w.mixedIO {
		lbl = append(lbl, "hist-mixed-positional-sequential")
	}
	if w.rewindListing {
		lbl = append(lbl, "hist-multi-call-listing-after-rewind")
	}
	if w.unlinkedIO {
		lbl = append(lbl, "hist-io-on-unlinked-open-file")
	}
	if w.secondWord {
		lbl = append(lbl, "hist-fd-ge-64")
	}
	if npre == 2 {
		lbl = append(lbl, "hist-two-preopens")
	}
	if w.many {
		lbl = append(lbl, "hist-many-descriptors")
	}
	lbl = append(lbl, "hist-mount-"+mount)
	for _, lim := range []int{64, 128, 192} {
		if w.maxOpen > lim {
			lbl = append(lbl, fmt.Sprintf("hist-more-than-%d-open-at-once", lim))
		}
	}
	b, _ := json.Marshal(cs())
	evid.Case(evid.Hash64("history", string(b)), nt, lbl...)
	if nt {
		evid.Sample("history", 2, cs())
	}
}

func TestHistory(t *testing.T) {
	if evid.ReplayPath() != "" {
		t.Skip()
	}
	evid.Check(t, "history", evid.Scale(6000, 400000), runHistoryProp)
}

func TestReplay(t *testing.T) {
	p := evid.ReplayPath()
	if p == "" {
		t.Skip()
	}
	var k struct {
		Kind string `json:"kind"`
	}
	if _, err := evid.LoadReplay(p, &k); err != nil {
		t.Fatal(err)
	}
	var msg string
	var cs any
	switch k.Kind {
	case "readdir":
		var c rdCase
		if _, err := evid.LoadReplay(p, &c); err != nil {
			t.Fatal(err)
		}
		cs, msg = c, runReaddir(c)
	default:
		var c histCase
		if _, err := evid.LoadReplay(p, &c); err != nil {
			t.Fatal(err)
		}
		if c.NPre < 1 {
			c.NPre = 1
		}
		cs, msg = c, runHistory(c)
	}
	if msg != "" {
		evid.Violation("replay", cs, "%s", msg)
		t.Fatal(msg)
	}
}
