// Dedicated fd_readdir generator of C16: directory sizes 0-60, name lengths 1-200, buffer
// lengths 24-4096 (including 24, 25, exact fits and one-short), cookie sequences that follow
// the protocol (continue from the d_next of the last entry fully received, or of any entry
// of the most recent response, or re-issue the previous cookie after discarding the whole
// response), rewinds (cookie 0) at arbitrary points and directory mutations.
//
// Oracle: the entries consumed from a rewind to the response with bufused < buf_len are ".",
// ".." and each directory entry exactly once (multiset), d_namlen/d_type are right, a
// truncated entry is announced by bufused == buf_len and served again from its cookie. A
// pass during which the directory was mutated is only checked for well-formedness and for
// not inventing names (POSIX leaves visibility of concurrent changes unspecified).
package c16

import (
	"encoding/json"
	"fmt"
	"os"
	"path/filepath"
	"sort"
	"strings"
	"testing"

	"pgregory.net/rapid"

	"verif/internal/evid"
)

type dent struct {
	Next   uint64 `json:"next"`
	Namlen uint32 `json:"namlen"`
	Type   uint32 `json:"type"`
	Name   string `json:"name"`
}

type rdResp struct {
	Errno    uint32
	Used     uint32
	Ents     []dent
	Trunc    bool  // bytes of an incomplete entry follow the complete ones
	TruncHdr *dent // its header when all 24 bytes of it are inside bufused
}

// readdirCall issues one fd_readdir and parses the buffer the way a guest (wasi-libc) does.
func (w *world) readdirCall(fd int32, buflen uint32, cookie uint64) (rdResp, string) {
	var r rdResp
	fill := make([]byte, buflen+64)
	for i := range fill {
		fill[i] = 0xAA
	}
	w.p.Mem.Write(memDir, fill)
	w.p.Mem.WriteUint32Le(memRes, 0xdeadbeef)
	errno, msg := w.call("fd_readdir", uint64(uint32(fd)), memDir, uint64(buflen), cookie, memRes)
	if msg != "" {
		return r, msg
	}
	r.Errno = errno
	if errno != 0 {
		return r, ""
	}
	r.Used = w.u32(memRes)
	if r.Used > buflen {
		return r, fmt.Sprintf("fd_readdir(buf_len=%d, cookie=%d) reports bufused=%d > buf_len", buflen, cookie, r.Used)
	}
	buf, _ := w.p.Mem.Read(memDir, r.Used)
	pos := uint32(0)
	for pos < r.Used {
		left := r.Used - pos
		if left < 24 {
			r.Trunc = true
			break
		}
		h := buf[pos:]
		e := dent{Next: le64(h), Namlen: le32(h[16:]), Type: le32(h[20:])}
		if uint64(24)+uint64(e.Namlen) > uint64(left) {
			r.Trunc = true
			r.TruncHdr = &e
			break
		}
		e.Name = string(h[24 : 24+e.Namlen])
		r.Ents = append(r.Ents, e)
		pos += 24 + e.Namlen
	}
	if r.Trunc && r.Used < buflen {
		return r, fmt.Sprintf("fd_readdir(buf_len=%d, cookie=%d): bufused=%d < buf_len announces the end of the directory, but the buffer ends with an incomplete entry", buflen, cookie, r.Used)
	}
	return r, ""
}

func le32(b []byte) uint32 {
	return uint32(b[0]) | uint32(b[1])<<8 | uint32(b[2])<<16 | uint32(b[3])<<24
}
func le64(b []byte) uint64 { return uint64(le32(b)) | uint64(le32(b[4:]))<<32 }

// listAll reads a directory from cookie 0 to its end the way wasi-libc's readdir does:
// continue from the d_next of the last complete entry, grow the buffer when not even one
// entry fits.
func (w *world) listAll(fd int32, buflen uint32) (ents []dent, calls int, errno uint32, msg string) {
	cookie := uint64(0)
	for {
		calls++
		if calls > 400 {
			return ents, calls, 0, "listing does not terminate (400 calls)"
		}
		r, msg := w.readdirCall(fd, buflen, cookie)
		if msg != "" {
			return ents, calls, 0, msg
		}
		if r.Errno != 0 {
			if calls > 1 {
				return ents, calls, 0, fmt.Sprintf("fd_readdir failed with %s when continuing from cookie %d returned by the previous call", errnoName(r.Errno), cookie)
			}
			return nil, calls, r.Errno, ""
		}
		for _, e := range r.Ents {
			ents = append(ents, e)
			cookie = e.Next
		}
		if r.Used < buflen {
			return ents, calls, 0, ""
		}
		if len(r.Ents) == 0 {
			if r.TruncHdr != nil && r.TruncHdr.Namlen <= 4096 {
				buflen = 24 + r.TruncHdr.Namlen
			} else if buflen < 8192 {
				buflen *= 2
			} else {
				return ents, calls, 0, "no entry fits into 8192 bytes"
			}
		}
	}
}

// ---------------------------------------------------------------------------------------

type rdStep struct {
	Op     string `json:"op"` // read | add | del
	Buf    uint32 `json:"buf,omitempty"`
	Cookie string `json:"cookie,omitempty"` // rewind | continue | entry | repeat
	K      int    `json:"k,omitempty"`      // entry: index into the complete entries of the last response
	Name   string `json:"name,omitempty"`
	Dir    bool   `json:"dir,omitempty"`
}

type rdCase struct {
	Kind  string   `json:"kind"`
	Mount string   `json:"mount,omitempty"` // as histCase.Mount; on fs.FS mounts the directory is mutated behind the mount
	Sub   bool     `json:"sub"`             // the directory is "d" below the mount, opened with path_open; else the pre-open itself
	Names []string `json:"names"`
	Dirs  []bool   `json:"dirs"`
	Steps []rdStep `json:"steps"`
}

type rdWorld struct {
	*world
	fd      int32
	hostDir string
	sub     string          // "d/" when the directory is the sub-directory d of the mount
	set     map[string]bool // current entries: name -> is dir
	steps   []rdStep

	seq        []dent // entries consumed in the current pass
	lastStart  int    // index in seq where the most recent response's entries start
	lastN      int    // number of complete entries of the most recent response
	prevCookie uint64
	reads      int
	passCalls  int
	rewound    bool // the current pass began with a cookie-0 call after earlier reads
	tainted    bool // the directory changed during the current pass
	eof        bool
	removed    map[string]bool   // names removed during the current pass
	seenNext   map[uint64]string // d_next -> name within the current pass
	pendTrunc  uint32            // d_namlen of the truncated header that ended the last response (0 = none)
	mustGrow   uint32            // minimal buffer that makes progress after an empty full response

	cleanMulti bool // a clean pass needing >= 2 calls after an explicit rewind completed
	passes     int
}

func newRdWorld(c rdCase) (*rdWorld, string) {
	w, err := newWorld(1, c.Mount)
	if err != nil {
		return nil, "harness: " + err.Error()
	}
	r := &rdWorld{world: w, set: map[string]bool{}, removed: map[string]bool{}, seenNext: map[uint64]string{}}
	r.hostDir = w.dirs[0]
	if c.Sub {
		r.hostDir = filepath.Join(w.dirs[0], "d")
		r.sub = "d/"
		if err := w.hostCreate(0, "d", true, ""); err != nil {
			w.close()
			return nil, "harness: " + err.Error()
		}
	}
	for i, n := range c.Names {
		isDir := i < len(c.Dirs) && c.Dirs[i]
		if err := w.hostCreate(0, r.sub+n, isDir, "x"); err != nil {
			w.close()
			return nil, "harness: " + err.Error()
		}
		r.set[n] = isDir
	}
	r.fd = 3
	if c.Sub {
		pa, pl := w.putPath(memPath1, "d")
		errno, msg := w.call("path_open", 3, 0, pa, pl, oDir, rightRead, rightRead, 0, memRes)
		if msg != "" || errno != 0 {
			w.close()
			return nil, fmt.Sprintf("harness: opening the directory failed: errno=%d %s", errno, msg)
		}
		r.fd = int32(w.u32(memRes))
	}
	return r, ""
}

func (r *rdWorld) guestPath(name string) string {
	if r.fd != 3 {
		return "d/" + name
	}
	return name
}

// cookieFor resolves a symbolic cookie choice against the current state: it returns the
// cookie to pass and the length seq is cut back to (entries after it are discarded by the
// guest).
func (r *rdWorld) cookieFor(choice string, k int) (cookie uint64, keep int) {
	switch choice {
	case "rewind":
		return 0, 0
	case "repeat":
		keep = r.lastStart
	case "entry":
		if r.lastN > 0 {
			keep = r.lastStart + (k%r.lastN+r.lastN)%r.lastN + 1
		} else {
			keep = len(r.seq)
		}
	default:
		keep = len(r.seq)
	}
	if keep > len(r.seq) {
		keep = len(r.seq)
	}
	if keep == 0 {
		return 0, 0
	}
	return r.seq[keep-1].Next, keep
}

func (r *rdWorld) startPass() {
	r.seq = nil
	r.lastStart, r.lastN = 0, 0
	r.passCalls = 0
	r.tainted = false
	r.eof = false
	r.removed = map[string]bool{}
	r.seenNext = map[uint64]string{}
	r.pendTrunc = 0
	r.rewound = r.reads > 0
}

func (r *rdWorld) apply(s rdStep) string {
	r.steps = append(r.steps, s)
	switch s.Op {
	case "add":
		if _, dup := r.set[s.Name]; dup || s.Name == "" || r.mount == "mapfs" {
			return "" // a MapFS directory handle is a snapshot taken at open: no mutations there
		}
		if r.m.ReadOnly {
			if err := r.hostCreate(0, r.sub+s.Name, s.Dir, "x"); err != nil {
				return "harness: " + err.Error()
			}
			r.set[s.Name] = s.Dir
			if r.passCalls > 0 {
				r.tainted = true
			}
			return ""
		}
		pa, pl := r.putPath(memPath1, r.guestPath(s.Name))
		var errno uint32
		var msg string
		if s.Dir {
			errno, msg = r.call("path_create_directory", 3, pa, pl)
		} else {
			errno, msg = r.call("path_open", 3, 0, pa, pl, oCreat|oExcl, rightWrite, rightWrite, 0, memRes)
			if msg == "" && errno == 0 {
				errno, msg = r.call("fd_close", uint64(r.u32(memRes)))
			}
		}
		if msg != "" {
			return msg
		}
		if errno != 0 {
			return fmt.Sprintf("creating %q in the directory failed with %s", s.Name, errnoName(errno))
		}
		r.set[s.Name] = s.Dir
		if r.passCalls > 0 {
			r.tainted = true // the pass in progress (or resumed later from its cookies) may or may not see it
		}
	case "del":
		isDir, found := r.set[s.Name]
		if !found || r.mount == "mapfs" {
			return ""
		}
		if r.m.ReadOnly {
			if err := r.hostRemove(0, r.sub+s.Name); err != nil {
				return "harness: " + err.Error()
			}
			delete(r.set, s.Name)
			r.removed[s.Name] = true
			if r.passCalls > 0 {
				r.tainted = true
			}
			return ""
		}
		pa, pl := r.putPath(memPath1, r.guestPath(s.Name))
		op := "path_unlink_file"
		if isDir {
			op = "path_remove_directory"
		}
		errno, msg := r.call(op, 3, pa, pl)
		if msg != "" {
			return msg
		}
		if errno != 0 {
			return fmt.Sprintf("removing %q from the directory failed with %s", s.Name, errnoName(errno))
		}
		delete(r.set, s.Name)
		r.removed[s.Name] = true
		if r.passCalls > 0 {
			r.tainted = true
		}
	case "read":
		return r.read(s)
	}
	return ""
}

func (r *rdWorld) read(s rdStep) string {
	if s.Buf < 24 {
		return ""
	}
	cookie, keep := r.cookieFor(s.Cookie, s.K)
	continuing := keep == len(r.seq) && cookie != 0
	if cookie == 0 {
		r.startPass()
	} else {
		if keep < len(r.seq) {
			evid.Label("rd-discarded-entries", 1)
			if r.eof {
				// going back to an earlier cookie of the finished pass resumes it
				r.eof = false
				evid.Label("rd-resumed-after-eof", 1)
			}
		}
		r.seq = r.seq[:keep]
	}
	afterEOF := r.eof
	resp, msg := r.readdirCall(r.fd, s.Buf, cookie)
	where := fmt.Sprintf("fd_readdir(buf_len=%d, cookie=%d [%s])", s.Buf, cookie, s.Cookie)
	if msg != "" {
		return msg
	}
	if resp.Errno != 0 {
		return fmt.Sprintf("%s failed with %s although the cookie follows the protocol (0, or d_next of an entry of the pass in progress)", where, errnoName(resp.Errno))
	}
	r.reads++
	r.passCalls++
	r.prevCookie = cookie
	r.lastStart = len(r.seq)
	r.lastN = len(resp.Ents)
	if afterEOF {
		// reads after the end of a pass: only well-formedness (already checked by the parser)
		evid.Label("rd-read-after-eof", 1)
		r.seq = append(r.seq, resp.Ents...)
		r.pendTrunc, r.mustGrow = 0, 0
		return ""
	}
	for i, e := range resp.Ents {
		wantT, known := uint32(ftFile), false
		switch {
		case e.Name == "." || e.Name == "..":
			wantT, known = ftDir, true
		default:
			if d, found := r.set[e.Name]; found {
				known = true
				if d {
					wantT = ftDir
				}
			}
		}
		if !known && !(r.tainted && r.removed[e.Name]) {
			return fmt.Sprintf("%s returned an entry %q (d_namlen=%d) that is not in the directory", where, clip(e.Name), e.Namlen)
		}
		if known && e.Type != wantT {
			return fmt.Sprintf("%s returned d_type=%d for %q, want %d", where, e.Type, clip(e.Name), wantT)
		}
		if prev, dup := r.seenNext[e.Next]; dup && prev != e.Name && !r.tainted {
			return fmt.Sprintf("%s: d_next=%d was handed out for %q and now for %q in the same pass", where, e.Next, clip(prev), clip(e.Name))
		}
		r.seenNext[e.Next] = e.Name
		if i == 0 && continuing && r.pendTrunc != 0 && !r.tainted && e.Namlen != r.pendTrunc {
			return fmt.Sprintf("%s: the previous response ended with a truncated entry of d_namlen=%d; continuing from the same cookie serves an entry of d_namlen=%d first (the truncated entry was skipped)", where, r.pendTrunc, e.Namlen)
		}
	}
	r.seq = append(r.seq, resp.Ents...)
	r.pendTrunc, r.mustGrow = 0, 0
	if resp.Used == s.Buf {
		switch {
		case resp.TruncHdr != nil:
			evid.Label("rd-truncated-with-header", 1)
			if resp.TruncHdr.Namlen == 0 || resp.TruncHdr.Namlen > 255 {
				return fmt.Sprintf("%s: header of the truncated last entry has d_namlen=%d", where, resp.TruncHdr.Namlen)
			}
			r.pendTrunc = resp.TruncHdr.Namlen
		case resp.Trunc:
			evid.Label("rd-truncated-partial-header", 1)
		case len(resp.Ents) > 0:
			evid.Label("rd-exact-fit", 1)
		}
		if len(resp.Ents) == 0 {
			evid.Label("rd-full-without-complete-entry", 1)
			r.mustGrow = 24 + 200
			if resp.TruncHdr != nil {
				r.mustGrow = 24 + resp.TruncHdr.Namlen
			}
		}
		return ""
	}
	// bufused < buf_len: end of the directory
	r.eof = true
	r.passes++
	if r.tainted {
		evid.Label("rd-pass-complete-tainted", 1)
		return ""
	}
	evid.Label("rd-pass-complete-clean", 1)
	want := []string{".", ".."}
	for n := range r.set {
		want = append(want, n)
	}
	var got []string
	for _, e := range r.seq {
		got = append(got, e.Name)
	}
	sort.Strings(want)
	sort.Strings(got)
	if strings.Join(want, "\x00") != strings.Join(got, "\x00") {
		return fmt.Sprintf("%s ended the pass (bufused=%d < buf_len) after %d calls; the entries consumed since the rewind are not '.', '..' and each directory entry exactly once: %s", where, resp.Used, r.passCalls, diffNames(want, got))
	}
	if r.passCalls >= 2 {
		evid.Label("rd-clean-pass-multi-call", 1)
		if r.rewound {
			r.cleanMulti = true
		}
	}
	return ""
}

func clip(s string) string {
	if len(s) > 24 {
		return fmt.Sprintf("%s...(%d bytes)", s[:12], len(s))
	}
	return s
}

func diffNames(want, got []string) string {
	cnt := map[string]int{}
	for _, n := range want {
		cnt[n]++
	}
	for _, n := range got {
		cnt[n]--
	}
	var keys []string
	for k := range cnt {
		keys = append(keys, k)
	}
	sort.Strings(keys)
	var missing, extra []string
	for _, k := range keys {
		switch {
		case cnt[k] > 0:
			missing = append(missing, clip(k))
		case cnt[k] < 0:
			extra = append(extra, fmt.Sprintf("%s(x%d too many)", clip(k), -cnt[k]))
		}
	}
	if len(missing) > 8 {
		missing = append(missing[:8], "...")
	}
	if len(extra) > 8 {
		extra = append(extra[:8], "...")
	}
	return fmt.Sprintf("missing %v, surplus %v (directory has %d entries)", missing, extra, len(want)-2)
}

func runReaddir(c rdCase) string {
	r, msg := newRdWorld(c)
	if msg != "" {
		return msg
	}
	defer r.close()
	for _, s := range c.Steps {
		if msg := r.apply(s); msg != "" {
			return msg
		}
	}
	return ""
}

// ---------------------------------------------------------------------------------------
// generator

var lenChoices = []int{1, 1, 2, 3, 5, 8, 13, 30, 64, 100, 150, 199, 200}

func mkName(idx, length int) string {
	p := fmt.Sprintf("%x", idx)
	if len(p) >= length {
		return p[len(p)-length:]
	}
	return p + strings.Repeat("n", length-len(p))
}

func genNames(t *rapid.T, n int, taken map[string]bool) (names []string, dirs []bool) {
	for i := 0; i < n; i++ {
		l := rapid.SampledFrom(lenChoices).Draw(t, "namelen")
		if rapid.IntRange(0, 3).Draw(t, "anylen") == 0 {
			l = rapid.IntRange(1, 200).Draw(t, "namelen2")
		}
		nm := mkName(i+len(taken), l)
		for k := 0; taken[nm] && k < 8; k++ {
			l++
			nm = mkName(i+len(taken), l)
		}
		if taken[nm] || len(nm) > 200 {
			continue
		}
		taken[nm] = true
		names = append(names, nm)
		dirs = append(dirs, rapid.IntRange(0, 3).Draw(t, "isdir") == 0)
	}
	return
}

// upcoming predicts the sizes of the entries the next response starts with (host directory
// order; "." and ".." first), used only to aim buffer lengths at exact fits.
func (r *rdWorld) upcoming(pos int) []int {
	sizes := []int{25, 26}
	if r.mount == "mapfs" {
		var ns []string
		for n := range r.set {
			ns = append(ns, n)
		}
		sort.Strings(ns)
		for _, n := range ns {
			sizes = append(sizes, 24+len(n))
		}
	} else if f, err := os.Open(r.hostDir); err == nil {
		ns, _ := f.Readdirnames(-1)
		f.Close()
		for _, n := range ns {
			sizes = append(sizes, 24+len(n))
		}
	}
	if pos >= len(sizes) {
		return nil
	}
	return sizes[pos:]
}

func (r *rdWorld) genStep(t *rapid.T) rdStep {
	kind := rapid.IntRange(0, 19).Draw(t, "kind")
	midPass := r.passCalls > 0 && !r.eof
	switch {
	case r.mount == "mapfs":
		// no mutations behind a MapFS
	case kind == 0 || (kind == 1 && !midPass):
		var cur []string
		for n := range r.set {
			cur = append(cur, n)
		}
		sort.Strings(cur)
		if len(cur) > 0 && rapid.Bool().Draw(t, "del") {
			return rdStep{Op: "del", Name: rapid.SampledFrom(cur).Draw(t, "victim")}
		}
		taken := map[string]bool{}
		for _, n := range cur {
			taken[n] = true
		}
		for n := range r.removed {
			taken[n] = true
		}
		ns, ds := genNames(t, 1, taken)
		if len(ns) == 1 {
			if midPass {
				evid.Label("rd-mutation-mid-pass", 1)
			}
			return rdStep{Op: "add", Name: ns[0], Dir: ds[0]}
		}
	}
	// a read
	choice := "continue"
	k := 0
	c := rapid.IntRange(0, 19).Draw(t, "cookiechoice")
	switch {
	case r.reads == 0 || r.eof && c < 14:
		choice = "rewind"
	case c == 0:
		choice = "rewind"
	case c == 1:
		choice = "repeat"
	case c <= 4 && r.lastN > 0:
		choice = "entry"
		k = rapid.IntRange(0, r.lastN-1).Draw(t, "k")
	}
	_, keep := r.cookieFor(choice, k)
	up := r.upcoming(keep)
	var buf uint32
	b := rapid.IntRange(0, 19).Draw(t, "bufkind")
	switch {
	case b <= 5 && len(up) > 0:
		// exact fit of the next n entries, one short, one over, or header-only of the last
		n := rapid.IntRange(1, min(len(up), 5)).Draw(t, "fitn")
		sum := 0
		for _, s := range up[:n] {
			sum += s
		}
		sum += rapid.SampledFrom([]int{0, 0, -1, -1, 1, -2}).Draw(t, "delta")
		if n < len(up) && rapid.IntRange(0, 3).Draw(t, "hdr") == 0 {
			sum += rapid.SampledFrom([]int{23, 24, 25}).Draw(t, "hdrdelta")
		}
		buf = uint32(max(sum, 24))
	case b == 6:
		buf = 24
	case b == 7:
		buf = 25
	case b <= 12:
		buf = uint32(rapid.IntRange(24, 300).Draw(t, "buf"))
	case b <= 16:
		buf = uint32(rapid.IntRange(24, 1200).Draw(t, "buf"))
	default:
		buf = uint32(rapid.IntRange(24, 4096).Draw(t, "buf"))
	}
	if buf > 4096 {
		buf = 4096
	}
	// a guest that received no complete entry re-reads with a buffer that fits the entry
	if choice != "rewind" && r.mustGrow != 0 && r.lastN == 0 && buf < r.mustGrow {
		buf = r.mustGrow
	}
	if choice == "rewind" && len(up) > 0 && int(buf) < up[0] {
		// keep rewound passes able to progress: "." needs 25 bytes
		if rapid.IntRange(0, 2).Draw(t, "tiny") != 0 {
			buf = uint32(up[0])
		}
	}
	return rdStep{Op: "read", Buf: buf, Cookie: choice, K: k}
}

func runReaddirProp(t *rapid.T) {
	var n int
	switch rapid.IntRange(0, 9).Draw(t, "sizeclass") {
	case 0:
		n = 0
	case 1, 2, 3:
		n = rapid.IntRange(1, 6).Draw(t, "n")
	case 4, 5, 6:
		n = rapid.IntRange(7, 25).Draw(t, "n")
	default:
		n = rapid.IntRange(26, 60).Draw(t, "n")
	}
	c := rdCase{Kind: "readdir", Sub: rapid.Bool().Draw(t, "sub")}
	c.Mount = rapid.SampledFrom([]string{"dir", "dirfs", "dir", "mapfs", "dir", "dirfs"}).Draw(t, "mount")
	c.Names, c.Dirs = genNames(t, n, map[string]bool{})
	r, msg := newRdWorld(c)
	if msg != "" {
		t.Fatalf("%s", msg)
	}
	defer r.close()
	steps := rapid.IntRange(4, 60).Draw(t, "nsteps")
	for k := 0; k < steps; k++ {
		s := r.genStep(t)
		if msg := r.apply(s); msg != "" {
			c.Steps = r.steps
			evid.Fail(t, c, "%s", msg)
		}
	}
	c.Steps = r.steps
	var lbl []string
	if r.passes > 0 {
		lbl = append(lbl, "rd-scenario-with-complete-pass")
	}
	if r.cleanMulti {
		lbl = append(lbl, "rd-scenario-multi-call-pass-after-rewind")
	}
	switch {
	case len(c.Names) == 0:
		lbl = append(lbl, "rd-dir-empty")
	case len(c.Names) <= 6:
		lbl = append(lbl, "rd-dir-1-6")
	case len(c.Names) <= 25:
		lbl = append(lbl, "rd-dir-7-25")
	default:
		lbl = append(lbl, "rd-dir-26-60")
	}
	lbl = append(lbl, "rd-mount-"+c.Mount)
	b, _ := json.Marshal(c)
	evid.Case(evid.Hash64("readdir", string(b)), r.cleanMulti, lbl...)
	if r.cleanMulti && evid.WantSample("readdir", 2) {
		var first []string
		for i := 0; i < len(c.Names) && i < 8; i++ {
			first = append(first, clip(c.Names[i]))
		}
		evid.Sample("readdir", 2, map[string]any{"entries": len(c.Names), "first_names": first, "sub": c.Sub, "steps": c.Steps})
	}
}

func TestReaddir(t *testing.T) {
	if evid.ReplayPath() != "" {
		t.Skip()
	}
	evid.Check(t, "readdir", evid.Scale(3600, 240000), runReaddirProp)
}
