package c06

import (
	"context"
	"fmt"
	"runtime"
	"runtime/debug"
	"sync"
	"testing"

	"github.com/tetratelabs/wazero"
	"github.com/tetratelabs/wazero/api"
	"pgregory.net/rapid"

	"verif/internal/evid"
	e "verif/internal/wasmenc"
	"verif/internal/wz"
)

// Frame shapes: a recursive guest function whose frame size (locals kept live across its calls)
// and whose outgoing argument area (a callee taking many parameters) are drawn, called to drawn
// depths up to stack exhaustion. How much stack a function needs - frame AND the area for the
// arguments of its calls - decides when the engine must grow the stack or report exhaustion;
// getting it wrong lets an aborted or deep call write outside of the stack.
//
// Oracle: every call returns the value computed by a Go model of the function, or - beyond the
// depth every engine must manage - the contained stack-overflow error; the same function object
// and fresh ones keep working afterwards; and no memory outside of the stack changed: blocks of
// known content are allocated right before the points at which the engine allocates stacks (with
// the collector off, so that they end up as the stack's neighbours) and are verified afterwards.

// FrameCase is a replayable frame-shape experiment.
type FrameCase struct {
	Engine string `json:"engine"`
	Locals int    `json:"locals"` // i64 locals of the recursive function, all live across its calls
	Params int    `json:"params"` // parameters of the function it calls
	PType  string `json:"ptype"`  // "i64" | "f64" | "v128"
	// Depths: recursion depth of each call in order; -1 = without bound (must end in stack overflow)
	Depths []int `json:"depths"`
	Fresh  bool  `json:"fresh"` // a fresh api.Function per call (initial small stack) or the same one
	// Bottom: the big frame (locals, argument area) exists only at the bottom of the recursion; the
	// recursive function itself has a small frame of Small live i64 locals. The big frame is then
	// entered on a stack filled to a drawn level by small frames.
	Bottom bool `json:"bottom,omitempty"`
	Small  int  `json:"small,omitempty"`
}

func frameConst(i int) uint64 { return uint64(i)*0x0101010101 + 0x7f00000000000001 }

// manyIdx: the parameters `many` adds up.
func manyIdx(p int) []int {
	if p == 0 {
		return nil
	}
	return []int{0, p - 1, p / 2}
}

// buildFrames:
//
//	(func $many (param T x P) (result i64)   sum of lane/bits of params manyIdx)
//	(func $rec (export "rec") (param $n i32) (result i64)
//	   l[i] = n + frameConst(i)         for all L locals
//	   call env.mark
//	   acc = many(1, 2, .., P)
//	   if n != 0: acc += rec(n-1)
//	   return acc + sum l[i])
func buildFrames(c *FrameCase) []byte {
	m := &e.Module{}
	mark := m.ImportFunc("env", "mark", nil, nil)
	pt := map[string]byte{"i64": e.I64, "f64": e.F64, "v128": e.V128}[c.PType]
	if pt == 0 {
		pt = e.I64
	}
	params := make([]byte, c.Params)
	for i := range params {
		params[i] = pt
	}
	toI64 := func(b *e.B) {
		switch pt {
		case e.F64:
			b.Raw(e.OpI64ReinterpretF64)
		case e.V128:
			b.FD(0x1d, 0) // i64x2.extract_lane 0
		}
	}
	mb := e.NewB().I64Const(0)
	for _, i := range manyIdx(c.Params) {
		mb.LocalGet(uint32(i))
		toI64(mb)
		mb.Raw(e.OpI64Add)
	}
	many := m.AddFunc(params, []byte{e.I64}, nil, mb.Bytes())
	if c.Bottom {
		// (func $big (result i64)  l[i] = frameConst(i); mark; acc = many(..); return acc + sum l[i])
		// (func $rec (param $n i32) (result i64)
		//    s[j] = n + j; r = n == 0 ? big() : rec(n-1); return r + sum s[j])
		big, rec := many+1, many+2
		b := e.NewB()
		acc := uint32(c.Locals)
		for i := 1; i <= c.Locals; i++ {
			b.I64Const(int64(frameConst(i))).LocalSet(uint32(i - 1))
		}
		b.Call(mark)
		pushArgs(b, c.Params, pt)
		b.Call(many).LocalSet(acc)
		b.LocalGet(acc)
		for i := 1; i <= c.Locals; i++ {
			b.LocalGet(uint32(i - 1)).Raw(e.OpI64Add)
		}
		locals := make([]byte, c.Locals+1)
		for i := range locals {
			locals[i] = e.I64
		}
		m.AddFunc(nil, []byte{e.I64}, locals, b.Bytes())
		b = e.NewB()
		racc := uint32(c.Small + 1)
		for j := 1; j <= c.Small; j++ {
			b.LocalGet(0).Raw(e.OpI64ExtendI32U).I64Const(int64(j)).Raw(e.OpI64Add).LocalSet(uint32(j))
		}
		b.LocalGet(0).If(e.I64).LocalGet(0).I32Const(1).Raw(e.OpI32Sub).Call(rec).Else().Call(big).End().LocalSet(racc)
		b.LocalGet(racc)
		for j := 1; j <= c.Small; j++ {
			b.LocalGet(uint32(j)).Raw(e.OpI64Add)
		}
		locals = make([]byte, c.Small+1)
		for i := range locals {
			locals[i] = e.I64
		}
		if idx := m.AddFunc([]byte{e.I32}, []byte{e.I64}, locals, b.Bytes()); idx != rec {
			panic("index plan")
		}
		m.ExportFunc("rec", rec)
		return m.Encode()
	}
	rec := many + 1
	b := e.NewB()
	acc := uint32(c.Locals + 1)
	for i := 1; i <= c.Locals; i++ {
		b.LocalGet(0).Raw(e.OpI64ExtendI32U).I64Const(int64(frameConst(i))).Raw(e.OpI64Add).LocalSet(uint32(i))
	}
	b.Call(mark)
	pushArgs(b, c.Params, pt)
	b.Call(many).LocalSet(acc)
	b.LocalGet(0).If()
	b.LocalGet(0).I32Const(1).Raw(e.OpI32Sub).Call(rec).LocalGet(acc).Raw(e.OpI64Add).LocalSet(acc)
	b.End()
	b.LocalGet(acc)
	for i := 1; i <= c.Locals; i++ {
		b.LocalGet(uint32(i)).Raw(e.OpI64Add)
	}
	locals := make([]byte, c.Locals+1)
	for i := range locals {
		locals[i] = e.I64
	}
	if idx := m.AddFunc([]byte{e.I32}, []byte{e.I64}, locals, b.Bytes()); idx != rec {
		panic("index plan")
	}
	m.ExportFunc("rec", rec)
	return m.Encode()
}

func pushArgs(b *e.B, n int, pt byte) {
	for j := 1; j <= n; j++ {
		switch pt {
		case e.F64:
			b.F64Const(uint64(j))
		case e.V128:
			b.V128Const(uint64(j), 0xeeeeeeeeeeeeeeee)
		default:
			b.I64Const(int64(j))
		}
	}
}

func framesExpected(c *FrameCase, n uint32) (ret uint64) {
	var manyRes uint64
	for _, i := range manyIdx(c.Params) {
		manyRes += uint64(i + 1)
	}
	var consts uint64
	for i := 1; i <= c.Locals; i++ {
		consts += frameConst(i)
	}
	if c.Bottom {
		ret = consts + manyRes
		for k := uint64(0); k <= uint64(n); k++ {
			ret += uint64(c.Small)*k + uint64(c.Small*(c.Small+1)/2)
		}
		return ret
	}
	for ; ; n-- {
		ret += consts + uint64(c.Locals)*uint64(n) + manyRes
		if n == 0 {
			return
		}
	}
}

const canaryVal = 0xa5a5a5a5a5a5a5a5

var canarySizes = []int{2 << 10, 4 << 10, 8 << 10, 16 << 10} // in uint64: 16, 32, 64, 128 KiB

type canaries struct {
	blocks [][]uint64
	seeded [][]byte // blocks with a freed hole of the same size class right above each of them
}

// holeSizes: the small-object size classes from 8 KiB up (a grown stack is a []byte of some such
// size, and within a size class objects are neighbours) and some large-object sizes.
var holeSizes = []int{8192, 9472, 9728, 10240, 10880, 12288, 13568, 14336, 16384, 18432, 19072, 20480, 21760, 24576, 27264, 28672, 32768,
	40 << 10, 48 << 10, 64 << 10, 80 << 10, 96 << 10, 128 << 10, 160 << 10}

// seed fills the heap with blocks of known content of the sizes stacks get while growing and
// frees every other one: a stack that is allocated into one of the holes has such a block right
// below it. Must be followed by a collection (the caller runs one before switching it off).
func (cs *canaries) seed() {
	for _, size := range holeSizes {
		var blocks [][]byte
		for i := 0; i < 12; i++ {
			b := make([]byte, size)
			for j := range b {
				b[j] = 0xa5
			}
			blocks = append(blocks, b)
		}
		for i := 0; i < len(blocks); i += 2 {
			cs.seeded = append(cs.seeded, blocks[i])
		}
	}
}

var canaryRef = func() []byte {
	b := make([]byte, 160<<10)
	for i := range b {
		b[i] = 0xa5
	}
	return b
}()

func (cs *canaries) checkSeeded() string {
	for _, b := range cs.seeded {
		if string(b) == string(canaryRef[:len(b)]) {
			continue
		}
		for j, v := range b {
			if v != 0xa5 {
				return fmt.Sprintf("Go heap memory outside of the call engine's stack was overwritten: byte %d (%d before the end) of a %d byte block is %#x", j, len(b)-j, len(b), v)
			}
		}
	}
	return ""
}

func (cs *canaries) add(n int) {
	for i := 0; i < n; i++ {
		b := make([]uint64, canarySizes[(len(cs.blocks)+i)%len(canarySizes)])
		for j := range b {
			b[j] = canaryVal
		}
		cs.blocks = append(cs.blocks, b)
	}
}

func (cs *canaries) check() string {
	for i, b := range cs.blocks {
		for j, v := range b {
			if v != canaryVal {
				return fmt.Sprintf("Go heap memory outside of the call engine's stack was overwritten: word %d of a %d KiB block allocated next to it is %#x", j, len(b)*8>>10, v)
			}
		}
		_ = i
	}
	cs.blocks = cs.blocks[:0]
	return ""
}

var (
	frameCacheMu sync.Mutex
	frameCaches  = map[string]wazero.CompilationCache{}
)

func frameCache(engine string) wazero.CompilationCache {
	frameCacheMu.Lock()
	defer frameCacheMu.Unlock()
	if frameCaches[engine] == nil {
		frameCaches[engine] = wazero.NewCompilationCache()
	}
	return frameCaches[engine]
}

// safeDepth: up to this depth every call must succeed (at most 3000 i64 locals + 1000 v128
// arguments per level: 40 KiB x 33 levels is far below the limits of either engine).
const safeDepth = 32

func runFrames(c *FrameCase) (msg string) {
	if c.Locals < 0 || c.Locals > 4000 || c.Params < 0 || c.Params > 1000 {
		return ""
	}
	ctx := context.Background()
	rt := wazero.NewRuntimeWithConfig(ctx, wz.Config(c.Engine).WithCompilationCache(frameCache(c.Engine)))
	defer rt.Close(ctx)
	var cs canaries
	marks := 0
	_, err := rt.NewHostModuleBuilder("env").NewFunctionBuilder().
		WithGoFunction(api.GoFunc(func(context.Context, []uint64) {
			// right before the call that needs the big argument area (and possibly a bigger stack)
			if marks < 48 {
				marks++
				cs.add(2)
			}
		}), nil, nil).Export("mark").Instantiate(ctx)
	if err != nil {
		return "harness: " + err.Error()
	}
	cm, err := rt.CompileModule(ctx, buildFrames(c))
	if err != nil {
		return "harness: the generated guest does not compile: " + err.Error()
	}
	mod, err := rt.InstantiateModule(ctx, cm, wazero.NewModuleConfig())
	if err != nil {
		return "harness: " + err.Error()
	}
	cs.seed()
	runtime.GC()
	runtime.GC()
	defer func() {
		cs.blocks, cs.seeded = nil, nil
		runtime.GC()
	}()
	defer debug.SetGCPercent(debug.SetGCPercent(-1))

	f := mod.ExportedFunction("rec")
	for k, d := range c.Depths {
		marks = 0
		cs.add(24)
		if c.Fresh {
			f = mod.ExportedFunction("rec")
		}
		n := uint32(d)
		if d < 0 {
			n = 0x7fffffff
		}
		var res []uint64
		var cerr error
		var escaped any
		func() {
			defer func() { escaped = recover() }()
			res, cerr = f.Call(ctx, uint64(n))
		}()
		where := fmt.Sprintf("call %d, rec(depth %d) with %d live i64 locals and a callee taking %d %s parameters on %s", k, d, c.Locals, c.Params, c.PType, c.Engine)
		if c.Bottom {
			where = fmt.Sprintf("call %d, %d nested frames of %d live i64 locals and then a function with %d live i64 locals calling a callee with %d %s parameters, on %s", k, d+1, c.Small, c.Locals, c.Params, c.PType, c.Engine)
		}
		if escaped != nil {
			return fmt.Sprintf("%s: a panic escaped api.Function.Call: %v", where, escaped)
		}
		out := wz.Classify(cerr)
		switch {
		case d < 0:
			if out.Kind != wz.KStack {
				return fmt.Sprintf("%s: recursion without bound returned %s (%q), expected the stack overflow error", where, out, firstLine(cerr))
			}
		case out.Kind == wz.KStack && d > safeDepth:
			// a resource limit of the engine
		case cerr != nil:
			return fmt.Sprintf("%s: failed with %s (%q)", where, out, firstLine(cerr))
		default:
			if want := framesExpected(c, n); len(res) != 1 || res[0] != want {
				return fmt.Sprintf("%s: returned %#x, the model computes %#x", where, res, want)
			}
		}
		if d := cs.check(); d != "" {
			return where + ": " + d
		}
		if d := cs.checkSeeded(); d != "" {
			return where + ": " + d
		}
	}
	return ""
}

var (
	frameLocals = []int{0, 1, 7, 40, 300, 1000, 1500, 2000, 2500, 3000}
	frameParams = []int{0, 1, 6, 9, 40, 200, 500, 800, 1000}
)

func genFrames(t *rapid.T) *FrameCase {
	c := &FrameCase{Engine: rapid.SampledFrom(wz.Engines).Draw(t, "engine")}
	c.Locals = rapid.SampledFrom(frameLocals).Draw(t, "locals")
	if rapid.IntRange(0, 3).Draw(t, "locals-any") == 0 {
		c.Locals = rapid.IntRange(0, 3000).Draw(t, "locals-n")
	}
	c.Params = rapid.SampledFrom(frameParams).Draw(t, "params")
	if rapid.IntRange(0, 3).Draw(t, "params-any") == 0 {
		c.Params = rapid.IntRange(0, 1000).Draw(t, "params-n")
	}
	c.PType = rapid.SampledFrom([]string{"i64", "f64", "v128", "v128"}).Draw(t, "ptype")
	c.Fresh = rapid.Bool().Draw(t, "fresh")
	if rapid.IntRange(0, 2).Draw(t, "bottom") == 0 {
		// the big frame below a drawn number of small frames: a sweep over the fill level of the
		// stack at which the big frame arrives, each time on a fresh function object
		c.Bottom, c.Fresh = true, rapid.IntRange(0, 4).Draw(t, "bottom-fresh") != 0
		c.Small = rapid.SampledFrom([]int{0, 0, 1, 3, 8}).Draw(t, "small-locals")
		nd := rapid.IntRange(20, 60).Draw(t, "ncalls")
		for i := 0; i < nd; i++ {
			c.Depths = append(c.Depths, rapid.IntRange(0, 900).Draw(t, "fill"))
		}
		return c
	}
	n := rapid.IntRange(2, 8).Draw(t, "ncalls")
	unbounded := false
	for i := 0; i < n; i++ {
		k := rapid.IntRange(0, 11).Draw(t, "depth-class")
		switch {
		case k == 0 && !unbounded:
			unbounded = true // once per case: it costs up to 0.5 s
			c.Depths = append(c.Depths, -1)
		case k == 1:
			c.Depths = append(c.Depths, rapid.IntRange(33, 1500).Draw(t, "deep"))
		default:
			c.Depths = append(c.Depths, rapid.IntRange(0, safeDepth).Draw(t, "depth"))
		}
	}
	return c
}

func TestFrames(t *testing.T) {
	if evid.ReplayPath() != "" {
		t.Skip()
	}
	evid.Check(t, "frames", evid.Scale(160, 16000), func(t *rapid.T) {
		c := genFrames(t)
		rc := map[string]any{"frames": c}
		evid.Journal(rc)
		if msg := runFrames(c); msg != "" {
			evid.Fail(t, rc, "%s", msg)
		}
		hasOverflow, hasOK := false, false
		for i, d := range c.Depths {
			if d < 0 && i+1 < len(c.Depths) {
				hasOverflow = true
			}
			if d >= 0 && hasOverflow {
				hasOK = true
			}
		}
		lbls := []string{"frames:" + c.Engine, "frames:ptype:" + c.PType}
		if c.Bottom {
			lbls = append(lbls, "frames:big-frame-below-small-frames")
		}
		if c.Locals >= 1000 && c.Params >= 200 {
			lbls = append(lbls, "frames:big-frame-and-big-argument-area")
		}
		if hasOverflow {
			lbls = append(lbls, "frames:stack-exhaustion")
		}
		// non-trivial as for the histories: a failing call (stack exhaustion) followed by a
		// succeeding one on the same function object or instance
		evid.Case(evid.Hash64("frames", fmt.Sprintf("%+v", *c)), hasOverflow && hasOK, lbls...)
		evid.Sample("frames:"+c.Engine, 1, c)
	})
}
