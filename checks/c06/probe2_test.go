package c06

import (
	"testing"

	"pgregory.net/rapid"
)

func rapidCheckN(t *testing.T, n int, f func(c *Case)) {
	g := rapid.Custom(func(t *rapid.T) *Case { return genCase(t) })
	for i := 0; i < n; i++ {
		f(g.Example(i))
	}
}
