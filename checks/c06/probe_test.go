package c06

import (
	"fmt"
	"testing"
	"time"
)

func TestProbeTiming(t *testing.T) {
	for _, eng := range []string{"interpreter", "compiler"} {
		for _, ops := range [][]int{{opLeaf}, {opUnreachable}, {opRec}, {opRec + 1}, {opRec + 2}, {opRec + 3}, {opCallback | 3<<1, opRec + 1}} {
			c := &Case{Engine: eng, NInst: 2, Steps: []Step{{Kind: "call", Inst: 0, Ops: ops}, {Kind: "call", Inst: 0, Ops: []int{opLeaf}}}}
			t0 := time.Now()
			msg, _ := runCase(c)
			fmt.Printf("%s %s: %v %s\n", eng, describeOps(ops), time.Since(t0), msg)
		}
	}
}

func TestProbeGen(t *testing.T) {
	var tot [2]time.Duration
	var n [2]int
	var recs [2]int
	rapidCheckN(t, 100, func(c *Case) {
		t0 := time.Now()
		msg, st := runCase(c)
		d := time.Since(t0)
		e := 0
		if c.Engine == "compiler" {
			e = 1
		}
		tot[e] += d
		n[e]++
		recs[e] += st.recursions
		if d > 300*time.Millisecond {
			fmt.Printf("slow: %v %s steps=%d recs=%d %s\n", d, c.Engine, len(c.Steps), st.recursions, msg)
		}
	})
	fmt.Println("interp", tot[0], n[0], recs[0], "compiler", tot[1], n[1], recs[1])
}
