package c06

import (
	"testing"

	"verif/internal/evid"
	"verif/internal/wz"
)

// TestMatrix enumerates every failure kind under every nesting shape on both engines, each time
// followed by succeeding calls on the same function object, on the other function object of the
// instance and on the other instance, and by the same script run from a start function. It
// guarantees that no kind x shape combination depends on the luck of the random histories.
func TestMatrix(t *testing.T) {
	if evid.ReplayPath() != "" {
		t.Skip()
	}
	var terms [][]int
	for op := opUnreachable; op <= opAtomicRMWOOB; op++ {
		terms = append(terms, []int{op})
	}
	for _, via := range []int{0, opViaTable} { // host functions called directly and through the table
		for k := 0; k < nPanicKinds; k++ {
			terms = append(terms, []int{via + opHostPanic + k})
		}
		for _, op := range []int{opProcExit, opCloseCont, opCloseTrap, opCloseNoRet} {
			terms = append(terms, []int{via + op, 0}, []int{via + op, 3})
		}
		terms = append(terms, []int{via + opPeek})
	}
	shapes := [][]int{
		{},
		{opNestLocal},
		{opNestPeer},
		{opNestIndirect},
		{opCallback | 3<<1},     // host callback into the calling module, re-panic
		{opCallback | 3<<1 | 1}, // ... swallowed
		{opCallback | 0<<1},     // host callback into the other instance
		{opCallback | 0<<1 | 1}, // ... swallowed
		{opNestPeer, opCallback | 1<<1, opNestLocal, opCallback | 0<<1 | 1},              // guest>guest>host>guest>guest>host>guest
		{opCallback | 1<<1 | 1, opCallback | 0<<1, opCallback | 3<<1, opCallback | 1<<1}, // depth 4 through the host
		{opCallback | opCbTable | 3<<1},                                                  // the callback host function reached through the table
		{opNestPeer, opCallback | opCbTable | 1<<1 | 1, opNestIndirect},                  // ... from a function imported by another instance
	}
	n := 0
	run := func(c *Case, labels ...string) {
		n++
		if !evid.Mine(n) {
			return
		}
		for i := range c.Steps {
			c.Steps[i].Desc = describeOps(c.Steps[i].Ops)
		}
		if n%2 == 0 {
			// every other case under close-on-context-done, with step contexts that become done
			// after the step has returned
			c.CloseOnDone = true
			for i := range c.Steps {
				c.Steps[i].Ctx = []string{"cancel", "deadline", ""}[(i+n/2)%3]
			}
		}
		evid.Journal(c)
		msg, st := runCase(c)
		if msg != "" {
			evid.Violation("matrix", c, "%s", msg)
			t.Errorf("%s", msg)
			return
		}
		evid.Case(caseKey(c), st.nontrivial, labels...)
	}
	ok := []int{opLeaf}
	for _, eng := range wz.Engines {
		for _, term := range terms {
			for _, sh := range shapes {
				ops := append(append([]int{}, sh...), term...)
				if len(ops) > 8 {
					t.Fatalf("script too long: %v", ops)
				}
				run(&Case{Engine: eng, NInst: 2, Steps: []Step{
					{Kind: "call", Inst: 1, Fn: 0, Ops: ops},
					{Kind: "call", Inst: 1, Fn: 0, Ops: ok},
					{Kind: "call", Inst: 1, Fn: 1, Ops: ok},
					{Kind: "call", Inst: 0, Fn: 0, Ops: ok},
					{Kind: "call", Inst: 1, Fn: 1, Ops: ops},
					{Kind: "call", Inst: 1, Fn: 1, Ops: []int{opNestPeer, opCallback | 1<<1 | 1, opLeaf}},
					{Kind: "start", Inst: 1, Start: startSection, Ops: replaceSelf(ops)},
					{Kind: "start", Inst: 0, Start: startExport, Ops: replaceSelf(ops)},
					// the same CompiledModules once more, now with start functions that succeed
					{Kind: "start", Inst: 1, Start: startSection, Ops: ok},
					{Kind: "start", Inst: 0, Start: startExport, Ops: []int{opNestPeer, opLeaf}},
					{Kind: "call", Inst: 1, Fn: 0, Ops: ok},
					{Kind: "call", Inst: 0, Fn: 1, Ops: ok},
				}}, "matrix:"+eng)
			}
		}
		// a module that wrote into the table of an instance and then failed (or not): its entry is
		// called right away, after further failures, and from code entered through an import
		for _, failing := range []int{1, 0} {
			for _, owner := range []int{0, 1} {
				run(&Case{Engine: eng, NInst: 2, Steps: []Step{
					{Kind: "call", Inst: owner, Fn: 0, Ops: []int{opNestGraft, opLeaf}},
					{Kind: "graft", Inst: owner, Start: failing, K: 2},
					{Kind: "call", Inst: owner, Fn: 0, Ops: []int{opNestGraft, opLeaf}},
					{Kind: "call", Inst: owner, Fn: 1, Ops: []int{opUnreachable}},
					{Kind: "call", Inst: 1, Fn: 1, Ops: []int{opNestPeer, opNestGraft, opCallback | 3<<1, opLeaf}},
					{Kind: "graft", Inst: owner, Start: 1, K: 3},
					{Kind: "call", Inst: owner, Fn: 0, Ops: []int{opNestGraft, opNestGraft, opLeaf}},
				}}, "matrix-graft:"+eng)
			}
		}
		// every atomic instruction at every kind of address, each followed by atomic instructions
		// of several kinds on the same memory: from the same function object, from the other one,
		// and from code entered through another instance's import and a host callback
		for sub := 0; sub < nAtomicSubs; sub++ {
			if sub > 0x03 && sub < 0x10 {
				continue
			}
			for mode := 0; mode < 3; mode++ {
				if (sub == 0x01 || sub == 0x02) && mode != 0 {
					continue
				}
				first := []int{opAtomicOK + mode, sub}
				run(&Case{Engine: eng, NInst: 2, Steps: []Step{
					{Kind: "call", Inst: 0, Fn: 0, Ops: []int{opAtomicOK, 0x1e}},
					{Kind: "call", Inst: 0, Fn: 0, Ops: first},
					{Kind: "call", Inst: 0, Fn: 0, Ops: []int{opAtomicOK, 0x10}},
					{Kind: "call", Inst: 0, Fn: 1, Ops: []int{opAtomicOK, 0x4a}},
					{Kind: "call", Inst: 1, Fn: 0, Ops: []int{opNestPeer, opAtomicOK, 0x03}},
					{Kind: "call", Inst: 1, Fn: 1, Ops: []int{opCallback | 0<<1, opAtomicOK, 0x00}},
					{Kind: "call", Inst: 1, Fn: 0, Ops: first},
					{Kind: "call", Inst: 1, Fn: 0, Ops: []int{opAtomicOK, 0x41}},
					{Kind: "start", Inst: 0, Start: startSection, Ops: []int{opNestPeer, opAtomicUnaligned, 0x18}},
				}}, "matrix-atomic:"+eng)
			}
		}
		// stack exhaustion: every frame kind, directly and below a swallowing host callback, twice
		for k := 0; k < nRecKinds; k++ {
			for _, sh := range [][]int{{}, {opNestPeer, opCallback | 1<<1 | 1}} {
				ops := append(append([]int{}, sh...), opRec+k)
				run(&Case{Engine: eng, NInst: 2, Steps: []Step{
					{Kind: "call", Inst: 1, Fn: 0, Ops: ops},
					{Kind: "call", Inst: 1, Fn: 0, Ops: ok},
					{Kind: "call", Inst: 1, Fn: 0, Ops: ops},
					{Kind: "call", Inst: 1, Fn: 1, Ops: []int{opCallback | 0<<1, opLeaf}},
					{Kind: "call", Inst: 0, Fn: 0, Ops: ok},
				}}, "matrix-recursion:"+eng)
			}
		}
	}
}

// replaceSelf turns "host callback into the calling module" into a callback into m0: a start
// function's own module is not yet instantiated.
func replaceSelf(ops []int) []int {
	r := append([]int{}, ops...)
	for i, op := range r {
		if byte(op)&opCbMask == opCallback && (op>>1)&3 == 3 {
			r[i] = opCallback | op&(1|opCbTable)
		}
		if byte(op) >= opAtomicOK && byte(op) <= opAtomicUnaligned {
			break
		}
		if o := op &^ opViaTable; trapText[byte(op)] != "" || o == opProcExit || o == opCloseCont || o == opCloseTrap || o == opCloseNoRet {
			break // what follows a terminal operation is its argument
		}
	}
	return r
}
