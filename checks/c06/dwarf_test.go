package c06

import (
	"context"
	"os"
	"sync"
	"testing"

	"github.com/tetratelabs/wazero"
	"github.com/tetratelabs/wazero/api"
	"github.com/tetratelabs/wazero/imports/wasi_snapshot_preview1"

	"verif/internal/evid"
	"verif/internal/wz"
)

// TestConcurrentTraps: several instances of ONE compiled module that carries DWARF sections (a
// debug build from wazero's own test data) fail at the same time on different goroutines, right
// after compilation, so that the per-binary source line information is looked up concurrently
// while still cold. Every call must report the guest's failure; nothing may crash. The check's
// -race shard runs this test: a data race inside wazero is a violation.
func TestConcurrentTraps(t *testing.T) {
	if evid.ReplayPath() != "" {
		t.Skip()
	}
	repo := os.Getenv("VERIF_REPO")
	if repo == "" {
		repo = "/repo"
	}
	var bins [][]byte
	for _, p := range []string{"zig-cc/main.wasm", "zig/main.wasm", "tinygo/main.wasm"} {
		if b, err := os.ReadFile(repo + "/internal/testing/dwarftestdata/testdata/" + p); err == nil {
			bins = append(bins, b)
		}
	}
	if len(bins) == 0 {
		evid.Note("no DWARF test data found under %s: TestConcurrentTraps did not run", repo)
		t.Skip()
	}
	rounds := evid.Scale(24, 400)
	ctx := context.Background()
	for _, eng := range wz.Engines {
		for r := 0; r < rounds; r++ {
			bin := bins[r%len(bins)]
			c := map[string]any{"concurrent_traps": eng, "round": r}
			evid.Journal(c)
			rt := wazero.NewRuntimeWithConfig(ctx, wz.Config(eng))
			wasi_snapshot_preview1.MustInstantiate(ctx, rt)
			cm, err := rt.CompileModule(ctx, bin) // a fresh compilation: cold line information
			if err != nil {
				rt.Close(ctx)
				t.Fatalf("harness: %v", err)
			}
			const n = 6
			var mods []api.Module
			for i := 0; i < n; i++ {
				m, err := rt.InstantiateModule(ctx, cm, wazero.NewModuleConfig().WithName("").WithStartFunctions())
				if err != nil {
					rt.Close(ctx)
					t.Fatalf("harness: instantiate: %v", err)
				}
				mods = append(mods, m)
			}
			errs := make([]error, n)
			var wg sync.WaitGroup
			start := make(chan struct{})
			for i := range mods {
				wg.Add(1)
				go func(i int) {
					defer wg.Done()
					<-start
					_, errs[i] = mods[i].ExportedFunction("_start").Call(ctx)
				}(i)
			}
			close(start)
			wg.Wait()
			for i, err := range errs {
				o := wz.Classify(err)
				if o.Kind != wz.KTrap && o.Kind != wz.KExit {
					msg := "instance " + mods[i].Name() + " of a DWARF-carrying module failing concurrently with its siblings on " + eng + ": got " + o.String() + ", expected the guest's trap"
					evid.Violation("concurrent-traps", c, "%s", msg)
					t.Error(msg)
				}
			}
			rt.Close(ctx)
			evid.Bulk(1, 0, "concurrent-traps:"+eng)
		}
	}
}
