package c06

import (
	"fmt"
	"strings"
)

// ---- the reference state machine ----

// failure is what ends a call abnormally.
type failure struct {
	Kind   string // "trap" | "panic" | "exit" | "stack" | "link"
	Detail string // trap text
	Panic  int    // host panic kind
	Code   uint32 // exit code
}

func (f *failure) String() string {
	if f == nil {
		return "ok"
	}
	switch f.Kind {
	case "trap":
		return "trap(" + f.Detail + ")"
	case "panic":
		return fmt.Sprintf("host-panic(%s)", panicNames[f.Panic])
	case "exit":
		return fmt.Sprintf("exit(%d)", f.Code)
	}
	return f.Kind
}

var panicNames = []string{"error", "string", "struct", "error-struct", "nil-deref", "index-out-of-range"}

type minst struct {
	cnt, rec uint64
	log      []uint32
	closed   bool
	code     uint32
	recDirty bool   // a stack exhaustion ran in this instance: rec must be re-read (and have grown)
	recDelta uint64 // recursion steps observed in the current step
	peer     int    // index of the instance whose run is imported; -1 = itself
	name     string
	scratch  [8]byte // the bytes the atomic instructions work on
	grafted  bool    // table slot graftSlot holds a function of another module
	graftK   int
}

type model struct {
	insts []*minst // main instances; a start instance is appended temporarily
	nmain int
	// statistics of the last top-level step
	maxDepth   int
	hostDepth  int // guest->host->guest nestings on the deepest path
	swallowed  int
	propagated int
	crossInst  int
	onClosed   int // API-level calls that ran on an already closed instance
	viaTable   int // host functions reached with call_indirect
	graftCalls int // calls of a function another module left in the table
	// trace lists, in order, every call of one of the harness' host functions together with the
	// module the host function must have been given: the instance whose code made the call
	trace []string
}

func newModel(n int) *model {
	m := &model{nmain: n}
	for i := 0; i < n; i++ {
		m.insts = append(m.insts, &minst{peer: i - 1, name: fmt.Sprintf("m%d", i)})
	}
	return m
}

func (m *model) close(i int, code uint32) {
	in := m.insts[i]
	if !in.closed { // the first close wins
		in.closed, in.code = true, code
	}
}

// apiCall models api.Function.Call of `run` on instance i: the body runs whatever the closed
// state is; a body that completes on a closed instance yields ExitError(code of the instance).
func (m *model) apiCall(i int, script uint64, depth, hdepth int) (uint32, *failure) {
	if m.insts[i].closed {
		m.onClosed++
	}
	r, f := m.exec(i, script, depth, hdepth)
	if f == nil && m.insts[i].closed {
		return 0, &failure{Kind: "exit", Code: m.insts[i].code}
	}
	return r, f
}

// exec models the body of `run` executing in instance i.
func (m *model) exec(i int, script uint64, depth, hdepth int) (uint32, *failure) {
	in := m.insts[i]
	if depth > m.maxDepth {
		m.maxDepth = depth
	}
	if hdepth > m.hostDepth {
		m.hostDepth = hdepth
	}
	in.cnt++
	in.log = append(in.log, uint32(script))
	op := byte(script)
	rest := script >> 8
	code := exitCodeOf(byte(rest))
	if t, ok := trapText[op]; ok {
		return 0, &failure{Kind: "trap", Detail: t}
	}
	if op >= 0x10+opViaTable && op < 0x20+opViaTable {
		// the same host function, reached through the table: nothing else changes
		op -= opViaTable
		m.viaTable++
	}
	saw := func(fn string) { m.trace = append(m.trace, fn+":"+in.name) }
	switch {
	case op >= opHostPanic && op < opHostPanic+nPanicKinds:
		saw("hp")
		return 0, &failure{Kind: "panic", Panic: int(op - opHostPanic)}
	case op == opProcExit:
		m.close(i, code)
		return 0, &failure{Kind: "exit", Code: code}
	case op == opCloseNoRet:
		saw("hclose")
		m.close(i, code)
		return 0, &failure{Kind: "exit", Code: code}
	case op == opPeek:
		saw("peek")
		in.log = append(in.log, uint32(len(in.log)))
		return uint32(in.cnt), nil
	case op == opCloseCont:
		saw("hclose")
		m.close(i, code)
		in.cnt += 10
		in.log = append(in.log, 0xCC000000)
		return uint32(in.cnt), nil
	case op == opCloseTrap:
		saw("hclose")
		m.close(i, code)
		return 0, &failure{Kind: "trap", Detail: "unreachable"}
	case op >= opAtomicOK && op <= opAtomicUnaligned:
		r, f := in.atomic(int(byte(rest)), int(op-opAtomicOK))
		if f != nil {
			return 0, f
		}
		in.log = append(in.log, uint32(r), uint32(r>>32))
		return uint32(in.cnt), nil
	case op >= opRec && op < opRec+nRecKinds:
		in.recDirty = true
		return 0, &failure{Kind: "stack"}
	}
	var r uint32
	var f *failure
	pre := uint32(in.cnt)
	switch {
	case op == opNestLocal, op == opNestIndirect:
		r, f = m.exec(i, rest, depth+1, hdepth)
	case op == opNestGraft:
		if !in.grafted {
			return 0, &failure{Kind: "trap", Detail: "invalid table access"}
		}
		m.graftCalls++
		r, f = uint32(graftBase+in.graftK), nil
	case op == opNestPeer:
		p := in.peer
		if p < 0 {
			p = i
		} else {
			m.crossInst++
		}
		r, f = m.exec(p, rest, depth+1, hdepth)
	case op&opCbMask == opCallback:
		t, mode := int(op>>1)&3, op&1
		if op&opCbTable != 0 {
			m.viaTable++
		}
		saw("cb")
		if t == 3 || t >= m.nmain {
			t = i
		}
		if t != i {
			m.crossInst++
		}
		r, f = m.apiCall(t, rest, depth+1, hdepth+1)
		if f != nil && mode == 1 {
			m.swallowed++
			r, f = 0xffffffff, nil
		} else if f != nil {
			m.propagated++
		}
	default: // leaf and unknown operations
		return uint32(in.cnt), nil
	}
	if f != nil {
		return 0, f
	}
	in.cnt += 100
	in.log = append(in.log, 0xAA000000|pre&0xffffff)
	return r + 1, nil
}

// atomic models one 0xfe-prefixed instruction on the (unshared) memory of the instance.
// mode 0 = at the scratch word, 1 = beyond the memory, 2 = at scratch+1.
func (in *minst) atomic(sub, mode int) (uint64, *failure) {
	if sub == 0x03 || sub >= nAtomicSubs || (sub > 0x03 && sub < 0x10) {
		return 0, nil // fence and unassigned codes: nothing happens
	}
	is64, width := atomicShape(sub)
	_ = is64
	if mode == 2 && width > 1 {
		return 0, &failure{Kind: "trap", Detail: "unaligned atomic"}
	}
	if mode == 1 {
		return 0, &failure{Kind: "trap", Detail: "out of bounds memory access"}
	}
	if sub == 0x01 || sub == 0x02 {
		return 0, &failure{Kind: "trap", Detail: "expected shared memory"}
	}
	if sub == 0x00 {
		return 0, nil // nobody waits
	}
	off := 0
	if mode == 2 {
		off = 1
	}
	mask := ^uint64(0)
	if width < 8 {
		mask = 1<<(8*width) - 1
	}
	var old uint64
	for i := uint32(0); i < width; i++ {
		old |= uint64(in.scratch[off+int(i)]) << (8 * i)
	}
	v := atomicOperand(sub) & mask
	if !is64 {
		v = uint64(uint32(atomicOperand(sub))) & mask
	}
	store := func(x uint64) {
		for i := uint32(0); i < width; i++ {
			in.scratch[off+int(i)] = byte(x >> (8 * i))
		}
	}
	switch {
	case sub <= 0x16:
		return old, nil
	case sub <= 0x1d:
		store(v)
		return 0, nil
	case sub <= 0x24:
		store((old + v) & mask)
	case sub <= 0x2b:
		store((old - v) & mask)
	case sub <= 0x32:
		store(old & v)
	case sub <= 0x39:
		store(old | v)
	case sub <= 0x40:
		store(old ^ v)
	case sub <= 0x47:
		store(v)
	default:
		if old == 0 {
			store(v)
		}
	}
	return old, nil
}

var atomicNames = func() []string {
	n := make([]string, nAtomicSubs)
	n[0], n[1], n[2], n[3] = "notify", "wait32", "wait64", "fence"
	shapes := []string{"i32", "i64", "i32.8", "i32.16", "i64.8", "i64.16", "i64.32"}
	for g, name := range []string{"load", "store", "rmw.add", "rmw.sub", "rmw.and", "rmw.or", "rmw.xor", "rmw.xchg", "rmw.cmpxchg"} {
		for k, sh := range shapes {
			n[0x10+7*g+k] = sh + ".atomic." + name
		}
	}
	return n
}()

// ---- scripts ----

func pack(ops []int) uint64 {
	var s uint64
	for i := len(ops) - 1; i >= 0; i-- {
		s = s<<8 | uint64(byte(ops[i]))
	}
	return s
}

func describeOps(ops []int) string {
	var parts []string
	for k := 0; k < len(ops); k++ {
		op := byte(ops[k])
		via := ""
		if op >= 0x10+opViaTable && op < 0x20+opViaTable {
			op -= opViaTable
			via = "[via table]"
		}
		if op&opCbMask == opCallback && op&opCbTable != 0 {
			via = "[via table]"
		}
		switch {
		case op == opLeaf:
			parts = append(parts, "ok")
		case trapText[op] != "":
			parts = append(parts, fmt.Sprintf("trap#%d(%s)", op, trapText[op]))
		case op >= opHostPanic && op < opHostPanic+nPanicKinds:
			parts = append(parts, "host-panic("+panicNames[op-opHostPanic]+")"+via)
		case op == opProcExit || op == opCloseCont || op == opCloseTrap || op == opCloseNoRet:
			c := byte(0)
			if k+1 < len(ops) {
				c = byte(ops[k+1])
				k++
			}
			name := map[byte]string{opProcExit: "proc_exit", opCloseCont: "host-close-then-complete", opCloseTrap: "host-close-then-trap", opCloseNoRet: "host-close-and-panic-exit"}[op]
			parts = append(parts, fmt.Sprintf("%s(%d)%s", name, exitCodeOf(c), via))
		case op == opPeek:
			parts = append(parts, "host-reads-caller-memory"+via)
		case op >= opAtomicOK && op <= opAtomicUnaligned:
			sub := 0
			if k+1 < len(ops) {
				sub = ops[k+1] & 0xff
				k++
			}
			name := fmt.Sprintf("atomic#%#x", sub)
			if sub < nAtomicSubs && atomicNames[sub] != "" {
				name = atomicNames[sub]
			}
			parts = append(parts, name+[]string{"@scratch", "@beyond-memory", "@odd-address"}[op-opAtomicOK])
		case op == opNestLocal:
			parts = append(parts, "call-local>")
		case op == opNestPeer:
			parts = append(parts, "call-import>")
		case op == opNestIndirect:
			parts = append(parts, "call-indirect>")
		case op == opNestGraft:
			parts = append(parts, "call-grafted-table-entry>")
		case op >= opRec && op < opRec+nRecKinds:
			parts = append(parts, "recurse("+recNames[op-opRec]+")")
		case op&opCbMask == opCallback:
			mode := "re-panic"
			if op&1 == 1 {
				mode = "swallow"
			}
			t := fmt.Sprint((op >> 1) & 3)
			if (op>>1)&3 == 3 {
				t = "self"
			}
			parts = append(parts, fmt.Sprintf("host-callback(m%s,%s)%s>", t, mode, via))
		default:
			parts = append(parts, fmt.Sprintf("op%#x", op))
		}
	}
	return strings.Join(parts, " ")
}
