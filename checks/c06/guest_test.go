package c06

import (
	"fmt"

	e "verif/internal/wasmenc"
)

// The guest module family. Every instance exports
//
//	run  (script i64) -> i32
//	run2 (script i64, a i64, f f64) -> (i64, i32)     same behaviour through another signature
//	cnt, rec (mutable i64 globals), memory (1 page: word 0 = number of log entries, entries from 64)
//
// `run` interprets the lowest byte of its script as an operation and hands the remaining bytes
// (script >> 8) to the next nesting level. Before dispatching it always bumps `cnt` and appends
// the low 32 bits of the script to the memory log: these are the "effects made before the
// failure". The reference model in model_test.go mirrors this byte for byte.
const (
	opLeaf = 0x00
	// traps
	opUnreachable  = 0x01
	opDivZero      = 0x02
	opDivOverflow  = 0x03
	opTruncNaN     = 0x04
	opLoadOOB      = 0x05
	opTableOOB     = 0x06 // call_indirect beyond the table
	opTableNull    = 0x07 // call_indirect on a null slot
	opSigMismatch  = 0x08
	opUnaligned    = 0x09
	opTruncRange   = 0x0a
	opTableGetOOB  = 0x0b
	opFillOOB      = 0x0c
	opRem64Zero    = 0x0d
	opStoreOOB     = 0x0e
	opAtomicRMWOOB = 0x0f // aligned atomic rmw beyond memory
	// host panics: opHostPanic + kind
	opHostPanic = 0x10 // .. 0x15
	nPanicKinds = 6
	// exits; the next script byte selects the code (code = b * 0x01010101)
	opProcExit   = 0x18
	opCloseCont  = 0x19 // host calls mod.CloseWithExitCode and returns; the body completes
	opCloseTrap  = 0x1a // same, then the body traps (unreachable)
	opCloseNoRet = 0x1b // host closes the module and panics with the ExitError itself
	// success terminal: the host function reads word 0 of the CALLING module's memory (the log
	// length), the guest logs what it got
	opPeek = 0x1c
	// every host-calling operation 0x10..0x1f also exists as op|opViaTable: the imported host
	// function is then reached with call_indirect through its funcref in the table
	opViaTable = 0x20 // 0x30..0x3f
	// nesting
	opNestLocal    = 0x20
	opNestPeer     = 0x21
	opNestIndirect = 0x22
	// call_indirect through table slot 9, which only a "graft" step fills: with a function of
	// another module that imported this instance's table (and possibly failed to instantiate
	// afterwards). It returns graftBase+k without any effect; an empty slot traps.
	opNestGraft = 0x23
	graftSlot   = 9
	graftBase   = 0x7000
	// unbounded recursion: opRec + frame kind
	opRec     = 0x28 // .. 0x2b
	nRecKinds = 4
	// atomic instructions (threads feature): the next script byte is the sub-opcode of the
	// 0xfe-prefixed instruction (0x00 notify .. 0x4e i64.atomic.rmw32.cmpxchg_u). It is executed at
	// the scratch word (success; loads, stores and read-modify-writes of every width change and
	// report it), beyond the memory, or at an odd address.
	opAtomicOK        = 0x2c
	opAtomicOOB       = 0x2d
	opAtomicUnaligned = 0x2e
	nAtomicSubs       = 0x4f
	opCallback        = 0x40 // | viaTable<<3 | target<<1 | mode   (target 0..2 = instance, 3 = the calling module itself; mode 0 = re-panic, 1 = swallow)
	opCbMask          = 0xf0
	opCbTable         = 0x08
)

var trapText = map[byte]string{
	opUnreachable: "unreachable", opDivZero: "integer divide by zero", opDivOverflow: "integer overflow",
	opTruncNaN: "invalid conversion to integer", opLoadOOB: "out of bounds memory access",
	opTableOOB: "invalid table access", opTableNull: "invalid table access", opSigMismatch: "indirect call type mismatch",
	opUnaligned: "unaligned atomic", opTruncRange: "integer overflow", opTableGetOOB: "invalid table access",
	opFillOOB: "out of bounds memory access", opRem64Zero: "integer divide by zero", opStoreOOB: "out of bounds memory access",
	opAtomicRMWOOB: "out of bounds memory access",
}

var recNames = []string{"no-locals", "1000-locals", "16-v128-locals", "20-params"}

const (
	scratchAt = 48 // 8 bytes the atomic instructions work on
	logBase   = 64
	logCap    = 4096
	zeroAt    = 32 // a memory word that is always zero (operands the compiler cannot fold)
)

const (
	startNone    = 0
	startSection = 1
	startExport  = 2 // exported as _start
)

func exitCodeOf(b byte) uint32 { return uint32(b) * 0x01010101 }

var rec20Params = func() []byte {
	var p []byte
	for i := 0; i < 5; i++ {
		p = append(p, e.I32, e.I64, e.F32, e.F64)
	}
	return p
}()

// buildGuest encodes the guest. peer is the name of the instance whose `run` is imported
// ("" = none: opNestPeer then calls the instance's own run).
func buildGuest(peer string, start int) []byte {
	m := &e.Module{}
	hp := m.ImportFunc("env", "hp", []byte{e.I32}, nil)
	hclose := m.ImportFunc("env", "hclose", []byte{e.I32, e.I32}, nil)
	cb := m.ImportFunc("env", "cb", []byte{e.I32, e.I32, e.I64}, []byte{e.I32})
	sscript := m.ImportFunc("env", "startscript", nil, []byte{e.I64})
	peek := m.ImportFunc("env", "peek", nil, []byte{e.I32})
	procExit := m.ImportFunc("wasi_snapshot_preview1", "proc_exit", []byte{e.I32}, nil)
	peerRun := uint32(0)
	if peer != "" {
		peerRun = m.ImportFunc(peer, "run", []byte{e.I64}, []byte{e.I32})
	}
	base := m.NumImportedFuncs()
	fLog, fRun, fRun2, fVoid, fRec0, fRec1000, fRecV, fRec20, fStart, fAtomic := base, base+1, base+2, base+3, base+4, base+5, base+6, base+7, base+8, base+9
	if peer == "" {
		peerRun = fRun
	}
	runType := m.AddType([]byte{e.I64}, []byte{e.I32})

	const gCnt, gRec, gSink = 0, 1, 2
	m.Globals = []e.Global{
		{Type: e.I64, Mut: true, Init: e.NewB().I64Const(0).Bytes()},
		{Type: e.I64, Mut: true, Init: e.NewB().I64Const(0).Bytes()},
		{Type: e.I64, Mut: true, Init: e.NewB().I64Const(0).Bytes()},
	}
	m.Mems = [][]byte{e.Limits(1, 1, false)}
	m.Tables = [][]byte{e.TableType(e.FuncRef, 10, 10)}
	// slot 0 = run, slot 1 = null, slot 2 = a ()->() function, slot 3 = run,
	// slots 4..8 = the imported HOST functions hp, hclose, cb, proc_exit, peek, slot 9 = null
	const slotHp, slotHclose, slotCb, slotProcExit, slotPeek = 4, 5, 6, 7, 8
	m.Elems = [][]byte{e.ActiveElemFuncs(0, []uint32{fRun}), e.ActiveElemFuncs(2, []uint32{fVoid, fRun, hp, hclose, cb, procExit, peek})}
	tHp := m.AddType([]byte{e.I32}, nil)
	tHclose := m.AddType([]byte{e.I32, e.I32}, nil)
	tCb := m.AddType([]byte{e.I32, e.I32, e.I64}, []byte{e.I32})
	tPeek := m.AddType(nil, []byte{e.I32})

	// log(v i32): mem[64 + 4*(n % cap)] = v; n++
	{
		b := e.NewB()
		b.I32Const(0).Mem(e.OpI32Load, 2, 0).I32Const(logCap - 1).Raw(e.OpI32And).I32Const(4).Raw(e.OpI32Mul)
		b.LocalGet(0).Mem(e.OpI32Store, 2, logBase)
		b.I32Const(0).I32Const(0).Mem(e.OpI32Load, 2, 0).I32Const(1).Raw(e.OpI32Add).Mem(e.OpI32Store, 2, 0)
		if idx := m.AddFunc([]byte{e.I32}, nil, nil, b.Bytes()); idx != fLog {
			panic("index plan")
		}
	}

	// run
	{
		const pS, lOp, lRest, lTmp, lZero, lPre, lNested, lCode = 0, 1, 2, 3, 4, 5, 6, 7
		b := e.NewB()
		addCnt := func(k int64) { b.GlobalGet(gCnt).I64Const(k).Raw(e.OpI64Add).GlobalSet(gCnt) }
		addCnt(1)
		b.LocalGet(pS).Raw(e.OpI32WrapI64).Call(fLog)
		b.LocalGet(pS).Raw(e.OpI32WrapI64).I32Const(0xff).Raw(e.OpI32And).LocalSet(lOp)
		b.LocalGet(pS).I64Const(8).Raw(e.OpI64ShrU).LocalSet(lRest)
		b.I32Const(0).Mem(e.OpI32Load, 2, zeroAt).LocalSet(lZero)
		// code = (rest & 0xff) * 0x01010101
		b.LocalGet(lRest).Raw(e.OpI32WrapI64).I32Const(0xff).Raw(e.OpI32And).I32Const(0x01010101).Raw(e.OpI32Mul).LocalSet(lCode)
		when := func(op byte, body func()) {
			b.LocalGet(lOp).I32Const(int32(op)).Raw(e.OpI32Eq).If()
			body()
			b.End()
		}
		dead := func() { addCnt(1000000); b.I32Const(0xdead).Return() } // reached only if something that must not return did
		when(opUnreachable, func() { b.Unreachable() })
		when(opDivZero, func() { b.I32Const(1).LocalGet(lZero).Raw(e.OpI32DivU).Return() })
		when(opDivOverflow, func() {
			b.I32Const(-0x80000000).LocalGet(lZero).I32Const(1).Raw(e.OpI32Sub).Raw(e.OpI32DivS).Return()
		})
		when(opTruncNaN, func() {
			b.LocalGet(lZero).I32Const(0x7fc00000).Raw(e.OpI32Or).Raw(e.OpF32ReinterpretI32).Raw(e.OpI32TruncF32S).Return()
		})
		when(opLoadOOB, func() { b.LocalGet(lZero).I32Const(-256).Raw(e.OpI32Add).Mem(e.OpI32Load, 2, 0).Return() })
		when(opTableOOB, func() {
			b.LocalGet(lRest).LocalGet(lZero).I32Const(1000).Raw(e.OpI32Add).CallIndirect(runType, 0).Return()
		})
		when(opTableNull, func() {
			b.LocalGet(lRest).LocalGet(lZero).I32Const(1).Raw(e.OpI32Add).CallIndirect(runType, 0).Return()
		})
		when(opSigMismatch, func() {
			b.LocalGet(lRest).LocalGet(lZero).I32Const(2).Raw(e.OpI32Add).CallIndirect(runType, 0).Return()
		})
		when(opUnaligned, func() { b.LocalGet(lZero).I32Const(1).Raw(e.OpI32Add).FE(0x10, 2, 0).Return() }) // i32.atomic.load
		when(opTruncRange, func() { b.F64(1e10).Raw(0xaa).Return() })                                       // i32.trunc_f64_s
		when(opTableGetOOB, func() { b.LocalGet(lZero).I32Const(1000).Raw(e.OpI32Add).TableGet(0).RefIsNull().Return() })
		when(opFillOOB, func() { b.I32Const(65000).LocalGet(lZero).I32Const(4096).MemoryFill().I32Const(0).Return() })
		when(opRem64Zero, func() {
			b.LocalGet(lRest).LocalGet(lZero).Raw(e.OpI64ExtendI32U).Raw(0x82).Raw(e.OpI32WrapI64).Return()
		}) // i64.rem_u
		when(opStoreOOB, func() {
			b.LocalGet(lZero).I32Const(65532).Raw(e.OpI32Add).I64Const(-1).Mem(e.OpI64Store, 0, 0).I32Const(0).Return()
		})
		when(opAtomicRMWOOB, func() { b.LocalGet(lZero).I32Const(65536).Raw(e.OpI32Add).I32Const(1).FE(0x1e, 2, 0).Return() }) // i32.atomic.rmw.add
		for _, via := range []bool{false, true} {
			via := via
			off := byte(0)
			if via {
				off = opViaTable
			}
			// host calls fn directly or through its table slot
			host := func(fn uint32, slot int32, typ uint32) {
				if via {
					b.LocalGet(lZero).I32Const(slot).Raw(e.OpI32Add).CallIndirect(typ, 0)
				} else {
					b.Call(fn)
				}
			}
			for k := 0; k < nPanicKinds; k++ {
				kk := k
				when(byte(opHostPanic+k)+off, func() { b.I32Const(int32(kk)); host(hp, slotHp, tHp); dead() })
			}
			when(opProcExit+off, func() { b.LocalGet(lCode); host(procExit, slotProcExit, tHp); dead() })
			when(opCloseCont+off, func() {
				b.LocalGet(lCode).I32Const(0)
				host(hclose, slotHclose, tHclose)
				addCnt(10)
				b.I32Const(-0x34000000).Call(fLog) // 0xCC000000
				b.GlobalGet(gCnt).Raw(e.OpI32WrapI64).Return()
			})
			when(opCloseTrap+off, func() { b.LocalGet(lCode).I32Const(0); host(hclose, slotHclose, tHclose); b.Unreachable() })
			when(opCloseNoRet+off, func() { b.LocalGet(lCode).I32Const(1); host(hclose, slotHclose, tHclose); dead() })
			when(opPeek+off, func() {
				host(peek, slotPeek, tPeek)
				b.Call(fLog)
				b.GlobalGet(gCnt).Raw(e.OpI32WrapI64).Return()
			})
		}
		nest := func(call func()) {
			b.GlobalGet(gCnt).Raw(e.OpI32WrapI64).LocalSet(lPre)
			call()
			b.LocalSet(lTmp).I32Const(1).LocalSet(lNested)
		}
		when(opNestLocal, func() { nest(func() { b.LocalGet(lRest).Call(fRun) }) })
		when(opNestPeer, func() { nest(func() { b.LocalGet(lRest).Call(peerRun) }) })
		when(opNestGraft, func() {
			nest(func() { b.LocalGet(lRest).LocalGet(lZero).I32Const(graftSlot).Raw(e.OpI32Add).CallIndirect(runType, 0) })
		})
		when(opNestIndirect, func() {
			nest(func() { b.LocalGet(lRest).LocalGet(lZero).I32Const(3).Raw(e.OpI32Add).CallIndirect(runType, 0) })
		})
		for i, addr := range []int32{scratchAt, 65536, scratchAt + 1} {
			addr := addr
			when(byte(opAtomicOK+i), func() {
				// r = atomic(sub = next script byte, addr); log(lo(r)); log(hi(r)); return cnt
				b.LocalGet(lRest).Raw(e.OpI32WrapI64).I32Const(0xff).Raw(e.OpI32And)
				b.LocalGet(lZero).I32Const(addr).Raw(e.OpI32Add)
				b.Call(fAtomic).LocalSet(lRest)
				b.LocalGet(lRest).Raw(e.OpI32WrapI64).Call(fLog)
				b.LocalGet(lRest).I64Const(32).Raw(e.OpI64ShrU).Raw(e.OpI32WrapI64).Call(fLog)
				b.GlobalGet(gCnt).Raw(e.OpI32WrapI64).Return()
			})
		}
		when(opRec+0, func() { b.Call(fRec0); dead() })
		when(opRec+1, func() { b.Call(fRec1000); dead() })
		when(opRec+2, func() { b.Call(fRecV); dead() })
		when(opRec+3, func() {
			for i := 0; i < 5; i++ {
				b.LocalGet(lOp).I64Const(int64(i)).F32(float32(i) + 0.5).F64(float64(i) + 0.25)
			}
			b.Call(fRec20)
			dead()
		})
		// callback: (op & 0xf0) == 0x40; bit 3 = through the table
		for _, via := range []bool{false, true} {
			via := via
			want := int32(opCallback)
			if via {
				want |= opCbTable
			}
			b.LocalGet(lOp).I32Const(opCbMask | opCbTable).Raw(e.OpI32And).I32Const(want).Raw(e.OpI32Eq).If()
			nest(func() {
				b.LocalGet(lOp).I32Const(1).Raw(e.OpI32ShrU).I32Const(3).Raw(e.OpI32And) // target
				b.LocalGet(lOp).I32Const(1).Raw(e.OpI32And)                              // mode
				b.LocalGet(lRest)
				if via {
					b.LocalGet(lZero).I32Const(slotCb).Raw(e.OpI32Add).CallIndirect(tCb, 0)
				} else {
					b.Call(cb)
				}
			})
			b.End()
		}
		// leaf / unknown op
		b.LocalGet(lNested).Raw(e.OpI32Eqz).If()
		b.GlobalGet(gCnt).Raw(e.OpI32WrapI64).Return()
		b.End()
		// post-effects of a nesting level whose callee returned: uses a local kept live across the call
		addCnt(100)
		b.LocalGet(lPre).I32Const(0xffffff).Raw(e.OpI32And).I32Const(-0x56000000).Raw(e.OpI32Or).Call(fLog) // 0xAA000000 | pre
		b.LocalGet(lTmp).I32Const(1).Raw(e.OpI32Add)
		locals := []byte{e.I32, e.I64, e.I32, e.I32, e.I32, e.I32, e.I32}
		if idx := m.AddFunc([]byte{e.I64}, []byte{e.I32}, locals, b.Bytes()); idx != fRun {
			panic("index plan")
		}
	}
	// run2(script, a, f) -> (a ^ 0x5555 + trunc(f), run(script))
	{
		b := e.NewB()
		b.LocalGet(0).Call(fRun).LocalSet(3)
		b.LocalGet(1).I64Const(0x5555).Raw(e.OpI64Xor).LocalGet(2).Raw(0xb0).Raw(e.OpI64Add) // i64.trunc_f64_s
		b.LocalGet(3)
		if idx := m.AddFunc([]byte{e.I64, e.I64, e.F64}, []byte{e.I64, e.I32}, []byte{e.I32}, b.Bytes()); idx != fRun2 {
			panic("index plan")
		}
	}
	m.AddFunc(nil, nil, nil, e.NewB().Nop().Bytes()) // fVoid
	incRec := func(b *e.B) { b.GlobalGet(gRec).I64Const(1).Raw(e.OpI64Add).GlobalSet(gRec) }
	{ // rec0
		b := e.NewB()
		incRec(b)
		b.Call(fRec0)
		m.AddFunc(nil, nil, nil, b.Bytes())
	}
	{ // rec1000: 1000 i64 locals live across the recursive call
		b := e.NewB()
		locals := make([]byte, 1000)
		for i := range locals {
			locals[i] = e.I64
			b.GlobalGet(gRec).I64Const(int64(i)).Raw(e.OpI64Add).LocalSet(uint32(i))
		}
		incRec(b)
		b.Call(fRec1000)
		b.LocalGet(0)
		for i := 1; i < 1000; i++ {
			b.LocalGet(uint32(i)).Raw(e.OpI64Xor)
		}
		b.GlobalSet(gSink)
		m.AddFunc(nil, nil, locals, b.Bytes())
	}
	{ // recv: 16 v128 locals live across the call
		b := e.NewB()
		locals := make([]byte, 16)
		for i := range locals {
			locals[i] = e.V128
			b.GlobalGet(gRec).I64Const(int64(i)).Raw(e.OpI64Add).FD(0x12).LocalSet(uint32(i)) // i64x2.splat
		}
		incRec(b)
		b.Call(fRecV)
		b.LocalGet(0)
		for i := 1; i < 16; i++ {
			b.LocalGet(uint32(i)).FD(0x51) // v128.xor
		}
		b.FD(0x1d, 0).GlobalSet(gSink) // i64x2.extract_lane 0
		m.AddFunc(nil, nil, locals, b.Bytes())
	}
	{ // rec20: 20 parameters of mixed classes, all used after the call
		b := e.NewB()
		incRec(b)
		for i := 0; i < 5; i++ {
			b.LocalGet(uint32(4 * i)).I32Const(1).Raw(e.OpI32Add)
			b.LocalGet(uint32(4*i + 1)).I64Const(1).Raw(e.OpI64Add)
			b.LocalGet(uint32(4*i + 2)).F32(1).Raw(e.OpF32Add)
			b.LocalGet(uint32(4*i + 3)).F64(1).Raw(e.OpF64Add)
		}
		b.Call(fRec20)
		b.I64Const(0)
		for i := 0; i < 5; i++ {
			b.LocalGet(uint32(4 * i)).Raw(e.OpI64ExtendI32U).Raw(e.OpI64Xor)
			b.LocalGet(uint32(4*i + 1)).Raw(e.OpI64Xor)
			b.LocalGet(uint32(4*i + 2)).Raw(e.OpI32ReinterpretF32).Raw(e.OpI64ExtendI32U).Raw(e.OpI64Xor)
			b.LocalGet(uint32(4*i + 3)).Raw(e.OpI64ReinterpretF64).Raw(e.OpI64Xor)
		}
		b.GlobalSet(gSink)
		m.AddFunc(rec20Params, nil, nil, b.Bytes())
	}
	{ // start: run(env.startscript())
		b := e.NewB()
		b.Call(sscript).Call(fRun).Drop()
		if idx := m.AddFunc(nil, nil, nil, b.Bytes()); idx != fStart {
			panic("index plan")
		}
	}
	{ // atomic(sub i32, addr i32) -> i64: executes the atomic instruction `sub` at addr
		b := e.NewB()
		for sub := 0; sub < nAtomicSubs; sub++ {
			b.LocalGet(0).I32Const(int32(sub)).Raw(e.OpI32Eq).If()
			is64, width := atomicShape(sub)
			align := uint32(0)
			for 1<<align < width {
				align++
			}
			v := atomicOperand(sub)
			val := func() {
				if is64 {
					b.I64Const(int64(v))
				} else {
					b.I32Const(int32(uint32(v)))
				}
			}
			ret := func() {
				if !is64 {
					b.Raw(e.OpI64ExtendI32U)
				}
				b.Return()
			}
			switch {
			case sub == 0x00: // memory.atomic.notify(addr, count)
				b.LocalGet(1).I32Const(1).FE(0x00, 2, 0).Raw(e.OpI64ExtendI32U).Return()
			case sub == 0x01: // memory.atomic.wait32(addr, expected, timeout)
				b.LocalGet(1).I32Const(0).I64Const(0).FE(0x01, 2, 0).Raw(e.OpI64ExtendI32U).Return()
			case sub == 0x02: // memory.atomic.wait64
				b.LocalGet(1).I64Const(0).I64Const(0).FE(0x02, 3, 0).Raw(e.OpI64ExtendI32U).Return()
			case sub == 0x03: // atomic.fence
				b.Raw(0xfe, 0x03, 0x00).I64Const(0).Return()
			case sub < 0x10: // unassigned
				b.I64Const(0).Return()
			case sub <= 0x16: // loads
				b.LocalGet(1).FE(uint32(sub), align, 0)
				ret()
			case sub <= 0x1d: // stores
				b.LocalGet(1)
				val()
				b.FE(uint32(sub), align, 0).I64Const(0).Return()
			case sub <= 0x47: // rmw add sub and or xor xchg
				b.LocalGet(1)
				val()
				b.FE(uint32(sub), align, 0)
				ret()
			default: // cmpxchg(addr, expected 0, replacement)
				b.LocalGet(1)
				if is64 {
					b.I64Const(0)
				} else {
					b.I32Const(0)
				}
				val()
				b.FE(uint32(sub), align, 0)
				ret()
			}
			b.End()
		}
		b.I64Const(0)
		if idx := m.AddFunc([]byte{e.I32, e.I32}, []byte{e.I64}, nil, b.Bytes()); idx != fAtomic {
			panic("index plan")
		}
	}
	m.ExportFunc("run", fRun)
	m.ExportFunc("run2", fRun2)
	m.Exports = append(m.Exports,
		e.Export{Name: "cnt", Kind: e.KGlobal, Idx: gCnt},
		e.Export{Name: "rec", Kind: e.KGlobal, Idx: gRec},
		e.Export{Name: "memory", Kind: e.KMem, Idx: 0},
		e.Export{Name: "tbl", Kind: e.KTable, Idx: 0})
	switch start {
	case startSection:
		m.Start = e.P(fStart)
	case startExport:
		m.ExportFunc("_start", fStart)
	}
	m.ModuleName = fmt.Sprintf("guest-peer[%s]-start%d", peer, start)
	return m.Encode()
}

// atomicShape: operand type (i64?) and access width in bytes of the 0xfe-prefixed instruction sub.
func atomicShape(sub int) (is64 bool, width uint32) {
	switch sub {
	case 0x00, 0x01:
		return false, 4
	case 0x02:
		return true, 8
	case 0x03:
		return false, 0
	}
	if sub < 0x10 {
		return false, 0
	}
	// groups of 7: i32, i64, i32 8, i32 16, i64 8, i64 16, i64 32
	k := (sub - 0x10) % 7
	return k == 1 || k >= 4, []uint32{4, 8, 1, 2, 1, 2, 4}[k]
}

func atomicOperand(sub int) uint64 { return 0x0123456789abcdef ^ uint64(sub)*0x0101010101010101 }

// buildGraft encodes a module that imports the table of instance owner, stores its own function
// (script i64) -> i32 = graftBase+k into slot graftSlot with an active element segment and then,
// if failing, traps in its start function: the instantiation fails after the table was written.
func buildGraft(owner string, k int, failing bool) []byte {
	m := &e.Module{}
	m.Imports = append(m.Imports, e.Import{Mod: owner, Name: "tbl", Kind: e.KTable, Desc: e.TableType(e.FuncRef, 10, 10)})
	f := m.AddFunc([]byte{e.I64}, []byte{e.I32}, nil, e.NewB().I32Const(int32(graftBase+k)).Bytes())
	st := m.AddFunc(nil, nil, nil, e.NewB().Unreachable().Bytes())
	m.Elems = [][]byte{e.ActiveElemFuncs(graftSlot, []uint32{f})}
	if failing {
		m.Start = e.P(st)
	}
	return m.Encode()
}
