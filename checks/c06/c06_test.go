// C06 — traps, exits and host panics are contained and leave the runtime usable.
//
// A history is a list of calls on the SAME api.Function objects (`run` and `run2` of 1-3 guest
// instances, see guest_test.go) plus instantiations of further guests whose start function runs
// a script. Each call carries a script that nests guest->guest (direct, imported, indirect) and
// guest->host->guest (host callback obtaining a fresh api.Function) and ends in success or in one
// of the documented failures. After every step the returned error and the complete observable
// state of every instance (counter global, memory log, closed flag) are compared with the
// reference state machine of model_test.go, i.e. with a never-failed twin driven to the same state.
package c06

import (
	"context"
	"encoding/json"
	"errors"
	"fmt"
	"os"
	"runtime"
	"runtime/debug"
	"strings"
	"sync"
	"sync/atomic"
	"testing"
	"time"

	"github.com/tetratelabs/wazero"
	"github.com/tetratelabs/wazero/api"
	"github.com/tetratelabs/wazero/imports/wasi_snapshot_preview1"
	"github.com/tetratelabs/wazero/sys"
	"pgregory.net/rapid"

	"verif/internal/evid"
	"verif/internal/wz"
)

func TestMain(m *testing.M) { evid.Main(m, "C06") }

// stepWatchdog: the slowest legitimate step (stack exhaustion under the compiler) takes well
// under a second, a few seconds on a heavily loaded machine.
const stepWatchdog = 30 * time.Second

var inReplay atomic.Bool

// Step is one element of a history.
type Step struct {
	Kind  string `json:"kind"`            // "call" | "start"
	Inst  int    `json:"inst"`            // call: instance index; start: the instance imported as peer
	Fn    int    `json:"fn,omitempty"`    // call: 0 = run, 1 = run2
	Start int    `json:"start,omitempty"` // start: 1 = wasm start section, 2 = exported _start
	Ops   []int  `json:"ops"`             // script bytes, outermost first
	// kind "graft": a module (instantiated from its bytes, so that nothing else keeps its code) that
	// imports the table of instance Inst, stores its function returning graftBase+K in slot 9 and
	// then, if Start != 0, traps in its start function. A collection and a pause for finalizers
	// follow: what it left in the table must stay callable.
	K int `json:"k,omitempty"`
	// Ctx is the context of the step: "" = Background; "cancel" = a context.WithCancel that is
	// cancelled right after the step returned; "deadline" = a context whose deadline is reached
	// right after the step returned. Either way the context is live for the whole call.
	Ctx  string `json:"ctx,omitempty"`
	Desc string `json:"desc,omitempty"`
}

// Case is a replayable history.
type Case struct {
	Engine string `json:"engine"`
	NInst  int    `json:"ninst"`
	// FinalCode: the history ends with Runtime.Close (0) / Runtime.CloseWithExitCode(FinalCode)
	FinalCode uint32 `json:"final_code,omitempty"`
	// CloseOnDone runs the history with RuntimeConfig.WithCloseOnContextDone(true)
	CloseOnDone bool   `json:"close_on_context_done,omitempty"`
	Steps       []Step `json:"steps"`
}

// ---- host side ----

var errBoom = errors.New("boom-error")

type panicStruct struct {
	A int
	B string
}

type panicErr struct{ Code int }

func (p *panicErr) Error() string { return fmt.Sprintf("boom-error-struct-%d", p.Code) }

var thePanicStruct = panicStruct{A: 7, B: "boom-struct"}

type world struct {
	ctx         context.Context
	rt          wazero.Runtime
	insts       []api.Module
	fns         [][2]api.Function
	startScript uint64
	compiled    map[string]wazero.CompiledModule
	trace       []string // host function calls: "<fn>:<name of the module the host function was given>"
}

func (w *world) saw(fn string, mod api.Module) {
	name := "<nil>"
	if mod != nil {
		name = mod.Name()
	}
	w.trace = append(w.trace, fn+":"+name)
}

// hostPeek reads the log length from the memory of the module it is given: the calling guest.
func (w *world) hostPeek(ctx context.Context, mod api.Module) uint32 {
	w.saw("peek", mod)
	v, ok := mod.Memory().ReadUint32Le(0)
	if !ok {
		panic("peek: memory of the calling module is unreadable")
	}
	return v
}

func (w *world) hostPanic(kind uint32) {
	switch kind {
	case 0:
		panic(errBoom)
	case 1:
		panic("boom-string")
	case 2:
		panic(thePanicStruct)
	case 3:
		panic(&panicErr{Code: 9})
	case 4:
		var p *panicStruct
		_ = p.A // nil dereference: a Go runtime error inside the host function
	default:
		var s []int
		i := int(kind)
		_ = s[i] // index out of range
	}
}

func (w *world) hostClose(ctx context.Context, mod api.Module, code uint32, noReturn uint32) {
	w.saw("hclose", mod)
	_ = mod.CloseWithExitCode(ctx, code)
	if noReturn != 0 {
		panic(sys.NewExitError(code))
	}
}

// hostCallback is the re-entrant host function: it obtains a fresh api.Function and calls it
// with the context it was given. mode 0 re-panics with the error, mode 1 swallows it.
func (w *world) hostCallback(ctx context.Context, mod api.Module, target, mode uint32, script uint64) uint32 {
	w.saw("cb", mod)
	tm := mod
	if target < 3 && int(target) < len(w.insts) {
		tm = w.insts[target]
	}
	f := tm.ExportedFunction("run")
	res, err := f.Call(ctx, script)
	if err != nil {
		if mode == 0 {
			panic(err)
		}
		return 0xffffffff
	}
	return uint32(res[0])
}

var (
	cacheMu sync.Mutex
	caches  = map[string]wazero.CompilationCache{}
	bins    = map[string][]byte{}
)

func cacheFor(engine string) wazero.CompilationCache {
	cacheMu.Lock()
	defer cacheMu.Unlock()
	c, ok := caches[engine]
	if !ok {
		c = wazero.NewCompilationCache()
		caches[engine] = c
	}
	return c
}

func guestBin(peer string, start int) []byte {
	cacheMu.Lock()
	defer cacheMu.Unlock()
	k := fmt.Sprintf("%s/%d", peer, start)
	b, ok := bins[k]
	if !ok {
		b = buildGuest(peer, start)
		bins[k] = b
	}
	return b
}

func newWorld(ctx context.Context, engine string, ninst int, closeOnDone bool) (*world, error) {
	w := &world{ctx: ctx, compiled: map[string]wazero.CompiledModule{}}
	w.rt = wazero.NewRuntimeWithConfig(ctx, wz.Config(engine).WithCloseOnContextDone(closeOnDone).
		WithCompilationCache(cacheFor(fmt.Sprintf("%s/%v", engine, closeOnDone))))
	if _, err := wasi_snapshot_preview1.Instantiate(ctx, w.rt); err != nil {
		return nil, err
	}
	_, err := w.rt.NewHostModuleBuilder("env").
		NewFunctionBuilder().WithFunc(func(ctx context.Context, mod api.Module, k uint32) { w.saw("hp", mod); w.hostPanic(k) }).Export("hp").
		NewFunctionBuilder().WithFunc(w.hostPeek).Export("peek").
		NewFunctionBuilder().WithFunc(w.hostClose).Export("hclose").
		NewFunctionBuilder().WithFunc(w.hostCallback).Export("cb").
		NewFunctionBuilder().WithFunc(func(ctx context.Context) uint64 { return w.startScript }).Export("startscript").
		Instantiate(ctx)
	if err != nil {
		return nil, err
	}
	for i := 0; i < ninst; i++ {
		peer := ""
		if i > 0 {
			peer = fmt.Sprintf("m%d", i-1)
		}
		mod, err := w.instantiate(peer, startNone, fmt.Sprintf("m%d", i))
		if err != nil {
			return nil, err
		}
		w.insts = append(w.insts, mod)
		w.fns = append(w.fns, [2]api.Function{mod.ExportedFunction("run"), mod.ExportedFunction("run2")})
	}
	return w, nil
}

func (w *world) instantiate(peer string, start int, name string) (api.Module, error) {
	return w.instantiateCtx(w.ctx, peer, start, name)
}

func (w *world) instantiateCtx(ctx context.Context, peer string, start int, name string) (api.Module, error) {
	// one CompiledModule per guest variant for the whole history: whatever happened to earlier
	// instantiations of it (a start function that trapped, panicked or exited, a link error), the
	// caller's CompiledModule must still instantiate
	key := fmt.Sprintf("%s/%d", peer, start)
	cm := w.compiled[key]
	if cm == nil {
		var err error
		if cm, err = w.rt.CompileModule(w.ctx, guestBin(peer, start)); err != nil {
			return nil, fmt.Errorf("harness: compile: %w", err)
		}
		w.compiled[key] = cm
	}
	return w.rt.InstantiateModule(ctx, cm, wazero.NewModuleConfig().WithName(name))
}

// ---- classification ----

// classify is wz.Classify extended by the wrapping that instantiation adds around a failure of
// a start function ("start function[..] failed: ", "module[..] function[_start] failed: ").
func classify(err error) wz.Outcome {
	o := wz.Classify(err)
	if o.Kind != wz.KOther {
		return o
	}
	first := strings.SplitN(err.Error(), "\n", 2)[0]
	if i := strings.Index(first, "failed: "); i >= 0 && (strings.HasPrefix(first, "start ") || strings.HasPrefix(first, "module[")) {
		rest := first[i+len("failed: "):]
		switch {
		case strings.HasPrefix(rest, "wasm error: stack overflow"):
			return wz.Outcome{Kind: wz.KStack}
		case strings.HasPrefix(rest, "wasm error: "):
			return wz.Outcome{Kind: wz.KTrap, Detail: strings.TrimPrefix(rest, "wasm error: ")}
		case strings.Contains(rest, "(recovered by wazero)"):
			return wz.Outcome{Kind: wz.KPanic, Detail: rest}
		}
	}
	return o
}

// matches compares the error of a step with the failure predicted by the model ("" = agree).
func matches(err error, want *failure) string {
	got := classify(err)
	if want == nil {
		if err != nil {
			return fmt.Sprintf("got error %s (%q), the model predicts success", got, firstLine(err))
		}
		return ""
	}
	if err == nil {
		return fmt.Sprintf("got success, the model predicts %s", want)
	}
	bad := func() string {
		return fmt.Sprintf("got error %s (%q), the model predicts %s", got, firstLine(err), want)
	}
	text := err.Error()
	switch want.Kind {
	case "trap":
		if got.Kind != wz.KTrap || got.Detail != want.Detail {
			return bad()
		}
	case "stack":
		if got.Kind != wz.KStack {
			return bad()
		}
	case "exit":
		var ee *sys.ExitError
		if !errors.As(err, &ee) || ee.ExitCode() != want.Code {
			return bad()
		}
	case "link":
		if got.Kind != wz.KOther {
			return bad()
		}
	case "panic":
		var re runtime.Error
		isRuntime := errors.As(err, &re)
		if !strings.Contains(text, "(recovered by wazero)") {
			return bad()
		}
		switch want.Panic {
		case 0:
			if !errors.Is(err, errBoom) || isRuntime {
				return bad()
			}
		case 1:
			if !strings.Contains(text, "boom-string") || isRuntime {
				return bad()
			}
		case 2:
			if !strings.Contains(text, fmt.Sprintf("%v", thePanicStruct)) || isRuntime {
				return bad()
			}
		case 3:
			var pe *panicErr
			if !errors.As(err, &pe) || pe.Code != 9 || isRuntime {
				return bad()
			}
		case 4:
			if !isRuntime || !strings.Contains(text, "nil pointer dereference") {
				return bad()
			}
		default:
			if !isRuntime || !strings.Contains(text, "index out of range") {
				return bad()
			}
		}
	}
	return ""
}

func firstLine(err error) string {
	if err == nil {
		return ""
	}
	s := strings.SplitN(err.Error(), "\n", 2)[0]
	if len(s) > 200 {
		s = s[:200]
	}
	return s
}

// ---- state comparison ----

func readState(mod api.Module) (cnt, rec uint64, log []uint32, msg string) {
	gc, gr, mem := mod.ExportedGlobal("cnt"), mod.ExportedGlobal("rec"), mod.Memory()
	if gc == nil || gr == nil || mem == nil {
		return 0, 0, nil, "exports cnt/rec/memory are not reachable"
	}
	cnt, rec = gc.Get(), gr.Get()
	n, ok := mem.ReadUint32Le(0)
	if !ok {
		return cnt, rec, nil, "log length is unreadable"
	}
	if n > logCap {
		return cnt, rec, nil, fmt.Sprintf("log length %d beyond the capacity", n)
	}
	for i := uint32(0); i < n; i++ {
		v, _ := mem.ReadUint32Le(logBase + 4*i)
		log = append(log, v)
	}
	if z, _ := mem.ReadUint32Le(zeroAt); z != 0 {
		return cnt, rec, log, "the constant-zero word of the memory changed"
	}
	return
}

func compareInst(name string, mod api.Module, in *minst) string {
	cnt, rec, log, msg := readState(mod)
	if msg != "" {
		return name + ": " + msg
	}
	if cnt != in.cnt {
		return fmt.Sprintf("%s: counter global is %d, the model (all effects before a failure persist, none after) has %d", name, cnt, in.cnt)
	}
	if in.recDirty {
		// resource limit reached: how many frames ran is engine specific; it must have grown
		if rec <= in.rec {
			return fmt.Sprintf("%s: recursion counter %d did not grow (was %d) although the recursion ran into stack exhaustion", name, rec, in.rec)
		}
		in.recDelta += rec - in.rec
		in.rec, in.recDirty = rec, false
	} else if rec != in.rec {
		return fmt.Sprintf("%s: recursion counter is %d, the model has %d", name, rec, in.rec)
	}
	if len(log) != len(in.log) {
		return fmt.Sprintf("%s: memory log has %d entries, the model has %d (tail got %s, want %s)", name, len(log), len(in.log), tail(log), tail(in.log))
	}
	for i := range log {
		if log[i] != in.log[i] {
			return fmt.Sprintf("%s: memory log entry %d is %#x, the model has %#x", name, i, log[i], in.log[i])
		}
	}
	if sc, ok := mod.Memory().Read(scratchAt, 8); !ok || string(sc) != string(in.scratch[:]) {
		return fmt.Sprintf("%s: the bytes the atomic instructions work on are % x, the model has % x", name, sc, in.scratch[:])
	}
	if mod.IsClosed() != in.closed {
		return fmt.Sprintf("%s: IsClosed()=%v, the model has %v", name, mod.IsClosed(), in.closed)
	}
	return ""
}

func tail(l []uint32) string {
	if len(l) > 4 {
		l = l[len(l)-4:]
	}
	return fmt.Sprintf("%x", l)
}

// checkRegistry: the host modules stay open and registered whatever the guests did, and every
// instance the model has open is still the one registered under its name.
func (w *world) checkRegistry(m *model) string {
	for _, name := range []string{"env", wasi_snapshot_preview1.ModuleName} {
		hm := w.rt.Module(name)
		if hm == nil {
			return fmt.Sprintf("host module %q is no longer registered in the runtime", name)
		}
		if hm.IsClosed() {
			return fmt.Sprintf("host module %q is closed", name)
		}
	}
	for i, mod := range w.insts {
		if !m.insts[i].closed && w.rt.Module(m.insts[i].name) != mod {
			return fmt.Sprintf("instance %s is open in the model but is no longer the module registered under its name", m.insts[i].name)
		}
	}
	return ""
}

// doneLater is a context whose deadline is "reached" when expire is called: Done is closed and
// Err reports context.DeadlineExceeded, like a context.WithDeadline whose time has come, but at a
// moment the harness chooses (after the call returned) instead of the wall clock.
type doneLater struct {
	context.Context
	mu   sync.Mutex
	done chan struct{}
	err  error
}

func (d *doneLater) Done() <-chan struct{} { return d.done }
func (d *doneLater) Err() error {
	d.mu.Lock()
	defer d.mu.Unlock()
	return d.err
}
func (d *doneLater) Deadline() (time.Time, bool) { return time.Now().Add(time.Hour), true }
func (d *doneLater) expire() {
	d.mu.Lock()
	defer d.mu.Unlock()
	if d.err == nil {
		d.err = context.DeadlineExceeded
		close(d.done)
	}
}

func stepContext(parent context.Context, kind string) (context.Context, func()) {
	settle := func() {
		// give a goroutine that (wrongly) still watches the context the chance to act before the
		// state is compared
		for i := 0; i < 3; i++ {
			runtime.Gosched()
		}
	}
	switch kind {
	case "cancel":
		ctx, cancel := context.WithCancel(parent)
		return ctx, func() { cancel(); settle() }
	case "deadline":
		d := &doneLater{Context: parent, done: make(chan struct{})}
		return d, func() { d.expire(); settle() }
	}
	return parent, func() {}
}

// ---- running a case ----

type runStats struct {
	nontrivial  bool
	labels      map[string]bool
	recursions  int
	failAtTop   int
	okAfterFail int
}

// runCase executes the history against wazero and the model; it returns a message when they
// disagree ("" = the property held on this history).
func runCase(c *Case) (msg string, st runStats) {
	st.labels = map[string]bool{}
	if c.NInst < 1 || c.NInst > 3 {
		return "", st
	}
	ctx := context.Background()
	w, err := newWorld(ctx, c.Engine, c.NInst, c.CloseOnDone)
	if err != nil {
		return "harness: cannot build the world: " + err.Error(), st
	}
	defer w.rt.Close(ctx)
	m := newModel(c.NInst)
	// a step that does not return at all (a contained failure must leave the runtime usable, not
	// blocked) ends the process; the driver re-runs the journaled history alone
	var curStep atomic.Int32
	wd := time.AfterFunc(stepWatchdog, func() {
		b, _ := json.Marshal(c)
		k := int(curStep.Load())
		desc := ""
		if k < len(c.Steps) {
			desc = describeOps(c.Steps[k].Ops)
		}
		msg := fmt.Sprintf("step %d (%s) of the history did not return within %v on %s: the runtime is blocked after the earlier steps; case: %s", k, desc, stepWatchdog, c.Engine, b)
		if inReplay.Load() {
			evid.Violation("replay", c, "%s", msg)
		}
		fmt.Fprintf(os.Stderr, "\nfatal error: C06 watchdog: %s\n", msg)
		os.Exit(3)
	})
	defer wd.Stop()
	// failedFn[i][fn] / failedInst[i]: a failing call was seen on that function object / instance
	failedFn := map[[2]int]bool{}
	failedInst := map[int]bool{}
	recFrames := map[string]uint64{}
	lbl := func(s string) { st.labels[s] = true }
	lbl("engine:" + c.Engine)
	lbl(fmt.Sprintf("instances:%d", c.NInst))
	if c.CloseOnDone {
		lbl("close-on-context-done")
	}

	for k, s := range c.Steps {
		where := func() string {
			return fmt.Sprintf("step %d (%s inst=%d fn=%d start=%d script: %s) on %s", k, s.Kind, s.Inst, s.Fn, s.Start, describeOps(s.Ops), c.Engine)
		}
		if s.Inst < 0 || s.Inst >= c.NInst {
			continue
		}
		curStep.Store(int32(k))
		wd.Reset(stepWatchdog)
		script := pack(s.Ops)
		// the context of this step; finish() makes it done once the step has returned, which must
		// not have any effect: the call is over, whether it succeeded or its failure was contained
		sctx, finish := stepContext(ctx, s.Ctx)
		if s.Ctx != "" {
			lbl("step-context:" + s.Ctx)
		}
		*m = model{insts: m.insts, nmain: m.nmain}
		w.trace = nil
		for _, in := range m.insts {
			in.recDelta = 0
		}
		switch s.Kind {
		case "call":
			var want *failure
			var wantRes uint32
			wantRes, want = m.apiCall(s.Inst, script, 1, 0)
			var res []uint64
			var cerr error
			var escaped any
			func() {
				defer func() { escaped = recover() }()
				if s.Fn == 1 {
					res, cerr = w.fns[s.Inst][1].Call(sctx, script, 0x1234, api.EncodeF64(3.0))
				} else {
					res, cerr = w.fns[s.Inst][0].Call(sctx, script)
				}
			}()
			if escaped != nil {
				return fmt.Sprintf("%s: a panic escaped api.Function.Call: %v", where(), escaped), st
			}
			if d := matches(cerr, want); d != "" {
				return where() + ": " + d, st
			}
			if want == nil {
				ok := false
				if s.Fn == 1 {
					ok = len(res) == 2 && res[0] == (0x1234^0x5555)+3 && uint32(res[1]) == wantRes
				} else {
					ok = len(res) == 1 && uint32(res[0]) == wantRes
				}
				if !ok {
					return fmt.Sprintf("%s: results %v, the model predicts %d", where(), res, wantRes), st
				}
				if failedFn[[2]int{s.Inst, s.Fn}] || failedInst[s.Inst] {
					st.nontrivial = true
					st.okAfterFail++
				}
				if failedFn[[2]int{s.Inst, s.Fn}] {
					lbl("ok-after-failure-on-same-function-object")
				}
			} else {
				failedFn[[2]int{s.Inst, s.Fn}] = true
				failedInst[s.Inst] = true
				st.failAtTop++
				switch want.Kind {
				case "trap":
					lbl("fail:trap:" + want.Detail)
				case "panic":
					lbl("fail:host-panic:" + panicNames[want.Panic])
				case "exit":
					if want.Code == 0 {
						lbl("fail:exit:0")
					} else {
						lbl("fail:exit:non-zero")
					}
				default:
					lbl("fail:" + want.Kind)
				}
			}
		case "start":
			if s.Start != startSection && s.Start != startExport {
				continue
			}
			lbl(fmt.Sprintf("start-step:%d", s.Start))
			m.insts = append(m.insts, &minst{peer: s.Inst, name: "s"})
			si := len(m.insts) - 1
			var want *failure
			if m.insts[s.Inst].closed {
				// the instance to import from was closed, hence removed from the runtime
				want = &failure{Kind: "link"}
				lbl("start-step:peer-closed")
			} else {
				_, want = m.apiCall(si, script, 1, 0)
			}
			sm := m.insts[si]
			m.insts = m.insts[:si]
			w.startScript = script
			var mod api.Module
			var ierr error
			var escaped any
			func() {
				defer func() { escaped = recover() }()
				mod, ierr = w.instantiateCtx(sctx, fmt.Sprintf("m%d", s.Inst), s.Start, "s")
			}()
			if escaped != nil {
				return fmt.Sprintf("%s: a panic escaped InstantiateModule: %v", where(), escaped), st
			}
			if s.Start == startExport && want != nil && want.Kind == "exit" && want.Code == 0 {
				want = nil       // documented: _start exiting with 0 is success
				sm.closed = true // InstantiateModule closes the module whenever _start ended with an error value
			}
			if d := matches(ierr, want); d != "" {
				return where() + ": instantiation: " + d, st
			}
			if want == nil {
				if mod == nil {
					return where() + ": InstantiateModule returned neither a module nor an error", st
				}
				if d := compareInst("start instance", mod, sm); d != "" {
					return where() + ": " + d, st
				}
				lbl("start-step:ok")
			} else {
				lbl("start-step:fail:" + want.Kind)
			}
			if mod != nil {
				mod.Close(ctx)
			}
		case "graft":
			owner := m.insts[s.Inst]
			failing := s.Start != 0
			var want *failure
			switch {
			case owner.closed:
				want = &failure{Kind: "link"}
			case failing:
				want = &failure{Kind: "trap", Detail: "unreachable"}
				owner.grafted, owner.graftK = true, s.K
			default:
				owner.grafted, owner.graftK = true, s.K
			}
			lbl(fmt.Sprintf("graft-step:failing=%v", failing))
			var ierr error
			var escaped any
			func() {
				defer func() { escaped = recover() }()
				_, ierr = w.rt.InstantiateWithConfig(sctx, buildGraft(owner.name, s.K, failing), wazero.NewModuleConfig().WithName(fmt.Sprintf("graft%d", k)))
			}()
			if escaped != nil {
				return fmt.Sprintf("%s: a panic escaped InstantiateWithConfig: %v", where(), escaped), st
			}
			if d := matches(ierr, want); d != "" {
				return where() + ": instantiation: " + d, st
			}
			// let the collector and the finalizers do what they want to do with the failed instance
			runtime.GC()
			time.Sleep(3 * time.Millisecond)
		default:
			continue
		}
		finish()
		if m.maxDepth >= 2 {
			lbl(fmt.Sprintf("nesting-depth:%d", m.maxDepth))
		}
		if m.hostDepth > 0 {
			lbl(fmt.Sprintf("guest-host-guest-depth:%d", m.hostDepth))
		}
		if m.swallowed > 0 {
			lbl("nested-failure-swallowed-by-host")
		}
		if m.propagated > 0 {
			lbl("nested-failure-re-panicked-by-host")
		}
		if m.crossInst > 0 {
			lbl("cross-instance-nesting")
		}
		if m.onClosed > 0 {
			lbl("call-on-closed-instance")
		}
		if m.graftCalls > 0 {
			lbl("call-of-table-entry-left-by-another-module")
		}
		if m.viaTable > 0 {
			lbl("host-function-reached-through-table")
		}
		// which module every host function call was given: the instance whose code made the call
		if fmt.Sprint(w.trace) != fmt.Sprint(m.trace) {
			return fmt.Sprintf("%s: the host functions were called for modules %v, the model (a host function is given the calling guest instance) has %v", where(), w.trace, m.trace), st
		}
		if d := w.checkRegistry(m); d != "" {
			return where() + ": " + d, st
		}
		for i := 0; i < len(s.Ops); i++ {
			op := s.Ops[i]
			if isTerminalWithArg(op) {
				if byte(op) >= opAtomicOK && byte(op) <= opAtomicUnaligned {
					lbl([]string{"atomic:at-scratch", "atomic:beyond-memory", "atomic:odd-address"}[byte(op)-opAtomicOK])
				}
				break // what follows is the argument
			}
			if byte(op) >= opRec && byte(op) < opRec+nRecKinds {
				st.recursions++
				lbl("recursion:" + recNames[byte(op)-opRec])
			}
		}
		var frames uint64
		for i, mod := range w.insts {
			if d := compareInst(fmt.Sprintf("instance m%d after %s", i, where()), mod, m.insts[i]); d != "" {
				return d, st
			}
			frames += m.insts[i].recDelta
		}
		if frames > 0 && s.Kind == "call" {
			// The number of frames a stack-exhausting call reaches is an engine-specific but
			// deterministic resource limit: an earlier failure must not eat into it, so the same
			// call on the same function object reaches the same depth again.
			key := fmt.Sprintf("%d/%d/%x", s.Inst, s.Fn, script)
			if prev, ok := recFrames[key]; ok {
				lbl("recursion-repeated-on-same-function-object:" + c.Engine)
				if prev != frames {
					return fmt.Sprintf("%s: this stack-exhausting call ran %d recursion steps; the identical call on the same function object earlier in the history ran %d", where(), frames, prev), st
				}
			}
			recFrames[key] = frames
		}
	}
	// the runtime is still usable: a further guest links against the host modules and runs
	if mod, err := w.instantiate("", startNone, "probe"); err != nil {
		return fmt.Sprintf("after the history on %s: a new guest cannot be instantiated any more: %v", c.Engine, firstLine(err)), st
	} else if r, err := mod.ExportedFunction("run").Call(ctx, pack([]int{opPeek})); err != nil || len(r) != 1 || r[0] != 1 {
		return fmt.Sprintf("after the history on %s: a new guest's first call gives (%v, %v), expected 1", c.Engine, r, err), st
	}
	// Finally the runtime is closed: whatever contained failures happened before, every instance
	// that is still open is closed by it (the instances, the probe), with the code given; instances
	// that exited before keep their code; calls return the exit error.
	probe := w.rt.Module("probe")
	if c.FinalCode == 0 {
		w.rt.Close(ctx)
	} else {
		w.rt.CloseWithExitCode(ctx, c.FinalCode)
	}
	all := append([]api.Module{}, w.insts...)
	want := []uint32{}
	for i := range w.insts {
		code := c.FinalCode
		if m.insts[i].closed {
			code = m.insts[i].code
		}
		want = append(want, code)
	}
	if probe != nil {
		all, want = append(all, probe), append(want, c.FinalCode)
	}
	for i, mod := range all {
		if !mod.IsClosed() {
			return fmt.Sprintf("after the history on %s: Runtime.Close left instance %s open (IsClosed()=false)", c.Engine, mod.Name()), st
		}
		_, err := mod.ExportedFunction("run").Call(ctx, pack([]int{opLeaf}))
		var ee *sys.ExitError
		if !errors.As(err, &ee) || ee.ExitCode() != want[i] {
			return fmt.Sprintf("after the history on %s: Runtime.Close(code %d): a call on instance %s gives %v, expected sys.ExitError with code %d", c.Engine, c.FinalCode, mod.Name(), err, want[i]), st
		}
	}
	if st.recursions > 0 && c.Engine == "compiler" {
		// the abandoned native stacks are large; give them back before the next history
		debug.FreeOSMemory()
	}
	return "", st
}

// ---- generator ----

var exitBytes = []int{0, 0, 1, 2, 3, 42, 255}

func genOps(t *rapid.T, ninst int, recBudget *int, inStart bool) []int {
	var ops []int
	nest := rapid.SampledFrom([]int{0, 0, 0, 0, 1, 1, 1, 2, 2, 3, 4, 5}).Draw(t, "nest")
	for i := 0; i < nest; i++ {
		switch rapid.SampledFrom([]string{"cb", "cb", "cb", "cb", "cb", "cb", "local", "local", "peer", "peer", "peer", "peer", "indirect", "indirect", "graft"}).Draw(t, "nest-kind") {
		case "graft":
			ops = append(ops, opNestGraft)
		case "cb":
			tgt := rapid.IntRange(0, 3).Draw(t, "cb-target")
			if tgt < 3 && tgt >= ninst {
				tgt = 3
			}
			if inStart && tgt == 3 {
				// mod.ExportedFunction on a module that is still being instantiated is not
				// something callers are documented to do
				tgt = 0
			}
			ops = append(ops, opCallback|tgt<<1|rapid.IntRange(0, 1).Draw(t, "cb-mode")|opCbTable*rapid.IntRange(0, 1).Draw(t, "cb-via-table"))
		case "local":
			ops = append(ops, opNestLocal)
		case "peer":
			ops = append(ops, opNestPeer)
		default:
			ops = append(ops, opNestIndirect)
		}
	}
	term := rapid.SampledFrom([]string{"ok", "ok", "ok", "ok", "ok", "atomic", "atomic", "peek", "trap", "trap", "trap", "trap", "panic", "panic", "exit", "rec"}).Draw(t, "terminal")
	via := 0
	if term == "peek" || term == "panic" || term == "exit" {
		via = opViaTable * rapid.IntRange(0, 1).Draw(t, "via-table")
	}
	if term == "rec" && *recBudget == 0 {
		term = "trap"
	}
	switch term {
	case "ok":
		ops = append(ops, opLeaf)
	case "trap":
		ops = append(ops, rapid.IntRange(opUnreachable, opAtomicRMWOOB).Draw(t, "trap"))
	case "panic":
		ops = append(ops, via+opHostPanic+rapid.IntRange(0, nPanicKinds-1).Draw(t, "panic"))
	case "peek":
		ops = append(ops, via+opPeek)
	case "atomic":
		ops = append(ops, genAtomic(t)...)
	case "exit":
		ops = append(ops, via+rapid.SampledFrom([]int{opProcExit, opProcExit, opCloseCont, opCloseTrap, opCloseNoRet}).Draw(t, "exit-kind"),
			rapid.SampledFrom(exitBytes).Draw(t, "exit-code"))
	case "rec":
		*recBudget--
		ops = append(ops, opRec+rapid.IntRange(0, nRecKinds-1).Draw(t, "frame"))
	}
	return ops
}

// genAtomic draws an atomic instruction of any kind and width, at the scratch word (success, or
// the trap of wait on an unshared memory), beyond the memory, or at an odd address.
func genAtomic(t *rapid.T) []int {
	sub := rapid.IntRange(0x10, nAtomicSubs-1).Draw(t, "atomic-instruction")
	if rapid.IntRange(0, 7).Draw(t, "atomic-special") == 0 {
		sub = rapid.IntRange(0, 3).Draw(t, "notify-wait-fence")
	}
	mode := rapid.SampledFrom([]int{0, 0, 0, 1, 1, 2}).Draw(t, "atomic-address")
	if sub == 0x01 || sub == 0x02 {
		mode = 0 // wait on an unshared memory traps whatever the address; which trap wins is not specified here
	}
	return []int{opAtomicOK + mode, sub}
}

func genCase(t *rapid.T) *Case {
	c := &Case{Engine: rapid.SampledFrom(wz.Engines).Draw(t, "engine"), NInst: rapid.IntRange(1, 3).Draw(t, "ninst")}
	c.CloseOnDone = rapid.Bool().Draw(t, "close-on-context-done")
	c.FinalCode = rapid.SampledFrom([]uint32{0, 0, 7, 0xfffffffe}).Draw(t, "final-code")
	n := rapid.IntRange(5, 40).Draw(t, "nsteps")
	withGraft := rapid.IntRange(0, 5).Draw(t, "with-graft") == 0 // graft steps force collections: in a share of the histories only
	// stack exhaustion costs 0.1-0.6 s under the compiler: at most 2 per history, and only in a
	// share of the histories
	recBudget, lastRec := 0, -1
	if rapid.IntRange(0, 9).Draw(t, "with-recursion") < recShare(c.Engine) {
		recBudget = 2
	}
	for k := 0; k < n; k++ {
		s := Step{Kind: "call", Inst: rapid.IntRange(0, c.NInst-1).Draw(t, "inst")}
		if withGraft && rapid.IntRange(0, 11).Draw(t, "graft?") == 0 {
			// another module writes into this instance's table and (mostly) fails afterwards; then
			// the instance calls what was left there, now and later
			g := Step{Kind: "graft", Inst: s.Inst, Start: rapid.SampledFrom([]int{1, 1, 1, 0}).Draw(t, "graft-fails"), K: rapid.IntRange(0, 3).Draw(t, "graft-k")}
			g.Ctx = rapid.SampledFrom([]string{"", "cancel"}).Draw(t, "step-context")
			c.Steps = append(c.Steps, g, Step{Kind: "call", Inst: s.Inst, Fn: rapid.IntRange(0, 1).Draw(t, "fn"), Ops: []int{opNestGraft, opLeaf}, Desc: describeOps([]int{opNestGraft, opLeaf})})
			k++
			continue
		}
		if rapid.IntRange(0, 11).Draw(t, "start?") == 0 {
			s.Kind = "start"
			s.Start = rapid.IntRange(startSection, startExport).Draw(t, "start-kind")
		} else {
			s.Fn = rapid.SampledFrom([]int{0, 0, 1}).Draw(t, "fn")
		}
		if recBudget == 1 && lastRec >= 0 && s.Kind == "call" && rapid.IntRange(0, 7).Draw(t, "repeat-recursion") == 0 {
			// the same stack-exhausting call once more, on the same function object
			recBudget = 0
			c.Steps = append(c.Steps, c.Steps[lastRec])
			continue
		}
		before := recBudget
		s.Ctx = rapid.SampledFrom([]string{"", "", "cancel", "cancel", "deadline"}).Draw(t, "step-context")
		s.Ops = genOps(t, c.NInst, &recBudget, s.Kind == "start")
		s.Desc = describeOps(s.Ops)
		c.Steps = append(c.Steps, s)
		if recBudget < before && s.Kind == "call" {
			lastRec = len(c.Steps) - 1
		}
	}
	return c
}

func recShare(engine string) int {
	if engine == "compiler" {
		return 1
	}
	return 4
}

// isTerminalWithArg: the script byte after this operation is its argument, not an operation.
func isTerminalWithArg(op int) bool {
	b := byte(op)
	if b >= opAtomicOK && b <= opAtomicUnaligned {
		return true
	}
	if b >= 0x10+opViaTable && b < 0x20+opViaTable {
		b -= opViaTable
	}
	return b == opProcExit || b == opCloseCont || b == opCloseTrap || b == opCloseNoRet
}

func caseKey(c *Case) uint64 {
	b, _ := json.Marshal(c)
	return evid.Key(b)
}

func TestHistories(t *testing.T) {
	if evid.ReplayPath() != "" {
		t.Skip()
	}
	evid.Check(t, "histories", evid.Scale(1600, 128000), func(t *rapid.T) {
		c := genCase(t)
		evid.Journal(c)
		msg, st := runCase(c)
		if msg != "" {
			evid.Fail(t, c, "%s", msg)
		}
		var lbls []string
		for l := range st.labels {
			lbls = append(lbls, l)
		}
		evid.Case(caseKey(c), st.nontrivial, lbls...)
		evid.Label("steps", int64(len(c.Steps)))
		evid.Label("failing-top-level-calls", int64(st.failAtTop))
		evid.Label("succeeding-calls-after-a-failure", int64(st.okAfterFail))
		if st.nontrivial {
			evid.Sample("history:"+c.Engine, 1, c)
		}
	})
}

func TestReplay(t *testing.T) {
	p := evid.ReplayPath()
	if p == "" {
		t.Skip()
	}
	var rc struct {
		Case
		Frames *FrameCase `json:"frames"`
	}
	if _, err := evid.LoadReplay(p, &rc); err != nil {
		t.Fatal(err)
	}
	inReplay.Store(true)
	if rc.Frames != nil {
		if msg := runFrames(rc.Frames); msg != "" {
			evid.Violation("replay", rc, "%s", msg)
			t.Fatal(msg)
		}
		return
	}
	c := rc.Case
	if msg, _ := runCase(&c); msg != "" {
		evid.Violation("replay", c, "%s", msg)
		t.Fatal(msg)
	}
}
