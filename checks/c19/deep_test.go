package c19

import (
	"fmt"
	"reflect"
	"sort"
	"strings"
)

// deepSnap renders a value structurally, following pointers and interfaces (fmt's %#v stops at
// nested pointers and prints only their address, which hides e.g. the slice behind
// experimental/sock.Config). Unexported fields are read through reflect's kind-specific
// accessors. Stateful collaborators that the property does not cover (io.Reader / io.Writer
// values, the compilation cache, functions) are rendered by identity only.
func deepSnap(v any) string {
	var sb strings.Builder
	d := &dumper{sb: &sb, seen: map[uintptr]bool{}}
	d.dump(reflect.ValueOf(v), 0)
	return sb.String()
}

type dumper struct {
	sb   *strings.Builder
	seen map[uintptr]bool
}

func identityOnly(t reflect.Type) bool {
	switch t.String() {
	case "io.Reader", "io.Writer", "wazero.CompilationCache", "context.Context", "io.ReadWriter":
		return true
	}
	return false
}

func (d *dumper) dump(v reflect.Value, depth int) {
	if !v.IsValid() {
		d.sb.WriteString("<invalid>")
		return
	}
	if depth > 12 {
		d.sb.WriteString("<deep>")
		return
	}
	switch v.Kind() {
	case reflect.Bool:
		fmt.Fprintf(d.sb, "%v", v.Bool())
	case reflect.Int, reflect.Int8, reflect.Int16, reflect.Int32, reflect.Int64:
		fmt.Fprintf(d.sb, "%d", v.Int())
	case reflect.Uint, reflect.Uint8, reflect.Uint16, reflect.Uint32, reflect.Uint64, reflect.Uintptr:
		fmt.Fprintf(d.sb, "%d", v.Uint())
	case reflect.Float32, reflect.Float64:
		fmt.Fprintf(d.sb, "%v", v.Float())
	case reflect.String:
		fmt.Fprintf(d.sb, "%q", v.String())
	case reflect.Func:
		if v.IsNil() {
			d.sb.WriteString("func(nil)")
		} else {
			d.sb.WriteString("func")
		}
	case reflect.Chan, reflect.UnsafePointer:
		fmt.Fprintf(d.sb, "%s(%#x)", v.Type(), v.Pointer())
	case reflect.Interface:
		if v.IsNil() {
			d.sb.WriteString("nil")
			return
		}
		if identityOnly(v.Type()) {
			e := v.Elem()
			fmt.Fprintf(d.sb, "<%s %s", v.Type(), e.Type())
			switch e.Kind() {
			case reflect.Ptr, reflect.Map, reflect.Slice, reflect.Func, reflect.Chan:
				fmt.Fprintf(d.sb, " %#x", e.Pointer())
			}
			d.sb.WriteString(">")
			return
		}
		fmt.Fprintf(d.sb, "(%s)", v.Elem().Type())
		d.dump(v.Elem(), depth+1)
	case reflect.Ptr:
		if v.IsNil() {
			d.sb.WriteString("nil")
			return
		}
		p := v.Pointer()
		if d.seen[p] {
			d.sb.WriteString("<cycle>")
			return
		}
		d.seen[p] = true
		d.sb.WriteString("&")
		d.dump(v.Elem(), depth+1)
		delete(d.seen, p)
	case reflect.Struct:
		t := v.Type()
		if s := t.String(); s == "sync.Mutex" || s == "sync.RWMutex" || s == "sync.Once" {
			d.sb.WriteString(s)
			return
		}
		d.sb.WriteString(t.String() + "{")
		for i := 0; i < v.NumField(); i++ {
			if i > 0 {
				d.sb.WriteString(", ")
			}
			d.sb.WriteString(t.Field(i).Name + ":")
			d.dump(v.Field(i), depth+1)
		}
		d.sb.WriteString("}")
	case reflect.Slice, reflect.Array:
		if v.Kind() == reflect.Slice && v.IsNil() {
			d.sb.WriteString("nil[]")
			return
		}
		if v.Type().Elem().Kind() == reflect.Uint8 && v.Len() > 64 {
			fmt.Fprintf(d.sb, "bytes[%d]", v.Len())
			return
		}
		d.sb.WriteString("[")
		for i := 0; i < v.Len(); i++ {
			if i > 0 {
				d.sb.WriteString(" ")
			}
			d.dump(v.Index(i), depth+1)
		}
		d.sb.WriteString("]")
	case reflect.Map:
		if v.IsNil() {
			d.sb.WriteString("nil-map")
			return
		}
		var ents []string
		it := v.MapRange()
		for it.Next() {
			var kb, vb strings.Builder
			(&dumper{sb: &kb, seen: d.seen}).dump(it.Key(), depth+1)
			(&dumper{sb: &vb, seen: d.seen}).dump(it.Value(), depth+1)
			ents = append(ents, kb.String()+"="+vb.String())
		}
		sort.Strings(ents)
		d.sb.WriteString("map{" + strings.Join(ents, ", ") + "}")
	default:
		fmt.Fprintf(d.sb, "<%s>", v.Kind())
	}
}
