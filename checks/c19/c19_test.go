// C19 — configuration values are immutable.
//
// A rapid state machine grows a derivation tree of RuntimeConfig / ModuleConfig / FSConfig
// values. Oracles: (1) a deep structural snapshot of every node (fmt %#v: all fields, slice
// contents up to len, maps, pointers by identity) is unchanged by every later action on any
// node; (2) a purely functional model predicts what a guest observes (args, environ, preopens
// and their contents, module name) when a node is used, whatever was derived before or after.
package c19

import (
	"bytes"
	"context"
	"encoding/binary"
	"fmt"
	"os"
	"regexp"
	"strconv"
	"strings"
	"sync"
	"testing"
	"testing/fstest"

	"github.com/tetratelabs/wazero"
	"github.com/tetratelabs/wazero/api"
	"github.com/tetratelabs/wazero/experimental/sock"
	"pgregory.net/rapid"

	"verif/internal/evid"
	"verif/internal/wasiproxy"
	"verif/internal/wasmenc"
	"verif/internal/wz"
)

func TestMain(m *testing.M) { evid.Main(m, "C19") }

type mount struct {
	Guest string `json:"guest"`
	ID    int    `json:"id"` // -1 = nil fs
}

type fsModel struct{ mounts []mount }

type mcModel struct {
	args    []string
	env     [][2]string
	name    string
	nameSet bool
	fs      *fsModel // nil = none
	stdin   string
	hasIn   bool
}

type rcModel struct {
	features api.CoreFeatures
	limit    uint32
	capMax   bool
	custom   bool
	noDwarf  bool
}

type node struct {
	kind string // "rc","mc","fs"
	rc   wazero.RuntimeConfig
	mc   wazero.ModuleConfig
	fs   wazero.FSConfig
	mrc  rcModel
	mmc  mcModel
	mfs  fsModel
	sk   sock.Config
	msk  []string // model of a sock.Config: "host:port" in order
	snap string
	// unmodelled: derived through an input the documentation does not define (a nil fs.FS mount):
	// only the immutability of every earlier value is checked, not what a guest observes
	unmodelled bool
	parent     int
	how        string
}

func snapshot(n *node) string {
	switch n.kind {
	case "rc":
		return fmt.Sprintf("%#v", n.rc) + "\n deep: " + deepSnap(n.rc)
	case "mc":
		return fmt.Sprintf("%#v", n.mc) + "\n deep: " + deepSnap(n.mc)
	case "sk":
		return deepSnap(n.sk)
	default:
		return fmt.Sprintf("%#v", n.fs) + "\n deep: " + deepSnap(n.fs)
	}
}

func cleanGuest(p string) string {
	// mirror of the documented normalisation: leading "/" and "./" and trailing "/" ignored
	for strings.HasSuffix(p, "/") {
		p = p[:len(p)-1]
	}
	for {
		switch {
		case strings.HasPrefix(p, "/"):
			p = p[1:]
		case strings.HasPrefix(p, "./"):
			p = p[2:]
		case p == ".":
			p = ""
		default:
			return p
		}
	}
}

var (
	mountFS   []fstest.MapFS
	mountOnce sync.Once
)

func mounts() []fstest.MapFS {
	mountOnce.Do(func() {
		for i := 0; i < 6; i++ {
			mountFS = append(mountFS, fstest.MapFS{"id": &fstest.MapFile{Data: []byte(fmt.Sprintf("mount-%d", i))}})
		}
	})
	return mountFS
}

type step struct {
	Op   string   `json:"op"`
	Node int      `json:"node"`
	Args []string `json:"args,omitempty"`
}

var envKeys = []string{"a", "b", "c", "d"}
var guestPaths = []string{"/", "", "/a", "a", "/a/", "./a", "/b", "b/", "/c"}

func keyOf(steps []step) uint64 {
	var sb strings.Builder
	for _, s := range steps {
		fmt.Fprintf(&sb, "%s/%d/%q;", s.Op, s.Node, s.Args)
	}
	return evid.Hash64(sb.String())
}

// tree is the state machine.
type tree struct {
	nodes []*node
	steps []step
	// non-triviality bookkeeping: parent -> method -> children count
	kids      map[string]int
	multiKids bool
	inspected bool
	uses      int
	// held: guests that stay open after a use-mc step with their first reading of args and
	// environ; later instantiations with related configurations must not change what they see
	held []*heldGuest
}

type heldGuest struct {
	node      int
	rt        wazero.Runtime
	p         *wasiproxy.Proxy
	args, env []string
}

// hold instantiates one more guest with the node's configuration and keeps it open.
func (tr *tree) hold(i int) string {
	if len(tr.held) >= 4 {
		return ""
	}
	ctx := context.Background()
	rt := wazero.NewRuntimeWithConfig(ctx, wazero.NewRuntimeConfigInterpreter())
	p, err := wasiproxy.New(ctx, rt, tr.nodes[i].mc, 1, -1)
	if err != nil {
		rt.Close(ctx)
		return fmt.Sprintf("using node %s failed: instantiate (held): %v", tr.describe(i), err)
	}
	h := &heldGuest{node: i, rt: rt, p: p}
	var msg string
	if h.args, msg = readStrings(p, ctx, "args_sizes_get", "args_get"); msg == "" {
		h.env, msg = readStrings(p, ctx, "environ_sizes_get", "environ_get")
	}
	if msg != "" {
		rt.Close(ctx)
		return msg
	}
	tr.held = append(tr.held, h)
	evid.Label("guest-held-open", 1)
	return ""
}

// recheckHeld reads args and environ of every held guest again.
func (tr *tree) recheckHeld() string {
	ctx := context.Background()
	for _, h := range tr.held {
		args, msg := readStrings(h.p, ctx, "args_sizes_get", "args_get")
		if msg != "" {
			return msg
		}
		env, msg := readStrings(h.p, ctx, "environ_sizes_get", "environ_get")
		if msg != "" {
			return msg
		}
		if !eqStrs(args, h.args) || !eqStrs(env, h.env) {
			return fmt.Sprintf("a guest instantiated earlier with node %s and still open read args %q environ %q at first and reads args %q environ %q after later derivations/instantiations (last step %+v)",
				tr.describe(h.node), h.args, h.env, args, env, tr.steps[len(tr.steps)-1])
		}
	}
	return ""
}

func (tr *tree) closeHeld() {
	for _, h := range tr.held {
		h.rt.Close(context.Background())
	}
	tr.held = nil
}

func newTree() *tree {
	tr := &tree{kids: map[string]int{}}
	tr.add(&node{kind: "rc", rc: wazero.NewRuntimeConfigInterpreter(), mrc: rcModel{features: api.CoreFeaturesV2, limit: 65536}, parent: -1, how: "NewRuntimeConfigInterpreter"})
	tr.add(&node{kind: "mc", mc: wazero.NewModuleConfig(), parent: -1, how: "NewModuleConfig"})
	tr.add(&node{kind: "fs", fs: wazero.NewFSConfig(), parent: -1, how: "NewFSConfig"})
	tr.add(&node{kind: "sk", sk: sock.NewConfig(), parent: -1, how: "sock.NewConfig"})
	return tr
}

func (tr *tree) add(n *node) int {
	n.snap = snapshot(n)
	tr.nodes = append(tr.nodes, n)
	return len(tr.nodes) - 1
}

func (tr *tree) pick(t *rapid.T, kind string) int {
	var idx []int
	for i, n := range tr.nodes {
		if n.kind == kind {
			idx = append(idx, i)
		}
	}
	return rapid.SampledFrom(idx).Draw(t, kind+"-node")
}

// pickPref is pick, but in one of three draws restricted to the nodes satisfying pref (if any).
func (tr *tree) pickPref(t *rapid.T, kind string, pref func(*node) bool) int {
	var idx []int
	for i, n := range tr.nodes {
		if n.kind == kind && pref(n) {
			idx = append(idx, i)
		}
	}
	if len(idx) > 0 && rapid.IntRange(0, 2).Draw(t, "prefer") == 0 {
		return rapid.SampledFrom(idx).Draw(t, kind+"-preferred-node")
	}
	return tr.pick(t, kind)
}

func (tr *tree) noteChild(parent int, method string) {
	k := fmt.Sprintf("%d/%s", parent, method)
	tr.kids[k]++
	if tr.kids[k] >= 2 {
		tr.multiKids = true
	}
}

func copyEnv(e [][2]string) [][2]string { return append([][2]string{}, e...) }

// apply executes one step (shared by the generator and by replay). It returns a non-empty
// message when the step observes a violation.
func (tr *tree) apply(s step) string {
	if s.Node < 0 || s.Node >= len(tr.nodes) {
		return ""
	}
	p := tr.nodes[s.Node]
	a := s.Args
	arg := func(i int) string {
		if i < len(a) {
			return a[i]
		}
		return ""
	}
	atoi := func(x string) int { n, _ := strconv.Atoi(x); return n }
	tr.steps = append(tr.steps, s)
	how := s.Op + "(" + strings.Join(a, ",") + ")"
	switch s.Op {
	case "use-mc":
		msg := tr.useMC(s.Node, arg(0) == "sock")
		if msg == "" && arg(1) == "hold" && p.kind == "mc" && !p.unmodelled {
			msg = tr.hold(s.Node)
		}
		if msg == "" {
			msg = tr.recheckHeld()
		}
		return msg
	case "use-rc":
		return tr.useRC(s.Node)
	case "use-sk":
		return tr.useSK(s.Node, arg(0))
	}
	if s.Op == "sk.WithTCPListener" && p.kind == "sk" {
		// args: host, port, repeat (a chain of derivations, every intermediate value is kept)
		rep := atoi(arg(2))
		if rep < 1 {
			rep = 1
		}
		cur, curi := p, s.Node
		for r := 0; r < rep && r < 8; r++ {
			host, port := arg(0), atoi(arg(1))
			if r > 0 {
				if strings.HasPrefix(host, "127.0.0.") {
					host = fmt.Sprintf("127.0.%d.%s", r, host[8:]) // still loopback, still bindable
				} else {
					host = fmt.Sprintf("%s.%d", arg(0), r)
				}
			}
			c := cur.sk.WithTCPListener(host, port)
			m := append(append([]string{}, cur.msk...), fmt.Sprintf("%s:%d", host, port))
			tr.noteChild(curi, s.Op)
			curi = tr.add(&node{kind: "sk", sk: c, msk: m, parent: curi, how: fmt.Sprintf("WithTCPListener(%s,%d)", host, port)})
			cur = tr.nodes[curi]
			if got := sockAddrs(cur.snap); !eqStrs(got, m) {
				return fmt.Sprintf("sock configuration node %s holds listeners %v, its derivation chain predicts %v", tr.describe(curi), got, m)
			}
		}
		return ""
	}
	if strings.HasPrefix(s.Op, "mc.") && p.kind == "mc" {
		m := p.mmc
		m.env = copyEnv(m.env)
		m.args = append([]string{}, m.args...)
		var c wazero.ModuleConfig
		switch s.Op {
		case "mc.WithEnv":
			k, v := arg(0), arg(1)
			c = p.mc.WithEnv(k, v)
			found := false
			for i := range m.env {
				if m.env[i][0] == k {
					m.env[i][1] = v
					found = true
				}
			}
			if !found {
				m.env = append(m.env, [2]string{k, v})
			}
		case "mc.WithArgs":
			in := append([]string{}, a...)
			c = p.mc.WithArgs(in...)
			for i := range in { // the caller may reuse its slice afterwards
				in[i] = "clobbered"
			}
			m.args = append([]string{}, a...)
		case "mc.WithName":
			c = p.mc.WithName(arg(0))
			m.name, m.nameSet = arg(0), true
		case "mc.WithFSConfig":
			fi := atoi(arg(0))
			if fi >= len(tr.nodes) || tr.nodes[fi].kind != "fs" {
				return ""
			}
			c = p.mc.WithFSConfig(tr.nodes[fi].fs)
			m.fs = &fsModel{mounts: append([]mount{}, tr.nodes[fi].mfs.mounts...)}
		case "mc.WithFS":
			id := atoi(arg(0)) % 6
			c = p.mc.WithFS(mounts()[id])
			m.fs = &fsModel{mounts: []mount{{Guest: "", ID: id}}}
		case "mc.WithStdin":
			c = p.mc.WithStdin(strings.NewReader(arg(0)))
		case "mc.WithStdout":
			c = p.mc.WithStdout(&bytes.Buffer{})
		case "mc.WithStderr":
			c = p.mc.WithStderr(&bytes.Buffer{})
		case "mc.WithStartFunctions":
			c = p.mc.WithStartFunctions()
		case "mc.WithSysWalltime":
			c = p.mc.WithSysWalltime()
		case "mc.WithSysNanotime":
			c = p.mc.WithSysNanotime()
		case "mc.WithSysNanosleep":
			c = p.mc.WithSysNanosleep()
		case "mc.WithRandSource":
			c = p.mc.WithRandSource(bytes.NewReader(make([]byte, 64)))
		case "mc.WithOsyield":
			c = p.mc.WithOsyield(func() {})
		case "mc.WithNanosleep":
			c = p.mc.WithNanosleep(func(int64) {})
		case "mc.WithWalltime":
			c = p.mc.WithWalltime(func() (int64, int32) { return 1, 2 }, 1)
		case "mc.WithNanotime":
			c = p.mc.WithNanotime(func() int64 { return 1 }, 1)
		default:
			return ""
		}
		tr.noteChild(s.Node, s.Op)
		un := p.unmodelled
		if s.Op == "mc.WithFSConfig" {
			if fi := atoi(arg(0)); fi < len(tr.nodes) && tr.nodes[fi].unmodelled {
				un = true
			}
		}
		tr.add(&node{kind: "mc", mc: c, mmc: m, parent: s.Node, how: how, unmodelled: un})
		return ""
	}
	if strings.HasPrefix(s.Op, "fs.") && p.kind == "fs" {
		m := fsModel{mounts: append([]mount{}, p.mfs.mounts...)}
		id, gp := atoi(arg(0))%6, arg(1)
		mid := id
		var c wazero.FSConfig
		switch s.Op {
		case "fs.WithFSMount":
			c = p.fs.WithFSMount(mounts()[id], gp)
		case "fs.WithFSMountNil":
			c = p.fs.WithFSMount(nil, gp)
			mid = -1
		case "fs.WithDirMount":
			c = p.fs.WithDirMount(mountDir(id), gp)
		case "fs.WithReadOnlyDirMount":
			c = p.fs.WithReadOnlyDirMount(mountDir(id), gp)
		default:
			return ""
		}
		cl := cleanGuest(gp)
		replaced := false
		for i := range m.mounts {
			if cleanGuest(m.mounts[i].Guest) == cl {
				m.mounts[i] = mount{Guest: gp, ID: mid}
				replaced = true
			}
		}
		if !replaced && mid >= 0 {
			m.mounts = append(m.mounts, mount{Guest: gp, ID: mid})
		}
		tr.noteChild(s.Node, s.Op)
		tr.add(&node{kind: "fs", fs: c, mfs: m, parent: s.Node, how: how, unmodelled: p.unmodelled || s.Op == "fs.WithFSMountNil"})
		return ""
	}
	if strings.HasPrefix(s.Op, "rc.") && p.kind == "rc" {
		m := p.mrc
		var c wazero.RuntimeConfig
		b := arg(0) == "true"
		switch s.Op {
		case "rc.WithCoreFeatures":
			f := api.CoreFeatures(atoi(arg(0)))
			c = p.rc.WithCoreFeatures(f)
			m.features = f
		case "rc.WithMemoryLimitPages":
			l := uint32(atoi(arg(0)))
			c = p.rc.WithMemoryLimitPages(l)
			m.limit = l
		case "rc.WithMemoryCapacityFromMax":
			c = p.rc.WithMemoryCapacityFromMax(b)
			m.capMax = b
		case "rc.WithCloseOnContextDone":
			c = p.rc.WithCloseOnContextDone(b)
		case "rc.WithDebugInfoEnabled":
			c = p.rc.WithDebugInfoEnabled(b)
			m.noDwarf = !b
		case "rc.WithCustomSections":
			c = p.rc.WithCustomSections(b)
			m.custom = b
		case "rc.WithCompilationCache":
			c = p.rc.WithCompilationCache(sharedCache())
		default:
			return ""
		}
		tr.noteChild(s.Node, s.Op)
		tr.add(&node{kind: "rc", rc: c, mrc: m, parent: s.Node, how: how})
	}
	return ""
}

func (tr *tree) genStep(t *rapid.T) step {
	kind := rapid.SampledFrom([]string{"mc", "mc", "mc", "fs", "fs", "rc", "use-mc", "use-mc", "use-rc", "sk", "sk", "use-sk"}).Draw(t, "kind")
	switch kind {
	case "sk":
		host := rapid.SampledFrom([]string{"127.0.0.1", "127.0.0.2", "127.0.0.3", "h"}).Draw(t, "host")
		port := rapid.SampledFrom([]int{0, 0, 0, 80}).Draw(t, "port")
		return step{"sk.WithTCPListener", tr.pick(t, "sk"), []string{host, fmt.Sprint(port), fmt.Sprint(rapid.IntRange(1, 4).Draw(t, "repeat"))}}
	case "use-sk":
		outer := ""
		if rapid.IntRange(0, 2).Draw(t, "nested") == 0 {
			// the context already carries another sock configuration (sock.WithConfig applied twice)
			outer = fmt.Sprint(tr.pick(t, "sk"))
		}
		return step{"use-sk", tr.pick(t, "sk"), []string{outer}}
	case "mc":
		pi := tr.pick(t, "mc")
		method := rapid.SampledFrom([]string{"WithEnv", "WithEnv", "WithEnv", "WithEnv", "WithArgs", "WithArgs", "WithName", "WithFSConfig", "WithFSConfig", "WithFS", "WithStdin", "WithStdout", "WithStderr",
			"WithStartFunctions", "WithSysWalltime", "WithRandSource", "WithSysNanotime", "WithSysNanosleep", "WithOsyield", "WithNanosleep", "WithWalltime", "WithNanotime"}).Draw(t, "method")
		var args []string
		switch method {
		case "WithEnv":
			args = []string{rapid.SampledFrom(envKeys).Draw(t, "key"), rapid.StringMatching("[x-z]{0,3}").Draw(t, "val")}
		case "WithArgs":
			args = rapid.SliceOfN(rapid.StringMatching("[p-r]{1,3}"), 0, 3).Draw(t, "args")
		case "WithName":
			args = []string{rapid.SampledFrom([]string{"", "m1", "m2"}).Draw(t, "name")}
		case "WithFSConfig":
			args = []string{fmt.Sprint(tr.pickPref(t, "fs", func(n *node) bool { return n.unmodelled }))}
		case "WithFS":
			args = []string{fmt.Sprint(rapid.IntRange(0, 5).Draw(t, "mount"))}
		case "WithStdin":
			args = []string{rapid.StringMatching("[s-u]{0,4}").Draw(t, "stdin")}
		}
		return step{"mc." + method, pi, args}
	case "fs":
		pi := tr.pick(t, "fs")
		method := rapid.SampledFrom([]string{"WithFSMount", "WithFSMount", "WithDirMount", "WithReadOnlyDirMount", "WithFSMount", "WithDirMount", "WithFSMountNil"}).Draw(t, "method")
		if ms := tr.nodes[pi].mfs.mounts; method == "WithFSMountNil" && len(ms) >= 2 && rapid.Bool().Draw(t, "nil-over-existing") {
			// a nil mount over a guest path that is mounted and is followed by other mounts
			return step{"fs." + method, pi, []string{"0", ms[rapid.IntRange(0, len(ms)-2).Draw(t, "which")].Guest}}
		}
		return step{"fs." + method, pi, []string{fmt.Sprint(rapid.IntRange(0, 5).Draw(t, "mount")), rapid.SampledFrom(guestPaths).Draw(t, "guest")}}
	case "rc":
		pi := tr.pick(t, "rc")
		method := rapid.SampledFrom([]string{"WithCoreFeatures", "WithMemoryLimitPages", "WithMemoryCapacityFromMax", "WithCloseOnContextDone", "WithDebugInfoEnabled", "WithCustomSections", "WithCompilationCache"}).Draw(t, "method")
		var args []string
		switch method {
		case "WithCoreFeatures":
			args = []string{fmt.Sprint(uint64(rapid.SampledFrom([]api.CoreFeatures{api.CoreFeaturesV1, api.CoreFeaturesV2, wz.AllFeatures}).Draw(t, "features")))}
		case "WithMemoryLimitPages":
			args = []string{fmt.Sprint(rapid.SampledFrom([]uint32{1, 2, 5, 100, 65536}).Draw(t, "limit"))}
		case "WithCompilationCache":
		default:
			args = []string{fmt.Sprint(rapid.Bool().Draw(t, "b"))}
		}
		return step{"rc." + method, pi, args}
	case "use-mc":
		a := ""
		if rapid.IntRange(0, 5).Draw(t, "sock") == 0 {
			a = "sock"
		}
		h := ""
		if rapid.IntRange(0, 2).Draw(t, "hold") == 0 {
			h = "hold"
		}
		return step{"use-mc", tr.pickPref(t, "mc", func(n *node) bool { return n.unmodelled }), []string{a, h}}
	default:
		return step{"use-rc", tr.pick(t, "rc"), nil}
	}
}

var (
	dirOnce sync.Once
	dirs    []string
)

func mountDir(id int) string {
	dirOnce.Do(func() {
		for i := 0; i < 6; i++ {
			d := fmt.Sprintf("%s/mnt%d", evid.WorkDir(), i)
			os.MkdirAll(d, 0o755)
			os.WriteFile(d+"/id", []byte(fmt.Sprintf("mount-%d", i)), 0o644)
			dirs = append(dirs, d)
		}
	})
	return dirs[id]
}

var (
	cacheOnce sync.Once
	cache     wazero.CompilationCache
)

func sharedCache() wazero.CompilationCache {
	cacheOnce.Do(func() { cache = wazero.NewCompilationCache() })
	return cache
}

func (tr *tree) describe(i int) string {
	var chain []string
	for i >= 0 {
		chain = append(chain, fmt.Sprintf("#%d:%s", i, tr.nodes[i].how))
		i = tr.nodes[i].parent
	}
	return strings.Join(chain, " <- ")
}

// ---- behavioural probes ----

func readStrings(p *wasiproxy.Proxy, ctx context.Context, sizes, get string) ([]string, string) {
	mem := p.Mem
	if e, o := p.Call(ctx, sizes, 0, 4); o.Kind != wz.KOK || e != 0 {
		return nil, fmt.Sprintf("%s: errno=%d %v", sizes, e, o)
	}
	cnt, _ := mem.ReadUint32Le(0)
	blen, _ := mem.ReadUint32Le(4)
	if cnt > 1000 || blen > 30000 {
		return nil, fmt.Sprintf("%s: implausible sizes %d %d", sizes, cnt, blen)
	}
	ptrs, buf := uint32(64), uint32(64+4*cnt+8)
	if e, o := p.Call(ctx, get, uint64(ptrs), uint64(buf)); o.Kind != wz.KOK || e != 0 {
		return nil, fmt.Sprintf("%s: errno=%d %v", get, e, o)
	}
	var out []string
	for i := uint32(0); i < cnt; i++ {
		a, _ := mem.ReadUint32Le(ptrs + 4*i)
		end := buf + blen
		if i+1 < cnt {
			end, _ = mem.ReadUint32Le(ptrs + 4*(i+1))
		}
		b, ok := mem.Read(a, end-a)
		if !ok {
			return nil, "bad pointers"
		}
		out = append(out, strings.TrimSuffix(string(b), "\x00"))
	}
	return out, ""
}

type observed struct {
	Args     []string `json:"args"`
	Env      []string `json:"env"`
	Preopens []string `json:"preopens"` // "guest=content-of-id"
	Name     string   `json:"name"`
	NamedAs  string   `json:"named_as"` // instance name of a binary whose name section says "named-binary"
	Stdin    string   `json:"stdin"`
}

func expected(m mcModel) observed {
	o := observed{Args: m.args, Name: m.name}
	for _, kv := range m.env {
		o.Env = append(o.Env, kv[0]+"="+kv[1])
	}
	if m.fs != nil {
		for _, mt := range m.fs.mounts {
			if mt.ID < 0 {
				continue
			}
			g := mt.Guest
			if cleanGuest(g) == "" {
				g = "/"
			}
			o.Preopens = append(o.Preopens, fmt.Sprintf("%s=mount-%d", g, mt.ID))
		}
	}
	if m.hasIn {
		o.Stdin = m.stdin
	}
	return o
}

func observe(ctx context.Context, mc wazero.ModuleConfig, withSock bool) (observed, string) {
	var o observed
	rt := wazero.NewRuntimeWithConfig(ctx, wazero.NewRuntimeConfigInterpreter())
	defer rt.Close(ctx)
	ictx := ctx
	if withSock {
		ictx = sock.WithConfig(ctx, sock.NewConfig().WithTCPListener("127.0.0.1", 0))
	}
	// a binary that carries its own name (name section) first: the configuration decides the
	// instance name only when WithName was called, and must not remember the binary's name
	if nm, err := rt.InstantiateModule(ictx, mustCompile(ctx, rt, namedBinary), mc); err != nil {
		return o, "instantiate binary with a name section: " + err.Error()
	} else {
		o.NamedAs = nm.Name()
		nm.Close(ctx)
	}
	p, err := wasiproxy.New(ictx, rt, mc, 1, -1)
	if err != nil {
		return o, "instantiate: " + err.Error()
	}
	o.Name = p.Mod.Name()
	var msg string
	if o.Args, msg = readStrings(p, ctx, "args_sizes_get", "args_get"); msg != "" {
		return o, msg
	}
	if o.Env, msg = readStrings(p, ctx, "environ_sizes_get", "environ_get"); msg != "" {
		return o, msg
	}
	for fd := uint64(3); fd < 16; fd++ {
		e, out := p.Call(ctx, "fd_prestat_get", fd, 0)
		if out.Kind != wz.KOK {
			return o, "fd_prestat_get: " + out.String()
		}
		if e != 0 {
			break
		}
		n, _ := p.Mem.ReadUint32Le(4)
		if e, out = p.Call(ctx, "fd_prestat_dir_name", fd, 16, uint64(n)); e != 0 || out.Kind != wz.KOK {
			// a pre-opened socket has no name; report it so that the comparison sees it
			o.Preopens = append(o.Preopens, fmt.Sprintf("fd%d:unnamed(errno=%d)", fd, e))
			continue
		}
		nm, _ := p.Mem.Read(16, n)
		name := string(nm)
		if name == "" { // a pre-opened socket has an empty name
			o.Preopens = append(o.Preopens, fmt.Sprintf("fd%d:unnamed", fd))
			continue
		}
		// read marker file "id"
		p.Mem.Write(200, []byte("id"))
		e, out = p.Call(ctx, "path_open", fd, 0, 200, 2, 0, 1<<1 /*fd_read*/, 0, 0, 300)
		content := fmt.Sprintf("open-errno-%d", e)
		if out.Kind == wz.KOK && e == 0 {
			nfd, _ := p.Mem.ReadUint32Le(300)
			var iov [8]byte
			binary.LittleEndian.PutUint32(iov[0:], 400)
			binary.LittleEndian.PutUint32(iov[4:], 64)
			p.Mem.Write(320, iov[:])
			if e, _ = p.Call(ctx, "fd_read", uint64(nfd), 320, 1, 340); e == 0 {
				k, _ := p.Mem.ReadUint32Le(340)
				b, _ := p.Mem.Read(400, k)
				content = string(b)
			}
			p.Call(ctx, "fd_close", uint64(nfd))
		}
		o.Preopens = append(o.Preopens, name+"="+content)
	}
	// stdin
	var iov [8]byte
	binary.LittleEndian.PutUint32(iov[0:], 400)
	binary.LittleEndian.PutUint32(iov[4:], 64)
	p.Mem.Write(320, iov[:])
	if e, _ := p.Call(ctx, "fd_read", 0, 320, 1, 340); e == 0 {
		k, _ := p.Mem.ReadUint32Le(340)
		b, _ := p.Mem.Read(400, k)
		o.Stdin = string(b)
	}
	return o, ""
}

func eqStrs(a, b []string) bool {
	if len(a) != len(b) {
		return false
	}
	for i := range a {
		if a[i] != b[i] {
			return false
		}
	}
	return true
}

func (tr *tree) useMC(i int, withSock bool) string {
	n := tr.nodes[i]
	if n.kind != "mc" {
		return ""
	}
	ctx := context.Background()
	if n.unmodelled {
		// what a guest sees with a nil mount is not documented (the WASI functions that look at
		// such a pre-open fail inside the host), but "instantiating with a configuration does not
		// change it" still holds: the value is used for two instantiations and the snapshots of
		// all nodes are compared afterwards, as after every step
		tr.uses++
		evid.Label("use-unmodelled-node-twice", 1)
		for k := 0; k < 2; k++ {
			rt := wazero.NewRuntimeWithConfig(ctx, wazero.NewRuntimeConfigInterpreter())
			_, err := wasiproxy.New(ctx, rt, n.mc, 1, -1)
			rt.Close(ctx)
			if err != nil {
				return fmt.Sprintf("using node %s failed: instantiate: %v", tr.describe(i), err)
			}
		}
		return ""
	}
	tr.uses++
	got, msg := observe(ctx, n.mc, withSock)
	if msg != "" {
		return fmt.Sprintf("using node %s failed: %s", tr.describe(i), msg)
	}
	want := expected(n.mmc)
	if withSock {
		// the listener is pre-opened for this instantiation only
		want.Preopens = append(want.Preopens, "*sock*")
		var g []string
		for _, p := range got.Preopens {
			if strings.Contains(p, "unnamed") {
				p = "*sock*"
			}
			g = append(g, p)
		}
		got.Preopens = g
	}
	want.NamedAs = "named-binary"
	if n.mmc.nameSet {
		want.NamedAs = n.mmc.name
	}
	if !eqStrs(got.Args, want.Args) || !eqStrs(got.Env, want.Env) || !eqStrs(got.Preopens, want.Preopens) || got.Name != want.Name || got.NamedAs != want.NamedAs {
		return fmt.Sprintf("guest instantiated with node %s observes\n  %+v\nbut the derivation chain of that node predicts\n  %+v", tr.describe(i), got, want)
	}
	return ""
}

var sockAddrRE = regexp.MustCompile(`Host:"([^"]*)", Port:(\d+)`)

// sockAddrs extracts the listener list from the deep snapshot of a sock.Config.
func sockAddrs(snap string) []string {
	var out []string
	for _, m := range sockAddrRE.FindAllStringSubmatch(snap, -1) {
		out = append(out, m[1]+":"+m[2])
	}
	return out
}

// useSK instantiates a WASI guest with the listeners of the node (only when every listener
// can really be bound: loopback address, port 0) and counts the pre-opened sockets.
func (tr *tree) useSK(i int, outerArg string) string {
	n := tr.nodes[i]
	if n.kind != "sk" {
		return ""
	}
	if outerArg != "" {
		// decorate a context that already carries the configuration of another node: the inner
		// one is what an instantiation with that context uses; neither value may change (checked
		// by the snapshots after this step, and by later uses of the outer node)
		if oi, err := strconv.Atoi(outerArg); err == nil && oi >= 0 && oi < len(tr.nodes) && tr.nodes[oi].kind == "sk" {
			ctx2 := sock.WithConfig(sock.WithConfig(context.Background(), tr.nodes[oi].sk), n.sk)
			_ = ctx2
			evid.Label("sock-config-nested-in-context", 1)
		}
	}
	for _, a := range n.msk {
		if !strings.HasPrefix(a, "127.0.") || !strings.HasSuffix(a, ":0") || strings.Count(a, ".") != 3 {
			return ""
		}
	}
	tr.uses++
	evid.Label(fmt.Sprintf("use-sock-config-%d-listeners", len(n.msk)), 1)
	ctx := context.Background()
	rt := wazero.NewRuntimeWithConfig(ctx, wazero.NewRuntimeConfigInterpreter())
	defer rt.Close(ctx)
	p, err := wasiproxy.New(sock.WithConfig(ctx, n.sk), rt, wazero.NewModuleConfig(), 1, -1)
	if err != nil {
		return fmt.Sprintf("using sock node %s failed: %v", tr.describe(i), err)
	}
	cnt := 0
	for fd := uint64(3); fd < 64; fd++ {
		// fd_fdstat_get: filetype at offset 0; socket_stream = 6
		e, out := p.Call(ctx, "fd_fdstat_get", fd, 0)
		if out.Kind != wz.KOK {
			return "fd_fdstat_get: " + out.String()
		}
		if e != 0 {
			break
		}
		cnt++
	}
	if cnt != len(n.msk) {
		return fmt.Sprintf("guest instantiated with sock node %s sees %d pre-opened sockets, its derivation chain predicts %d", tr.describe(i), cnt, len(n.msk))
	}
	return ""
}

var namedBinary = func() []byte {
	m := &wasmenc.Module{ModuleName: "named-binary"}
	return m.Encode()
}()

func mustCompile(ctx context.Context, rt wazero.Runtime, b []byte) wazero.CompiledModule {
	cm, err := rt.CompileModule(ctx, b)
	if err != nil {
		panic(err)
	}
	return cm
}

var probeMem = func() []byte {
	m := &wasmenc.Module{Mems: [][]byte{wasmenc.Limits(3, -1, false)}, Customs: []wasmenc.Custom{{Name: "x", Data: []byte{1}}}}
	return m.Encode()
}()

var probeSignExt = func() []byte {
	m := &wasmenc.Module{}
	m.AddFunc([]byte{wasmenc.I32}, []byte{wasmenc.I32}, nil, wasmenc.NewB().LocalGet(0).Raw(0xc0).Bytes())
	return m.Encode()
}()

func (tr *tree) useRC(i int) string {
	n := tr.nodes[i]
	if n.kind != "rc" {
		return ""
	}
	tr.uses++
	ctx := context.Background()
	rt := wazero.NewRuntimeWithConfig(ctx, n.rc)
	defer rt.Close(ctx)
	cm, err := rt.CompileModule(ctx, probeMem)
	wantOK := n.mrc.limit >= 3
	if (err == nil) != wantOK {
		return fmt.Sprintf("runtime from node %s: compiling a 3-page module gave err=%v, model limit=%d", tr.describe(i), err, n.mrc.limit)
	}
	if err == nil {
		// custom sections are retained when asked for or when debug info is enabled (default)
		if got, want := len(cm.CustomSections()) > 0, n.mrc.custom || !n.mrc.noDwarf; got != want {
			return fmt.Sprintf("runtime from node %s: custom sections kept=%v, model=%v", tr.describe(i), got, want)
		}
	}
	_, err = rt.CompileModule(ctx, probeSignExt)
	wantOK = n.mrc.features&api.CoreFeatureSignExtensionOps != 0
	if (err == nil) != wantOK {
		return fmt.Sprintf("runtime from node %s: sign-extension module err=%v, model features=%v", tr.describe(i), err, n.mrc.features)
	}
	return ""
}

// check returns a message if any node's structural snapshot changed.
func (tr *tree) check() string {
	for i, n := range tr.nodes {
		if s := snapshot(n); s != n.snap {
			return fmt.Sprintf("configuration node %s changed after later actions (last step %+v)\n before: %s\n after:  %s",
				tr.describe(i), tr.steps[len(tr.steps)-1], n.snap, s)
		}
	}
	tr.inspected = true
	return ""
}

func runTree(t *rapid.T) {
	tr := newTree()
	defer tr.closeHeld()
	n := rapid.IntRange(2, 30).Draw(t, "nsteps")
	for k := 0; k < n; k++ {
		s := tr.genStep(t)
		msg := tr.apply(s)
		if msg == "" {
			msg = tr.check()
		}
		if msg != "" {
			evid.Fail(t, map[string]any{"steps": tr.steps}, "%s", msg)
		}
	}
	nt := tr.multiKids && tr.inspected
	lbl := []string{}
	if tr.uses > 0 {
		lbl = append(lbl, "tree-with-use")
	}
	if tr.multiKids {
		lbl = append(lbl, "tree-with-siblings-same-method")
	}
	evid.Case(keyOf(tr.steps), nt, lbl...)
	if nt {
		evid.Sample("tree", 3, tr.steps)
	}
}

func TestTree(t *testing.T) {
	if evid.ReplayPath() != "" {
		t.Skip()
	}
	evid.Check(t, "derivation-tree", evid.Scale(12000, 240000), runTree)
}

// TestConcurrentDerive derives from one parent in several goroutines (meaningful under
// -race; without it, it still checks the results against the model).
func TestConcurrentDerive(t *testing.T) {
	if evid.ReplayPath() != "" {
		t.Skip()
	}
	evid.Check(t, "concurrent-derive", evid.Scale(200, 8000), func(t *rapid.T) {
		base := wazero.NewModuleConfig()
		nbase := rapid.IntRange(0, 3).Draw(t, "nbase")
		var want []string
		for i := 0; i < nbase; i++ {
			base = base.WithEnv(envKeys[i], "0")
			want = append(want, envKeys[i]+"=0")
		}
		fsb := wazero.NewFSConfig().WithFSMount(mounts()[0], "/a")
		skb := sock.NewConfig()
		var wantSK []string
		for i, nsk := 0, rapid.IntRange(0, 7).Draw(t, "nsock"); i < nsk; i++ {
			skb = skb.WithTCPListener("base", i)
			wantSK = append(wantSK, fmt.Sprintf("base:%d", i))
		}
		snapM, snapF, snapS := fmt.Sprintf("%#v", base)+deepSnap(base), fmt.Sprintf("%#v", fsb)+deepSnap(fsb), deepSnap(skb)
		g := rapid.IntRange(2, 6).Draw(t, "goroutines")
		vals := rapid.SliceOfN(rapid.StringMatching("[x-z]{1,2}"), g, g).Draw(t, "vals")
		keys := rapid.SliceOfN(rapid.SampledFrom(envKeys), g, g).Draw(t, "keys")
		res := make([]wazero.ModuleConfig, g)
		resS := make([]sock.Config, g)
		var wg sync.WaitGroup
		for i := 0; i < g; i++ {
			wg.Add(1)
			go func(i int) {
				defer wg.Done()
				res[i] = base.WithEnv(keys[i], vals[i]).WithArgs(vals[i])
				_ = fsb.WithFSMount(mounts()[i%6], "/b")
				_ = fsb.WithFSMount(mounts()[i%6], "/a")
				resS[i] = skb.WithTCPListener(vals[i], 100+i)
			}(i)
		}
		wg.Wait()
		cs := map[string]any{"nbase": nbase, "nsock": len(wantSK), "keys": keys, "vals": vals}
		if s := fmt.Sprintf("%#v", base) + deepSnap(base); s != snapM {
			evid.Fail(t, cs, "base ModuleConfig changed by concurrent derivations:\n before %s\n after  %s", snapM, s)
		}
		if s := fmt.Sprintf("%#v", fsb) + deepSnap(fsb); s != snapF {
			evid.Fail(t, cs, "base FSConfig changed by concurrent derivations")
		}
		if s := deepSnap(skb); s != snapS {
			evid.Fail(t, cs, "base sock.Config changed by concurrent derivations:\n before %s\n after  %s", snapS, s)
		}
		for i := 0; i < g; i++ {
			exp := append(append([]string{}, wantSK...), fmt.Sprintf("%s:%d", vals[i], 100+i))
			if got := sockAddrs(deepSnap(resS[i])); !eqStrs(got, exp) {
				evid.Fail(t, cs, "sock.Config child %d derived concurrently holds %v, want %v", i, got, exp)
			}
		}
		ctx := context.Background()
		for i := 0; i < g; i++ {
			exp := append([]string{}, want...)
			found := false
			for j := range exp {
				if strings.HasPrefix(exp[j], keys[i]+"=") {
					exp[j] = keys[i] + "=" + vals[i]
					found = true
				}
			}
			if !found {
				exp = append(exp, keys[i]+"="+vals[i])
			}
			got, msg := observe(ctx, res[i], false)
			if msg != "" {
				evid.Fail(t, cs, "use failed: %s", msg)
			}
			if !eqStrs(got.Env, exp) {
				evid.Fail(t, cs, "child %d derived concurrently (WithEnv(%s,%s)) observes env %v, want %v", i, keys[i], vals[i], got.Env, exp)
			}
		}
		evid.Case(evid.Hash64(nbase, len(wantSK), keys, vals), true, "concurrent")
		evid.Sample("concurrent", 1, cs)
	})
}

func TestReplay(t *testing.T) {
	p := evid.ReplayPath()
	if p == "" {
		t.Skip()
	}
	var c struct {
		Steps []step `json:"steps"`
	}
	if _, err := evid.LoadReplay(p, &c); err != nil {
		t.Fatal(err)
	}
	tr := newTree()
	defer tr.closeHeld()
	for _, s := range c.Steps {
		msg := tr.apply(s)
		if msg == "" {
			msg = tr.check()
		}
		if msg != "" {
			evid.Violation("replay", c, "%s", msg)
			t.Fatal(msg)
		}
	}
}
