package zz

import (
	"encoding/json"
	"fmt"
	"os"
	"strconv"
	"testing"

	"verif/internal/runner"
	"verif/internal/wasmgen"
	"verif/internal/wz"
)

func TestReplaySteps(t *testing.T) {
	p := os.Getenv("REPLAY")
	if p == "" {
		t.Skip()
	}
	b, _ := os.ReadFile(p)
	var c struct {
		Module *wasmgen.Module `json:"module"`
		Script []runner.Call   `json:"script"`
		Fuel   int32           `json:"fuel"`
	}
	if err := json.Unmarshal(b, &c); err != nil {
		t.Fatal(err)
	}
	from, _ := strconv.Atoi(os.Getenv("FROM"))
	to, _ := strconv.Atoi(os.Getenv("TO"))
	sc := c.Script[from:to]
	fmt.Println("script", sc)
	tr := runner.Run(wz.Config("compiler"), c.Module, sc, runner.Options{FuelPerCall: c.Fuel})
	fmt.Println(tr.Inst, tr.Steps)
}
