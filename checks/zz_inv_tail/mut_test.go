package zz

import (
	"encoding/json"
	"fmt"
	"os"
	"testing"

	"verif/internal/runner"
	"verif/internal/wasmgen"
	"verif/internal/wz"
)

func TestMutantTraces(t *testing.T) {
	p := os.Getenv("REPLAYM")
	if p == "" {
		t.Skip()
	}
	b, _ := os.ReadFile(p)
	var r struct {
		Case struct {
			Module *wasmgen.Module `json:"module"`
			Script []runner.Call   `json:"script"`
			Fuel   int32           `json:"fuel"`
		} `json:"case"`
	}
	if err := json.Unmarshal(b, &r); err != nil {
		t.Fatal(err)
	}
	c := r.Case
	os.WriteFile("/tmp/c01rep/mutant.wasm", c.Module.Bytes, 0o644)
	for _, e := range wz.Engines {
		tr := runner.Run(wz.Config(e).WithCloseOnContextDone(true), c.Module, c.Script, runner.Options{FuelPerCall: c.Fuel})
		j, _ := json.Marshal(tr)
		fmt.Println(e, string(j))
	}
}
