package zz

import (
	"context"
	"fmt"
	"os"
	"testing"

	"github.com/tetratelabs/wazero"
	"github.com/tetratelabs/wazero/api"
	"github.com/tetratelabs/wazero/experimental"

	"verif/internal/wasmenc"
)

// variants of a guest function that ends in return_call to an imported host function
func TestTailCallToHost(t *testing.T) {
	ctx := context.Background()
	variant := os.Getenv("VARIANT")
	m := &wasmenc.Module{}
	var hp []byte
	switch variant {
	case "3p":
		hp = []byte{wasmenc.I64, wasmenc.I64, wasmenc.F32}
	case "1p":
		hp = []byte{wasmenc.I64}
	default:
		hp = nil
	}
	h := m.ImportFunc("env", "h", hp, nil)
	b := wasmenc.NewB()
	for _, p := range hp {
		switch p {
		case wasmenc.I64:
			b.I64Const(5)
		case wasmenc.F32:
			b.F32(1)
		}
	}
	b.ReturnCall(h)
	var fp []byte
	if os.Getenv("FP") == "2" {
		fp = []byte{wasmenc.ExternRef, wasmenc.F32}
	}
	m.ExportFunc("f", m.AddFunc(fp, nil, nil, b.Bytes()))
	// g calls f normally
	gb := wasmenc.NewB()
	for _, p := range fp {
		switch p {
		case wasmenc.ExternRef:
			gb.RefNull(wasmenc.ExternRef)
		case wasmenc.F32:
			gb.F32(1)
		}
	}
	gb.Call(1)
	m.ExportFunc("g", m.AddFunc(nil, nil, nil, gb.Bytes()))
	cfg := wazero.NewRuntimeConfigCompiler().WithCoreFeatures(api.CoreFeaturesV2 | experimental.CoreFeaturesTailCall)
	rt := wazero.NewRuntimeWithConfig(ctx, cfg)
	defer rt.Close(ctx)
	calls := 0
	hb := rt.NewHostModuleBuilder("env").NewFunctionBuilder()
	var pts []api.ValueType
	for _, p := range hp {
		pts = append(pts, api.ValueType(p))
	}
	if os.Getenv("GOFUNC") == "1" {
		hb = hb.WithGoFunction(api.GoFunc(func(ctx context.Context, stack []uint64) { calls++ }), pts, nil)
	} else {
		hb = hb.WithGoModuleFunction(api.GoModuleFunc(func(ctx context.Context, mod api.Module, stack []uint64) { calls++ }), pts, nil)
	}
	if _, err := hb.Export("h").Instantiate(ctx); err != nil {
		t.Fatal(err)
	}
	mod, err := rt.Instantiate(ctx, m.Encode())
	if err != nil {
		t.Fatal(err)
	}
	args := make([]uint64, len(fp))
	for _, fn := range []string{"g", "f", "f", "g"} {
		var a []uint64
		if fn == "f" {
			a = args
		}
		_, err := mod.ExportedFunction(fn).Call(ctx, a...)
		fmt.Println(fn, err, calls)
	}
}
