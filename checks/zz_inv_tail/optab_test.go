package zz

import (
	"fmt"
	"os"
	"testing"

	"verif/internal/wasmgen"
)

func TestDumpOps(t *testing.T) {
	f, _ := os.Create("/tmp/c01rep/ops.txt")
	defer f.Close()
	for _, op := range wasmgen.OpTable {
		fmt.Fprintf(f, "%s\t%d\t%d\n", op.Name, op.Prefix, op.Sub)
	}
}
