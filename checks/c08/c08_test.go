// C08 — values cross the host/guest boundary unchanged.
//
// A case is (engine, host-function definition style, signature, Go types chosen for the
// reflective styles, a few value vectors). For every case a guest module is generated that
// imports the host function and exports
//
//	echo        params -> host -> results
//	id          returns its params
//	kcall_v     calls the host function with the v-th argument vector as constants and compares
//	            every result with the expected constant inside the guest (bit mask result)
//	cmp_v_k     forwards its params to the host function and tests the k-th result against the
//	            expected constant with eq, ne, xor+eqz, extend_u, extend_s and unsigned orderings
//
// The oracle is identity: what the host function observes equals what was passed, what Go gets
// back equals what the host function returned, the guest-side comparisons all say "equal", and
// a callback from the host function into the guest's id returns its arguments; bit for bit.
package c08

import (
	"context"
	"fmt"
	"math"
	"os"
	"reflect"
	"regexp"
	"runtime/debug"
	"strings"
	"sync"
	"sync/atomic"
	"testing"

	"github.com/tetratelabs/wazero"
	"github.com/tetratelabs/wazero/api"
	"github.com/tetratelabs/wazero/experimental"
	"pgregory.net/rapid"

	"verif/internal/evid"
	"verif/internal/wasmenc"
	"verif/internal/wz"
)

func TestMain(m *testing.M) { evid.Main(m, "C08") }

const (
	findSignExt = "C08-int32-result-sign-extended"
	findSNaN    = "C08-reflect-f32-snan-quieted"
	findTail7   = "C08-tailcall-import-7th-int-arg-clobbered"
)

// ---------------------------------------------------------------- case form

// Vec is one value vector: raw bits per parameter and per result (32-bit types in the low half).
type Vec struct {
	Args []uint64 `json:"args"`
	Res  []uint64 `json:"res"`
}

// Case is the replayable unit. Types are written one letter per position:
// i=i32 I=i64 f=f32 F=f64 x=externref. PGo/RGo choose the Go type of integer positions for the
// reflective styles: s=int32/int64, u=uint32/uint64 (ignored for floats and externref).
type Case struct {
	Engine string `json:"engine"`
	Style  string `json:"style"` // reflect | reflect-ctx | reflect-mod | gofunc | gomodfunc
	P      string `json:"params"`
	R      string `json:"results"`
	PGo    string `json:"params_go"`
	RGo    string `json:"results_go"`
	Vecs   []Vec  `json:"vectors"`
	// NoTail leaves out the echo_tail form (set by the generator for the class of a reproduced
	// known finding).
	NoTail bool `json:"no_tail,omitempty"`
	// Listener: "" none, "all" a FunctionListenerFactory returning a listener for every function,
	// "nil" a factory returning nil; it is in the context used for compiling, instantiating and calling.
	Listener string `json:"listener,omitempty"`
	// Fleet > 1: the host module holds Fleet functions; the function under test is the Pos-th one
	// (order of Export), the others are self-identifying pad functions of mixed styles and
	// signatures; the guest also imports the pad functions at positions Probes and calls them.
	Fleet  int   `json:"fleet,omitempty"`
	Pos    int   `json:"pos,omitempty"`
	Probes []int `json:"probes,omitempty"`
	// Imports is the guest's import section in order: "f" (the function under test), "p<j>" for
	// each probed pad function, and non-function imports taken from the helper module "aux":
	// "gi" (immutable i32 global), "gI" (mutable i64 global), "gF" (immutable f64 global),
	// "m" (memory), "t" (funcref table). Empty means "f" followed by the probes.
	Imports []string `json:"imports,omitempty"`
	// Type0 >= 1 puts padSigs[Type0-1] first in the guest's type section, so that type index 0
	// is not the type of the function under test.
	Type0 int `json:"type0,omitempty"`
	// Mods (2 or 3): the host functions are spread over that many host modules: function #j
	// lives in host module j%Mods at index j/Mods, so equal indices occur in different modules.
	Mods int `json:"host_modules,omitempty"`
	// Overflow adds the sequence "a call that ends in stack overflow, then a small call that never
	// reaches a host function" on ONE api.Function (deepid), through Call and CallWithStack.
	Overflow bool `json:"overflow,omitempty"`
	// TailQ: types of extra leading parameters of the wide tail callers wide_tail / wide_tci
	// ((TailQ..., params...) -> results: drop TailQ, return_call[_indirect] the host function), so
	// that the tail-calling function's own signature differs from the host function's.
	TailQ string `json:"tail_extra_params,omitempty"`
	// Reexport: a second guest module imports echo and id from the guest and re-exports them;
	// Go (and the re-entering host function) look them up through that module.
	Reexport bool `json:"reexport,omitempty"`
}

var styles = []string{"reflect", "reflect-ctx", "reflect-mod", "gofunc", "gomodfunc"}

func isReflect(style string) bool { return strings.HasPrefix(style, "reflect") }

// usesIntKind: a reflective case with Go int/uint at an i32 position (the builder may reject it).
func usesIntKind(c Case) bool {
	if !isReflect(c.Style) {
		return false
	}
	for i := range c.P {
		if c.P[i] == 'i' && (sel(c.PGo, i) == 'n' || sel(c.PGo, i) == 'N') {
			return true
		}
	}
	for i := range c.R {
		if c.R[i] == 'i' && (sel(c.RGo, i) == 'n' || sel(c.RGo, i) == 'N') {
			return true
		}
	}
	return false
}

func vt(c byte) byte {
	switch c {
	case 'i':
		return wasmenc.I32
	case 'I':
		return wasmenc.I64
	case 'f':
		return wasmenc.F32
	case 'F':
		return wasmenc.F64
	default:
		return wasmenc.ExternRef
	}
}

func vts(s string) []byte {
	r := make([]byte, len(s))
	for i := range s {
		r[i] = vt(s[i])
	}
	return r
}

func is32(c byte) bool { return c == 'i' || c == 'f' }

// canon is the value a slot carries according to the documented encoding (api.DecodeXXX).
func canon(c byte, raw uint64) uint64 {
	if is32(c) {
		return uint64(uint32(raw))
	}
	return raw
}

func fmtVals(types string, v []uint64) string {
	var sb strings.Builder
	sb.WriteString("[")
	for i, x := range v {
		if i > 0 {
			sb.WriteString(" ")
		}
		t := byte('?')
		if i < len(types) {
			t = types[i]
		}
		fmt.Fprintf(&sb, "%c:%#x", t, x)
	}
	sb.WriteString("]")
	return sb.String()
}

// ---------------------------------------------------------------- guest module

// flagsExpr leaves an i32 on the stack: 0 when local L (type t) equals constant c under every test.
func flagsExpr(b *wasmenc.B, t byte, L uint32, c uint64) {
	or := func(shift int32) {
		if shift > 0 {
			b.I32Const(shift).Raw(wasmenc.OpI32Shl)
		}
		b.Raw(wasmenc.OpI32Or)
	}
	switch t {
	case 'i':
		k := int32(uint32(c))
		b.LocalGet(L).I32Const(k).Raw(wasmenc.OpI32Eq).Raw(wasmenc.OpI32Eqz) // bit0: eq says different
		b.LocalGet(L).I32Const(k).Raw(wasmenc.OpI32Ne)                       // bit1: ne says different
		or(1)
		b.LocalGet(L).I32Const(k).Raw(wasmenc.OpI32Xor).Raw(wasmenc.OpI32Eqz).Raw(wasmenc.OpI32Eqz) // bit2: x^c != 0
		or(2)
		b.LocalGet(L).Raw(wasmenc.OpI64ExtendI32U).I64Const(int64(uint64(uint32(c)))).Raw(wasmenc.OpI64Ne) // bit3
		or(3)
		b.LocalGet(L).Raw(wasmenc.OpI64ExtendI32S).I64Const(int64(int32(uint32(c)))).Raw(wasmenc.OpI64Ne) // bit4
		or(4)
		b.LocalGet(L).I32Const(k).Raw(wasmenc.OpI32LtU).LocalGet(L).I32Const(k).Raw(wasmenc.OpI32GtU).Raw(wasmenc.OpI32Or) // bit5
		or(5)
		// bit6: the value used as a condition after subtracting the constant
		b.LocalGet(L).I32Const(k).Raw(wasmenc.OpI32Sub).If(wasmenc.I32).I32Const(1).Else().I32Const(0).End()
		or(6)
	case 'I':
		b.LocalGet(L).I64Const(int64(c)).Raw(wasmenc.OpI64Eq).Raw(wasmenc.OpI32Eqz)
		b.LocalGet(L).I64Const(int64(c)).Raw(wasmenc.OpI64Ne)
		or(1)
	case 'f':
		k := int32(uint32(c))
		b.LocalGet(L).Raw(wasmenc.OpI32ReinterpretF32).I32Const(k).Raw(wasmenc.OpI32Eq).Raw(wasmenc.OpI32Eqz)
		b.LocalGet(L).Raw(wasmenc.OpI32ReinterpretF32).I32Const(k).Raw(wasmenc.OpI32Ne)
		or(1)
		b.LocalGet(L).Raw(wasmenc.OpI32ReinterpretF32).Raw(wasmenc.OpI64ExtendI32U).I64Const(int64(uint64(uint32(c)))).Raw(wasmenc.OpI64Ne)
		or(3)
	case 'F':
		b.LocalGet(L).Raw(wasmenc.OpI64ReinterpretF64).I64Const(int64(c)).Raw(wasmenc.OpI64Eq).Raw(wasmenc.OpI32Eqz)
		b.LocalGet(L).Raw(wasmenc.OpI64ReinterpretF64).I64Const(int64(c)).Raw(wasmenc.OpI64Ne)
		or(1)
	default: // externref: only null-ness is observable inside the guest
		exp := int32(0)
		if c == 0 {
			exp = 1
		}
		b.LocalGet(L).RefIsNull().I32Const(exp).Raw(wasmenc.OpI32Ne)
	}
}

func pushConst(b *wasmenc.B, t byte, c uint64) {
	switch t {
	case 'i':
		b.I32Const(int32(uint32(c)))
	case 'I':
		b.I64Const(int64(c))
	case 'f':
		b.F32Const(uint32(c))
	case 'F':
		b.F64Const(c)
	default:
		b.RefNull(wasmenc.ExternRef)
	}
}

const holdMark = 0x5eed0000aaaa5555

var auxKinds = []string{"gi", "gI", "gF", "m", "t"}

func nMods(c Case) int {
	n := c.Fleet
	if n < 1 {
		n = 1
	}
	if c.Mods >= 2 && c.Mods <= n {
		return c.Mods
	}
	return 1
}

// hostModName is the name of the host module that holds function #j.
func hostModName(c Case, j int) string {
	if k := j % nMods(c); k > 0 {
		return fmt.Sprintf("host%d", k)
	}
	return "host"
}

// importOrder returns the guest's import section order (default: f, then the probes).
func importOrder(c Case) []string {
	if len(c.Imports) > 0 {
		return c.Imports
	}
	o := []string{"f"}
	for _, j := range c.Probes {
		o = append(o, fmt.Sprintf("p%d", j))
	}
	return o
}

func needsAux(c Case) bool {
	for _, x := range importOrder(c) {
		if x != "f" && x[0] != 'p' {
			return true
		}
	}
	return false
}

// auxModule exports the globals, memory and table a guest may import.
func auxModule() []byte {
	m := &wasmenc.Module{
		Mems:   [][]byte{wasmenc.Limits(1, 2, false)},
		Tables: [][]byte{wasmenc.TableType(wasmenc.FuncRef, 2, 4)},
		Globals: []wasmenc.Global{
			{Type: wasmenc.I32, Init: wasmenc.NewB().I32Const(7).Bytes()},
			{Type: wasmenc.I64, Mut: true, Init: wasmenc.NewB().I64Const(-9).Bytes()},
			{Type: wasmenc.F64, Init: wasmenc.NewB().F64(1.5).Bytes()},
		},
	}
	m.Exports = []wasmenc.Export{{Name: "gi", Kind: wasmenc.KGlobal, Idx: 0}, {Name: "gI", Kind: wasmenc.KGlobal, Idx: 1}, {Name: "gF", Kind: wasmenc.KGlobal, Idx: 2},
		{Name: "m", Kind: wasmenc.KMem, Idx: 0}, {Name: "t", Kind: wasmenc.KTable, Idx: 0}}
	return m.Encode()
}

func buildGuest(c Case) []byte {
	m := &wasmenc.Module{}
	P, R := vts(c.P), vts(c.R)
	np, nr := uint32(len(P)), uint32(len(R))
	if c.Type0 >= 1 && c.Type0 <= len(padSigs) {
		m.AddType(vts(padSigs[c.Type0-1][0]), vts(padSigs[c.Type0-1][1]))
	}
	var host uint32
	padIdx := map[int]uint32{}
	ownTable := uint32(0)              // index of the guest's own table (after imported tables)
	for _, x := range importOrder(c) { // all imports before the first AddFunc
		switch x {
		case "f":
			host = m.ImportFunc(hostModName(c, c.Pos), "f", P, R)
		case "gi":
			m.Imports = append(m.Imports, wasmenc.Import{Mod: "aux", Name: "gi", Kind: wasmenc.KGlobal, Desc: wasmenc.GlobalType(wasmenc.I32, false)})
		case "gI":
			m.Imports = append(m.Imports, wasmenc.Import{Mod: "aux", Name: "gI", Kind: wasmenc.KGlobal, Desc: wasmenc.GlobalType(wasmenc.I64, true)})
		case "gF":
			m.Imports = append(m.Imports, wasmenc.Import{Mod: "aux", Name: "gF", Kind: wasmenc.KGlobal, Desc: wasmenc.GlobalType(wasmenc.F64, false)})
		case "m":
			m.Imports = append(m.Imports, wasmenc.Import{Mod: "aux", Name: "m", Kind: wasmenc.KMem, Desc: wasmenc.Limits(1, 2, false)})
		case "t":
			m.Imports = append(m.Imports, wasmenc.Import{Mod: "aux", Name: "t", Kind: wasmenc.KTable, Desc: wasmenc.TableType(wasmenc.FuncRef, 2, 4)})
			ownTable++
		default:
			var j int
			fmt.Sscanf(x, "p%d", &j)
			pp, pr := padSig(j)
			padIdx[j] = m.ImportFunc(hostModName(c, j), x, vts(pp), vts(pr))
		}
	}
	params := func(b *wasmenc.B) *wasmenc.B {
		for i := uint32(0); i < np; i++ {
			b.LocalGet(i)
		}
		return b
	}
	for _, j := range c.Probes {
		pp, pr := padSig(j)
		b := wasmenc.NewB()
		for i := range pp {
			b.LocalGet(uint32(i))
		}
		m.ExportFunc(fmt.Sprintf("pad_%d", j), m.AddFunc(vts(pp), vts(pr), nil, b.Call(padIdx[j]).Bytes()))
	}
	m.ExportFunc("echo", m.AddFunc(P, R, nil, params(wasmenc.NewB()).Call(host).Bytes()))
	m.ExportFunc("id", m.AddFunc(P, P, nil, params(wasmenc.NewB()).Bytes()))
	// the same forwarding through call_indirect and through a tail call. (Re-exporting the
	// imported host function and calling it from Go is not generated: HostModuleBuilder documents
	// that host functions need an importing module and must not be called directly; on the
	// compiler ExportedFunction of such a re-export panics with an index error.)
	m.Tables = [][]byte{wasmenc.TableType(wasmenc.FuncRef, 1, 1)}
	if ownTable == 0 {
		m.Elems = [][]byte{wasmenc.ActiveElemFuncs(0, []uint32{host})}
	} else {
		m.Elems = [][]byte{wasmenc.ActiveElemFuncsTable(ownTable, wasmenc.NewB().I32Const(0).Bytes(), []uint32{host})}
	}
	m.ExportFunc("echo_ind", m.AddFunc(P, R, nil, params(wasmenc.NewB()).I32Const(0).CallIndirect(m.AddType(P, R), ownTable).Bytes()))
	m.ExportFunc("echo_tail", m.AddFunc(P, R, nil, params(wasmenc.NewB()).ReturnCall(host).Bytes()))
	// echo_tci: the tail call through the table (return_call_indirect to the host function)
	tIdx := m.AddType(P, R)
	echoTail := m.NumImportedFuncs() + uint32(len(m.Funcs)) - 1
	echoTci := m.AddFunc(P, R, nil, params(wasmenc.NewB()).I32Const(0).ReturnCallIndirect(tIdx, ownTable).Bytes())
	m.ExportFunc("echo_tci", echoTci)
	// hold_tail / hold_tci: a caller that keeps an operand on its stack across the call of the
	// tail-calling function: returns (0x5eed0000aaaa5555, results...)
	holdR := append([]byte{wasmenc.I64}, R...)
	m.ExportFunc("hold_tail", m.AddFunc(P, holdR, nil, params(wasmenc.NewB().I64Const(holdMark)).Call(echoTail).Bytes()))
	m.ExportFunc("hold_tci", m.AddFunc(P, holdR, nil, params(wasmenc.NewB().I64Const(holdMark)).Call(echoTci).Bytes()))
	if c.TailQ != "" {
		Q := vts(c.TailQ)
		nq := uint32(len(Q))
		wp := append(append([]byte{}, Q...), P...)
		fwd := func(b *wasmenc.B) *wasmenc.B { // the host function's params are the trailing params
			for i := uint32(0); i < np; i++ {
				b.LocalGet(nq + i)
			}
			return b
		}
		all := func(b *wasmenc.B) *wasmenc.B {
			for i := uint32(0); i < nq+np; i++ {
				b.LocalGet(i)
			}
			return b
		}
		wideTail := m.AddFunc(wp, R, nil, fwd(wasmenc.NewB()).ReturnCall(host).Bytes())
		m.ExportFunc("wide_tail", wideTail)
		wideTci := m.AddFunc(wp, R, nil, fwd(wasmenc.NewB()).I32Const(0).ReturnCallIndirect(tIdx, ownTable).Bytes())
		m.ExportFunc("wide_tci", wideTci)
		// wasm callers of the wide tail callers, keeping an operand across the call
		m.ExportFunc("wide_hold_tail", m.AddFunc(wp, holdR, nil, all(wasmenc.NewB().I64Const(holdMark)).Call(wideTail).Bytes()))
		m.ExportFunc("wide_hold_tci", m.AddFunc(wp, holdR, nil, all(wasmenc.NewB().I64Const(holdMark)).Call(wideTci).Bytes()))
	}
	if c.Overflow {
		// deepid(d, params...) -> params: non-tail recursion d levels deep, then returns its params
		dp := append([]byte{wasmenc.I32}, P...)
		self := m.NumImportedFuncs() + uint32(len(m.Funcs))
		b := wasmenc.NewB().LocalGet(0).Raw(wasmenc.OpI32Eqz).IfT(m.AddType(nil, P))
		for i := uint32(0); i < np; i++ {
			b.LocalGet(1 + i)
		}
		b.Else().LocalGet(0).I32Const(1).Raw(wasmenc.OpI32Sub)
		for i := uint32(0); i < np; i++ {
			b.LocalGet(1 + i)
		}
		b.Call(self).End()
		m.ExportFunc("deepid", m.AddFunc(dp, P, nil, b.Bytes()))
	}
	// multi_v: () -> i64: one guest call that calls every probed pad function, then the function
	// under test with the v-th vector as constants, then every pad function again, comparing all
	// results with constants inside the guest (bit k / 16+k: pad k in round 1 / 2, bit 40: function under test)
	if len(c.Probes) > 0 && len(c.Probes) <= 16 {
		for vi, v := range c.Vecs {
			if vi >= 2 {
				break // two vectors are enough for the multi-call form
			}
			var locals []byte
			locals = append(locals, R...)
			base := map[int]uint32{}
			for _, j := range c.Probes {
				_, pr := padSig(j)
				base[j] = uint32(len(locals))
				locals = append(locals, vts(pr)...)
			}
			b := wasmenc.NewB().I64Const(0)
			round := func(shift int) {
				for k, j := range c.Probes {
					pp, pr := padSig(j)
					pargs := padArgs(vi, j)
					for i := range pp {
						pushConst(b, pp[i], pargs[i])
					}
					b.Call(padIdx[j])
					for i := len(pr) - 1; i >= 0; i-- {
						b.LocalSet(base[j] + uint32(i))
					}
					want := padResults(j, pr, pargs)
					for i := range pr {
						flagsExpr(b, pr[i], base[j]+uint32(i), want[i])
						b.Raw(wasmenc.OpI32Eqz).Raw(wasmenc.OpI32Eqz).Raw(wasmenc.OpI64ExtendI32U).I64Const(int64(shift + k)).Raw(wasmenc.OpI64Shl).Raw(wasmenc.OpI64Or)
					}
				}
			}
			round(0)
			for i := range P {
				pushConst(b, c.P[i], v.Args[i])
			}
			b.Call(host)
			for i := int(nr) - 1; i >= 0; i-- {
				b.LocalSet(uint32(i))
			}
			for i := 0; i < int(nr); i++ {
				flagsExpr(b, c.R[i], uint32(i), v.Res[i])
				b.Raw(wasmenc.OpI32Eqz).Raw(wasmenc.OpI32Eqz).Raw(wasmenc.OpI64ExtendI32U).I64Const(40).Raw(wasmenc.OpI64Shl).Raw(wasmenc.OpI64Or)
			}
			round(16)
			m.ExportFunc(fmt.Sprintf("multi_%d", vi), m.AddFunc(nil, []byte{wasmenc.I64}, locals, b.Bytes()))
		}
	}
	for vi, v := range c.Vecs {
		// kcall_v: () -> i64, locals = results
		b := wasmenc.NewB()
		for i := range P {
			pushConst(b, c.P[i], v.Args[i])
		}
		b.Call(host)
		for j := int(nr) - 1; j >= 0; j-- {
			b.LocalSet(uint32(j))
		}
		b.I64Const(0)
		for j := 0; j < int(nr); j++ {
			flagsExpr(b, c.R[j], uint32(j), v.Res[j])
			// any flag -> bit j
			b.Raw(wasmenc.OpI32Eqz).Raw(wasmenc.OpI32Eqz).Raw(wasmenc.OpI64ExtendI32U).I64Const(int64(j)).Raw(wasmenc.OpI64Shl).Raw(wasmenc.OpI64Or)
		}
		m.ExportFunc(fmt.Sprintf("kcall_%d", vi), m.AddFunc(nil, []byte{wasmenc.I64}, R, b.Bytes()))
		for k := 0; k < int(nr); k++ {
			b := params(wasmenc.NewB()).Call(host)
			for j := int(nr) - 1; j >= 0; j-- {
				b.LocalSet(np + uint32(j))
			}
			flagsExpr(b, c.R[k], np+uint32(k), v.Res[k])
			m.ExportFunc(fmt.Sprintf("cmp_%d_%d", vi, k), m.AddFunc(P, []byte{wasmenc.I32}, R, b.Bytes()))
		}
	}
	return m.Encode()
}

// ---------------------------------------------------------------- host side

type ctxKey struct{}

type hostState struct {
	c        Case
	guest    api.Module
	cur      *Vec
	outer    api.Module // module through which echo is looked up for re-entry (re-exporting module or the guest)
	depth    int
	reIdx    int // vector index of the outermost level of a nested re-entry
	cb       int // 0: none, 1: call id back with Call, 2: with CallWithStack, 4: re-enter echo (nested, other vectors)
	calls    [][]uint64
	padCalls []padCall
	problems []string
	dirtyIn  int
}

func (h *hostState) problem(f string, a ...any) {
	if len(h.problems) < 8 {
		h.problems = append(h.problems, fmt.Sprintf(f, a...))
	}
}

// callback calls the guest's id with the received arguments and checks identity.
// resultsFor: what the host function returns for the arguments it received.
func (h *hostState) resultsFor(got []uint64) []uint64 {
	if h.cb == 4 && len(h.c.Vecs) > 0 { // nested re-entry: level k works on vector reIdx+k
		return h.c.Vecs[(h.reIdx+h.depth)%len(h.c.Vecs)].Res
	}
	if h.cur != nil {
		return h.cur.Res
	}
	return make([]uint64, len(h.c.R))
}

// reenter: the host function calls the SAME export (echo) again, nested, with the next vector.
func (h *hostState) reenter(ctx context.Context, got []uint64) {
	if h.depth >= 2 || h.outer == nil {
		return
	}
	next := &h.c.Vecs[(h.reIdx+h.depth+1)%len(h.c.Vecs)]
	fn := h.outer.ExportedFunction("echo") // a fresh lookup: the outer invocation's api.Function is in use
	if fn == nil {
		h.problem("re-entry: no export echo")
		return
	}
	h.depth++
	defer func() { h.depth-- }()
	var res []uint64
	var err error
	if h.depth%2 == 1 {
		res, err = fn.Call(ctx, next.Args...)
	} else {
		n := len(next.Args)
		if len(next.Res) > n {
			n = len(next.Res)
		}
		st := make([]uint64, n)
		copy(st, next.Args)
		err = fn.CallWithStack(ctx, st)
		res = st[:len(next.Res)]
	}
	if err != nil {
		h.problem("nested echo (level %d) called from inside the host function failed: %v", h.depth, strings.SplitN(err.Error(), "\n", 2)[0])
		return
	}
	want := next.Res
	for i := range want {
		if i >= len(res) || canon(h.c.R[i], res[i]) != want[i] {
			h.problem("nested echo%s (level %d, called from inside the host function through a fresh lookup of the same export) returned %s, the host function returned %s for these arguments", fmtVals(h.c.P, next.Args), h.depth, fmtVals(h.c.R, res), fmtVals(h.c.R, want))
			return
		}
	}
}

func (h *hostState) callback(ctx context.Context, mod api.Module, got []uint64) {
	if h.cb == 0 {
		return
	}
	if h.cb == 4 {
		h.reenter(ctx, got)
		return
	}
	if mod == nil {
		mod = h.guest
	}
	if mod == nil {
		h.problem("harness: no module for the callback")
		return
	}
	id := mod.ExportedFunction("id")
	if id == nil {
		h.problem("callback: calling module %q has no export id", mod.Name())
		return
	}
	args := append([]uint64{}, got...)
	var res []uint64
	var err error
	if h.cb == 1 {
		res, err = id.Call(ctx, args...)
	} else {
		st := make([]uint64, len(args)+1)
		copy(st, args)
		err = id.CallWithStack(ctx, st)
		res = st[:len(args)]
	}
	if err != nil {
		h.problem("callback id(...) from inside the host function failed: %v", strings.SplitN(err.Error(), "\n", 2)[0])
		return
	}
	if len(res) != len(got) {
		h.problem("callback id(...) returned %d values for %d", len(res), len(got))
		return
	}
	for i := range got {
		if canon(h.c.P[i], res[i]) != got[i] {
			h.problem("callback id%s from inside the host function returned %s: position %d differs", fmtVals(h.c.P, got), fmtVals(h.c.P, res), i)
			return
		}
	}
}

// stackFn is the body of the two stack-based styles.
func (h *hostState) stackFn(ctx context.Context, mod api.Module, stack []uint64) {
	np, nr := len(h.c.P), len(h.c.R)
	need := np
	if nr > need {
		need = nr
	}
	if len(stack) < need {
		h.problem("host function got a stack of %d slots for %d params / %d results", len(stack), np, nr)
		return
	}
	got := make([]uint64, np)
	for i := 0; i < np; i++ {
		got[i] = canon(h.c.P[i], stack[i])
		if got[i] != stack[i] {
			h.dirtyIn++
		}
	}
	h.calls = append(h.calls, got)
	h.callback(ctx, mod, got)
	if h.cb != 0 {
		for i := 0; i < np; i++ { // the parameter slots must survive the nested call
			if canon(h.c.P[i], stack[i]) != got[i] {
				h.problem("parameter slot %d of the host function changed during the callback: %#x -> %#x", i, got[i], stack[i])
			}
		}
	}
	copy(stack, h.resultsFor(got)) // canonical encodings (api.EncodeU32 / EncodeF32 / ...)
}

// Named types of every accepted kind (the builder accepts parameter and result types by kind).
type (
	MyI32 int32
	MyU32 uint32
	MyI64 int64
	MyU64 uint64
	MyF32 float32
	MyF64 float64
	MyPtr uintptr
)

// goType: selector s/u = plain signed/unsigned type, S/U = named type of the same kind,
// n/N = Go int/uint for an i32 position (the builder may reject these kinds; if it accepts
// them the values must round-trip: int as the signed 32-bit value).
func goType(t, sel byte) reflect.Type {
	if t == 'i' && sel == 'n' {
		return reflect.TypeOf(int(0))
	}
	if t == 'i' && sel == 'N' {
		return reflect.TypeOf(uint(0))
	}
	named := sel == 'S' || sel == 'U'
	unsigned := sel == 'u' || sel == 'U'
	switch t {
	case 'i':
		switch {
		case named && unsigned:
			return reflect.TypeOf(MyU32(0))
		case named:
			return reflect.TypeOf(MyI32(0))
		case unsigned:
			return reflect.TypeOf(uint32(0))
		}
		return reflect.TypeOf(int32(0))
	case 'I':
		switch {
		case named && unsigned:
			return reflect.TypeOf(MyU64(0))
		case named:
			return reflect.TypeOf(MyI64(0))
		case unsigned:
			return reflect.TypeOf(uint64(0))
		}
		return reflect.TypeOf(int64(0))
	case 'f':
		if named {
			return reflect.TypeOf(MyF32(0))
		}
		return reflect.TypeOf(float32(0))
	case 'F':
		if named {
			return reflect.TypeOf(MyF64(0))
		}
		return reflect.TypeOf(float64(0))
	default:
		if named {
			return reflect.TypeOf(MyPtr(0))
		}
		return reflect.TypeOf(uintptr(0))
	}
}

func sel(s string, i int) byte {
	if i < len(s) {
		return s[i]
	}
	return 's'
}

// bitsOf reads the raw bits of a reflected argument without any float conversion.
func bitsOf(v reflect.Value) uint64 {
	switch v.Kind() {
	case reflect.Int: // must be the sign-extended 32-bit value
		if x := v.Int(); x != int64(int32(x)) {
			return uint64(x) | 1<<62 // not a 32-bit value: make the mismatch visible
		}
		return uint64(uint32(v.Int()))
	case reflect.Uint:
		if x := v.Uint(); x > math.MaxUint32 {
			return x | 1<<62
		}
		return v.Uint()
	case reflect.Int32:
		return uint64(uint32(v.Int()))
	case reflect.Int64:
		return uint64(v.Int())
	case reflect.Uint32, reflect.Uint64, reflect.Uintptr:
		return v.Uint()
	case reflect.Float32:
		// float32 -> float32 conversion keeps the bits (no round trip through float64)
		return uint64(math.Float32bits(v.Convert(f32Type).Interface().(float32)))
	case reflect.Float64:
		return math.Float64bits(v.Float())
	}
	panic("harness: unexpected reflected type " + v.Type().String())
}

var f32Type = reflect.TypeOf(float32(0))

// valueOf makes a value of (possibly named) type t from raw bits.
func valueOf(t reflect.Type, bits uint64) reflect.Value {
	var v reflect.Value
	switch t.Kind() {
	case reflect.Int:
		v = reflect.ValueOf(int(int32(uint32(bits))))
	case reflect.Uint:
		v = reflect.ValueOf(uint(uint32(bits)))
	case reflect.Int32:
		v = reflect.ValueOf(int32(uint32(bits)))
	case reflect.Uint32:
		v = reflect.ValueOf(uint32(bits))
	case reflect.Int64:
		v = reflect.ValueOf(int64(bits))
	case reflect.Uint64:
		v = reflect.ValueOf(bits)
	case reflect.Float32:
		v = reflect.ValueOf(math.Float32frombits(uint32(bits)))
	case reflect.Float64:
		v = reflect.ValueOf(math.Float64frombits(bits))
	default:
		v = reflect.ValueOf(uintptr(bits))
	}
	if v.Type() != t {
		v = v.Convert(t) // same kind: bit-preserving (float32->float32 keeps signalling NaNs)
	}
	return v
}

var (
	ctxType = reflect.TypeOf((*context.Context)(nil)).Elem()
	modType = reflect.TypeOf((*api.Module)(nil)).Elem()
)

// reflectFn synthesises the Go function for the reflective styles.
func (h *hostState) reflectFn() any {
	c := h.c
	var in, out []reflect.Type
	skip := 0
	switch c.Style {
	case "reflect-ctx":
		in = append(in, ctxType)
		skip = 1
	case "reflect-mod":
		in = append(in, ctxType, modType)
		skip = 2
	}
	for i := range c.P {
		in = append(in, goType(c.P[i], sel(c.PGo, i)))
	}
	for i := range c.R {
		out = append(out, goType(c.R[i], sel(c.RGo, i)))
	}
	ft := reflect.FuncOf(in, out, false)
	return reflect.MakeFunc(ft, func(args []reflect.Value) []reflect.Value {
		ctx := context.Background()
		var mod api.Module
		if skip >= 1 {
			if cx, ok := args[0].Interface().(context.Context); ok && cx != nil {
				ctx = cx
			}
		}
		if skip == 2 {
			mod, _ = args[1].Interface().(api.Module)
			if mod == nil {
				h.problem("reflective host function received a nil api.Module")
			}
		}
		got := make([]uint64, len(c.P))
		for i := range c.P {
			got[i] = bitsOf(args[skip+i])
		}
		h.calls = append(h.calls, got)
		h.callback(ctx, mod, got)
		rr := h.resultsFor(got)
		res := make([]reflect.Value, len(out))
		for i := range out {
			res[i] = valueOf(out[i], rr[i])
		}
		return res
	}).Interface()
}

func apiTypes(s string) []api.ValueType {
	r := make([]api.ValueType, len(s))
	for i := range s {
		r[i] = vt(s[i])
	}
	return r
}

// ---------------------------------------------------------------- listeners and pad functions

type countingListener struct{ before, after, abort atomic.Int64 }

func (l *countingListener) Before(_ context.Context, _ api.Module, _ api.FunctionDefinition, params []uint64, _ experimental.StackIterator) {
	l.before.Add(int64(1 + len(params)*0))
}
func (l *countingListener) After(context.Context, api.Module, api.FunctionDefinition, []uint64) {
	l.after.Add(1)
}
func (l *countingListener) Abort(context.Context, api.Module, api.FunctionDefinition, error) {
	l.abort.Add(1)
}

// listenerCtx puts the case's listener factory (if any) into the context.
func listenerCtx(ctx context.Context, kind string) context.Context {
	switch kind {
	case "all":
		l := &countingListener{}
		return experimental.WithFunctionListenerFactory(ctx, experimental.FunctionListenerFactoryFunc(func(api.FunctionDefinition) experimental.FunctionListener { return l }))
	case "nil":
		return experimental.WithFunctionListenerFactory(ctx, experimental.FunctionListenerFactoryFunc(func(api.FunctionDefinition) experimental.FunctionListener { return nil }))
	}
	return ctx
}

// pad functions: position j in the host module decides style and signature; every pad function
// records its own id with the values it received and returns values derived from its id and them.
var padSigs = [][2]string{{"i", "i"}, {"II", "I"}, {"", "iI"}, {"Fi", "Ii"}, {"I", "IIi"}}

func padSig(j int) (string, string) { s := padSigs[(j/5)%len(padSigs)]; return s[0], s[1] }
func padStyle(j int) string         { return styles[j%len(styles)] }

// padArgs: the arguments the harness and the guest's multi function pass to pad function j for vector vi.
func padArgs(vi, j int) []uint64 {
	pp, _ := padSig(j)
	a := make([]uint64, len(pp))
	for i := range a {
		a[i] = canon(pp[i], mix(0xa46, uint64(vi), uint64(j), uint64(i)))
	}
	return a
}

func padResults(j int, R string, args []uint64) []uint64 {
	r := make([]uint64, len(R))
	for i := range r {
		r[i] = canon(R[i], mix(append([]uint64{0xfad, uint64(j), uint64(i)}, args...)...))
	}
	return r
}

type padCall struct {
	id   int
	args []uint64
}

// addPad defines pad function j on the builder.
func (h *hostState) addPad(b wazero.HostModuleBuilder, j int) {
	P, R := padSig(j)
	record := func(args []uint64) []uint64 {
		h.padCalls = append(h.padCalls, padCall{j, args})
		return padResults(j, R, args)
	}
	stackFn := func(stack []uint64) {
		args := make([]uint64, len(P))
		for i := range args {
			args[i] = canon(P[i], stack[i])
		}
		res := record(args)
		if len(stack) < len(res) {
			h.problem("pad host function %d got a stack of %d slots for %d results", j, len(stack), len(res))
			return
		}
		copy(stack, res)
	}
	fb := b.NewFunctionBuilder()
	switch st := padStyle(j); st {
	case "gofunc":
		fb = fb.WithGoFunction(api.GoFunc(func(_ context.Context, stack []uint64) { stackFn(stack) }), apiTypes(P), apiTypes(R))
	case "gomodfunc":
		fb = fb.WithGoModuleFunction(api.GoModuleFunc(func(_ context.Context, _ api.Module, stack []uint64) { stackFn(stack) }), apiTypes(P), apiTypes(R))
	default:
		var in, out []reflect.Type
		skip := 0
		if st == "reflect-ctx" {
			in, skip = append(in, ctxType), 1
		} else if st == "reflect-mod" {
			in, skip = append(in, ctxType, modType), 2
		}
		for i := range P {
			in = append(in, goType(P[i], "sSuU"[(j+i)%4]))
		}
		for i := range R {
			out = append(out, goType(R[i], "uUsS"[(j+2*i)%4]))
		}
		fb = fb.WithFunc(reflect.MakeFunc(reflect.FuncOf(in, out, false), func(a []reflect.Value) []reflect.Value {
			args := make([]uint64, len(P))
			for i := range args {
				args[i] = bitsOf(a[skip+i])
			}
			res := record(args)
			rv := make([]reflect.Value, len(out))
			for i := range out {
				rv[i] = valueOf(out[i], res[i])
			}
			return rv
		}).Interface())
	}
	fb.Export(fmt.Sprintf("p%d", j))
}

// ---------------------------------------------------------------- execution

type failure struct{ msg string }

func failf(f string, a ...any) *failure { return &failure{msg: fmt.Sprintf(f, a...)} }

var bg = context.Background()

func valid(c Case) bool {
	ok := false
	for _, s := range styles {
		ok = ok || s == c.Style
	}
	if !ok || (c.Engine != "interpreter" && c.Engine != "compiler") || len(c.P) > 64 || len(c.R) > 64 {
		return false
	}
	for _, t := range c.P + c.R {
		if !strings.ContainsRune("iIfFx", t) {
			return false
		}
	}
	for _, v := range c.Vecs {
		if len(v.Args) != len(c.P) || len(v.Res) != len(c.R) {
			return false
		}
	}
	if c.Listener != "" && c.Listener != "all" && c.Listener != "nil" {
		return false
	}
	if c.Fleet < 0 || c.Fleet > 4096 || c.Pos < 0 || (c.Fleet > 1 && c.Pos >= c.Fleet) || (c.Fleet <= 1 && (c.Pos != 0 || len(c.Probes) > 0)) || len(c.Probes) > 32 {
		return false
	}
	if c.Type0 < 0 || c.Type0 > len(padSigs) || c.Mods < 0 || c.Mods > 3 {
		return false
	}
	for _, ch := range c.PGo + c.RGo {
		if !strings.ContainsRune("suSUnN", ch) {
			return false
		}
	}
	if len(c.TailQ) > 32 {
		return false
	}
	for _, ch := range c.TailQ {
		if !strings.ContainsRune("iIfFx", ch) {
			return false
		}
	}
	if len(c.Imports) > 0 {
		want := map[string]int{"f": 1}
		for _, j := range c.Probes {
			want[fmt.Sprintf("p%d", j)] = 1
		}
		for _, k := range auxKinds {
			want[k] = -1 // optional, at most once
		}
		for _, x := range c.Imports {
			switch want[x] {
			case 1, -1:
				want[x] = 0
			default:
				return false
			}
		}
		for _, v := range want {
			if v == 1 {
				return false
			}
		}
	}
	seen := map[int]bool{}
	for _, j := range c.Probes {
		if j < 0 || j >= c.Fleet || j == c.Pos || seen[j] {
			return false
		}
		seen[j] = true
	}
	return true
}

// normalise makes stored values canonical (32-bit types in the low half).
func normalise(c *Case) {
	for vi := range c.Vecs {
		for i := range c.Vecs[vi].Args {
			c.Vecs[vi].Args[i] = canon(c.P[i], c.Vecs[vi].Args[i])
		}
		for i := range c.Vecs[vi].Res {
			c.Vecs[vi].Res[i] = canon(c.R[i], c.Vecs[vi].Res[i])
		}
	}
}

type runStats struct {
	dirtyOut, dirtyOutStack, dirtyIn int
	rejectedIntKind                  bool
}

func runCase(c Case) (f *failure, st runStats) {
	if !valid(c) {
		return nil, st
	}
	normalise(&c)
	defer func() {
		if r := recover(); r != nil {
			f = failf("%s: panic escaped wazero's API: %v\n%s", describe(c), r, trimStack(debug.Stack()))
		}
	}()
	rt := wazero.NewRuntimeWithConfig(bg, wz.Config(c.Engine))
	defer rt.Close(bg)
	h := &hostState{c: c}
	lctx := listenerCtx(bg, c.Listener)
	nfn := c.Fleet
	if nfn < 1 {
		nfn = 1
	}
	hbs := map[string]wazero.HostModuleBuilder{}
	var hbNames []string
	for j := 0; j < nfn; j++ {
		name := hostModName(c, j)
		hb := hbs[name]
		if hb == nil {
			hb = rt.NewHostModuleBuilder(name)
			hbs[name] = hb
			hbNames = append(hbNames, name)
		}
		if j != c.Pos {
			h.addPad(hb, j)
			continue
		}
		fb := hb.NewFunctionBuilder()
		switch c.Style {
		case "gofunc":
			fb = fb.WithGoFunction(api.GoFunc(func(ctx context.Context, stack []uint64) { h.stackFn(ctx, nil, stack) }), apiTypes(c.P), apiTypes(c.R))
		case "gomodfunc":
			fb = fb.WithGoModuleFunction(api.GoModuleFunc(func(ctx context.Context, mod api.Module, stack []uint64) {
				if mod == nil {
					h.problem("GoModuleFunction received a nil api.Module")
				}
				h.stackFn(ctx, mod, stack)
			}), apiTypes(c.P), apiTypes(c.R))
		default:
			fb = fb.WithFunc(h.reflectFn())
		}
		fb.Export("f")
	}
	for _, name := range hbNames {
		if _, err := hbs[name].Instantiate(lctx); err != nil {
			if usesIntKind(c) && strings.Contains(err.Error(), "unsupported") {
				st.rejectedIntKind = true // Go int/uint are not among the documented kinds: rejection is fine
				return nil, st
			}
			return failf("%s: the builder rejected the host module %s: %v", describe(c), name, err), st
		}
	}
	if needsAux(c) {
		if _, err := rt.InstantiateWithConfig(lctx, auxModule(), wazero.NewModuleConfig().WithName("aux")); err != nil {
			return failf("%s: harness: helper module aux rejected: %v", describe(c), err), st
		}
	}
	gcm, err := rt.CompileModule(lctx, buildGuest(c))
	var guest api.Module
	if err == nil {
		guest, err = rt.InstantiateModule(lctx, gcm, wazero.NewModuleConfig().WithName("guest"))
	}
	if err != nil {
		return failf("%s: guest module importing the host function was rejected: %v", describe(c), strings.SplitN(err.Error(), "\n", 2)[0]), st
	}
	h.guest = guest
	lookup := guest // module through which echo / id are looked up
	if c.Reexport {
		om := &wasmenc.Module{}
		om.ExportFunc("echo", om.ImportFunc("guest", "echo", vts(c.P), vts(c.R)))
		om.ExportFunc("id", om.ImportFunc("guest", "id", vts(c.P), vts(c.P)))
		ocm, err := rt.CompileModule(lctx, om.Encode())
		if err == nil {
			lookup, err = rt.InstantiateModule(lctx, ocm, wazero.NewModuleConfig().WithName("outer"))
		}
		if err != nil {
			return failf("%s: module re-exporting the guest's echo and id was rejected: %v", describe(c), firstLine(err)), st
		}
	}
	h.outer = lookup
	ctx := context.WithValue(lctx, ctxKey{}, "c08")
	np, nr := len(c.P), len(c.R)

	// call invokes an export either with Call or with CallWithStack.
	fnCache := map[string]api.Function{} // api.Function objects are reused for sequential calls, as callers do
	call := func(name string, withStack bool, args []uint64, nres int) ([]uint64, error) {
		fn := fnCache[name]
		if fn == nil {
			if name == "echo" || name == "id" {
				fn = lookup.ExportedFunction(name)
			} else {
				fn = guest.ExportedFunction(name)
			}
			fnCache[name] = fn
		}
		if fn == nil {
			return nil, fmt.Errorf("harness: no export %s", name)
		}
		if !withStack {
			return fn.Call(ctx, args...)
		}
		n := len(args)
		if nres > n {
			n = nres
		}
		stack := make([]uint64, n+2) // longer than needed is allowed ("at least")
		for i := range stack {
			stack[i] = 0xdeadbeefcafef00d
		}
		copy(stack, args)
		if err := fn.CallWithStack(ctx, stack); err != nil {
			return nil, err
		}
		return stack[:nres], nil
	}
	form := func(ws bool) string {
		if ws {
			return "CallWithStack"
		}
		return "Call"
	}
	hostSaw := func(what string, want []uint64) *failure {
		defer func() { h.calls = nil; h.problems = nil; h.padCalls = nil }()
		if len(h.padCalls) > 0 {
			pp, pr := padSig(h.padCalls[0].id)
			return failf("%s: %s: host function #%d of the host module (%s %q->%q) ran with %s although the guest called function #%d", describe(c), what,
				h.padCalls[0].id, padStyle(h.padCalls[0].id), pp, pr, fmtVals(pp, h.padCalls[0].args), c.Pos)
		}
		if len(h.problems) > 0 {
			return failf("%s: %s: %s", describe(c), what, h.problems[0])
		}
		if len(h.calls) != 1 {
			return failf("%s: %s: the host function was entered %d times, expected once", describe(c), what, len(h.calls))
		}
		for i := range want {
			if h.calls[0][i] != want[i] {
				return failf("%s: %s: the host function received %s but the guest passed %s (position %d)", describe(c), what, fmtVals(c.P, h.calls[0]), fmtVals(c.P, want), i)
			}
		}
		return nil
	}
	sameRes := func(what, types string, got, want []uint64) *failure {
		if len(got) != len(want) {
			return failf("%s: %s: %d results, expected %d", describe(c), what, len(got), len(want))
		}
		for i := range want {
			if canon(types[i], got[i]) != want[i] {
				return failf("%s: %s: got %s, expected %s (position %d)", describe(c), what, fmtVals(types, got), fmtVals(types, want), i)
			}
			if got[i] != want[i] {
				st.dirtyOut++
				if strings.Contains(what, "CallWithStack") {
					st.dirtyOutStack++
				}
			}
		}
		return nil
	}

	for vi := range c.Vecs {
		v := &c.Vecs[vi]
		h.cur = v
		for _, ws := range []bool{false, true} {
			// id: Go -> guest -> Go
			res, err := call("id", ws, v.Args, np)
			if err != nil {
				return failf("%s: id via %s failed: %v", describe(c), form(ws), firstLine(err)), st
			}
			if f := sameRes(fmt.Sprintf("vector %d: id via %s", vi, form(ws)), c.P, res, v.Args); f != nil {
				return f, st
			}
			// echo: Go -> guest -> host -> guest -> Go, without and with a callback into id;
			// then the call_indirect, tail-call and direct re-export forms
			for _, variant := range []struct {
				fn string
				cb int
			}{{"echo", 0}, {"echo", 1}, {"echo", 2}, {"echo", 4}, {"echo_ind", 0}, {"echo_tail", 0}, {"echo_tci", 0}, {"hold_tail", 0}, {"hold_tci", 0}, {"echo_ind", 3}, {"echo_tail", 3}, {"hold_tci", 3}} {
				cb := variant.cb
				if (variant.fn == "echo_tail" || variant.fn == "echo_tci" || strings.HasPrefix(variant.fn, "hold_")) && c.NoTail {
					continue
				}
				if cb == 1 && ws || cb == 2 && !ws {
					continue // one callback form per calling form keeps the count down: Call+Call, CallWithStack+CallWithStack
				}
				if cb == 3 {
					if (vi+len(c.P))%2 == 0 {
						continue
					}
					cb = 1
					if ws {
						cb = 2
					}
				}
				h.cb = cb
				what := fmt.Sprintf("vector %d: %s via %s", vi, variant.fn, form(ws))
				if cb == 4 {
					// nested re-entry through the same export: levels use vectors vi, vi+1, vi+2
					what += " with the host function re-entering echo (fresh lookup of the same export) two levels deep with other vectors"
					h.reIdx = vi
					res, err := call("echo", ws, v.Args, nr)
					h.cb = 0
					calls, probs := h.calls, h.problems
					h.calls, h.problems, h.padCalls = nil, nil, nil
					if err != nil {
						return failf("%s: %s failed: %v", describe(c), what, firstLine(err)), st
					}
					if len(probs) > 0 {
						return failf("%s: %s: %s", describe(c), what, probs[0]), st
					}
					for lvl := 0; lvl < 3; lvl++ {
						wantArgs := c.Vecs[(vi+lvl)%len(c.Vecs)].Args
						if lvl >= len(calls) || fmt.Sprint(calls[lvl]) != fmt.Sprint(wantArgs) {
							return failf("%s: %s: host-side record %v, expected level %d to receive %s", describe(c), what, calls, lvl, fmtVals(c.P, wantArgs)), st
						}
					}
					if f := sameRes(what+": results of the outermost call", c.R, res, v.Res); f != nil {
						return f, st
					}
					continue
				}
				if cb != 0 {
					what += " with the host function calling id back"
				}
				wantRes, resTypes := v.Res, c.R
				if strings.HasPrefix(variant.fn, "hold_") {
					// the caller's own operand comes back first, then the host function's results
					wantRes, resTypes = append([]uint64{holdMark}, v.Res...), "I"+c.R
					what += " (caller keeps an i64 operand on its stack across the call of the tail-calling function)"
				}
				res, err := call(variant.fn, ws, v.Args, len(wantRes))
				h.cb = 0
				if err != nil {
					return failf("%s: %s failed: %v", describe(c), what, firstLine(err)), st
				}
				if f := hostSaw(what, v.Args); f != nil {
					return f, st
				}
				if f := sameRes(what+": results returned by the host function", resTypes, res, wantRes); f != nil {
					return f, st
				}
			}
		}
		if c.TailQ != "" && !c.NoTail {
			// wide tail callers: own signature (TailQ..., params) differs from the host function's
			wargs := make([]uint64, 0, len(c.TailQ)+np)
			for i := range c.TailQ {
				wargs = append(wargs, canon(c.TailQ[i], mix(0x7a11, uint64(vi), uint64(i))))
			}
			wargs = append(wargs, v.Args...)
			for k, fn := range []string{"wide_tail", "wide_tci", "wide_hold_tail", "wide_hold_tci"} {
				for _, ws := range []bool{false, true} {
					if (k+vi)%2 == 1 && ws || (k+vi)%2 == 0 && !ws && k >= 2 {
						continue // keep the number of calls down: alternate the calling form
					}
					wantRes, resTypes := v.Res, c.R
					if k >= 2 {
						wantRes, resTypes = append([]uint64{holdMark}, v.Res...), "I"+c.R
					}
					what := fmt.Sprintf("vector %d: %s via %s (tail-calling function has the extra leading params %q)", vi, fn, form(ws), c.TailQ)
					res, err := call(fn, ws, wargs, len(wantRes))
					if err != nil {
						return failf("%s: %s failed: %v", describe(c), what, firstLine(err)), st
					}
					if f := hostSaw(what, v.Args); f != nil {
						return f, st
					}
					if f := sameRes(what+": results returned by the host function", resTypes, res, wantRes); f != nil {
						return f, st
					}
				}
			}
		}
		if c.Overflow && vi == 0 {
			// one api.Function: small call, call that overflows the stack, small call again (never reaches a host function)
			small := append([]uint64{3}, v.Args...)
			huge := append([]uint64{1 << 30}, v.Args...)
			for _, ws := range []bool{false, true} {
				for step, a := range [][]uint64{small, huge, small, small} {
					res, err := call("deepid", ws, a, np)
					what := fmt.Sprintf("deepid(depth=%d, params) via %s, call %d on the same api.Function (sequence: small, overflowing, small, small)", a[0], form(ws), step+1)
					if step == 1 {
						if o := wz.Classify(err); o.Kind != wz.KStack {
							return failf("%s: %s: expected a stack overflow error, got %v %v", describe(c), what, o, res), st
						}
						continue
					}
					if err != nil {
						return failf("%s: %s failed: %v", describe(c), what, firstLine(err)), st
					}
					if f := sameRes(what, c.P, res, v.Args); f != nil {
						return f, st
					}
				}
			}
			if len(h.calls)+len(h.padCalls) > 0 {
				return failf("%s: deepid reached a host function", describe(c)), st
			}
		}
		// pad functions at other positions of the same host module
		for pi, j := range c.Probes {
			pp, pr := padSig(j)
			pargs := padArgs(vi, j)
			ws := (pi+vi)%2 == 1
			what := fmt.Sprintf("vector %d: host function #%d of %d in the host module (%s %q->%q) called through the guest via %s", vi, j, c.Fleet, padStyle(j), pp, pr, form(ws))
			res, err := call(fmt.Sprintf("pad_%d", j), ws, pargs, len(pr))
			calls, fcalls, probs := h.padCalls, h.calls, h.problems
			h.padCalls, h.calls, h.problems = nil, nil, nil
			if err != nil {
				return failf("%s: %s failed: %v", describe(c), what, firstLine(err)), st
			}
			if len(probs) > 0 {
				return failf("%s: %s: %s", describe(c), what, probs[0]), st
			}
			if len(fcalls) > 0 {
				return failf("%s: %s: the function under test (#%d) ran instead, with %s", describe(c), what, c.Pos, fmtVals(c.P, fcalls[0])), st
			}
			if len(calls) != 1 || calls[0].id != j {
				return failf("%s: %s: host-side record is %+v, expected exactly one call of #%d", describe(c), what, calls, j), st
			}
			for i := range pargs {
				if calls[0].args[i] != pargs[i] {
					return failf("%s: %s: it received %s, the guest passed %s", describe(c), what, fmtVals(pp, calls[0].args), fmtVals(pp, pargs)), st
				}
			}
			if f := sameRes(what+": results", pr, res, padResults(j, pr, pargs)); f != nil {
				return f, st
			}
		}
		// multi: one guest call reaching several host functions (of several host modules)
		if len(c.Probes) > 0 && len(c.Probes) <= 16 && vi < 2 {
			for rep := 0; rep < 2; rep++ { // twice through the same api.Function object
				what := fmt.Sprintf("vector %d: one guest call that calls host functions %v, the function under test (#%d), then %v again (call %d through the same api.Function)", vi, c.Probes, c.Pos, c.Probes, rep+1)
				res, err := call(fmt.Sprintf("multi_%d", vi), rep == 1, nil, 1)
				pcalls, fcalls, probs := h.padCalls, h.calls, h.problems
				h.padCalls, h.calls, h.problems = nil, nil, nil
				if err != nil {
					return failf("%s: %s failed: %v", describe(c), what, firstLine(err)), st
				}
				if len(probs) > 0 {
					return failf("%s: %s: %s", describe(c), what, probs[0]), st
				}
				var wantSeq []int
				wantSeq = append(append(wantSeq, c.Probes...), c.Probes...)
				var gotSeq []int
				for _, pc := range pcalls {
					gotSeq = append(gotSeq, pc.id)
				}
				if fmt.Sprint(gotSeq) != fmt.Sprint(wantSeq) || len(fcalls) != 1 {
					return failf("%s: %s: host-side record: pad functions %v ran and the function under test ran %d times; expected %v and once", describe(c), what, gotSeq, len(fcalls), wantSeq), st
				}
				for _, pc := range pcalls {
					pp, _ := padSig(pc.id)
					if w := padArgs(vi, pc.id); fmt.Sprint(pc.args) != fmt.Sprint(w) {
						return failf("%s: %s: host function #%d (module %s) received %s, the guest passed %s", describe(c), what, pc.id, hostModName(c, pc.id), fmtVals(pp, pc.args), fmtVals(pp, w)), st
					}
				}
				kargs := append([]uint64{}, v.Args...)
				for i := range kargs {
					if c.P[i] == 'x' {
						kargs[i] = 0
					}
				}
				for i := range kargs {
					if fcalls[0][i] != kargs[i] {
						return failf("%s: %s: the function under test received %s, the guest passed %s", describe(c), what, fmtVals(c.P, fcalls[0]), fmtVals(c.P, kargs)), st
					}
				}
				if res[0] != 0 {
					return failf("%s: %s: inside the guest some results compared unequal to what those host functions return (mask %#x: bit k / 16+k = %d-th listed pad function in round 1 / 2, bit 40 = function under test)", describe(c), what, res[0], 0), st
				}
			}
		}
		// kcall: constants -> host -> compared in the guest
		res, err := call(fmt.Sprintf("kcall_%d", vi), false, nil, 1)
		if err != nil {
			return failf("%s: kcall_%d failed: %v", describe(c), vi, firstLine(err)), st
		}
		kargs := append([]uint64{}, v.Args...)
		for i := range kargs {
			if c.P[i] == 'x' {
				kargs[i] = 0 // the guest can only produce ref.null
			}
		}
		if f := hostSaw(fmt.Sprintf("vector %d: guest calling the host function with constant arguments", vi), kargs); f != nil {
			return f, st
		}
		if res[0] != 0 {
			k := 0
			for res[0]>>uint(k)&1 == 0 {
				k++
			}
			return failf("%s: vector %d: host function returned %s; inside the guest result %d (%c) compared unequal to the constant %#x (mask %#x)",
				describe(c), vi, fmtVals(c.R, v.Res), k, c.R[k], v.Res[k], res[0]), st
		}
		// cmp_v_k
		for k := 0; k < nr; k++ {
			ws := (k+vi)%2 == 1
			res, err := call(fmt.Sprintf("cmp_%d_%d", vi, k), ws, v.Args, 1)
			if err != nil {
				return failf("%s: cmp_%d_%d failed: %v", describe(c), vi, k, firstLine(err)), st
			}
			if f := hostSaw(fmt.Sprintf("vector %d: cmp_%d", vi, k), v.Args); f != nil {
				return f, st
			}
			if fl := uint32(res[0]); fl != 0 {
				return failf("%s: vector %d: the host function returned %#x as result %d (%c); inside the guest: %s",
					describe(c), vi, v.Res[k], k, c.R[k], explainFlags(c.R[k], fl, v.Res[k])), st
			}
		}
	}
	st.dirtyIn = h.dirtyIn
	return nil, st
}

func explainFlags(t byte, fl uint32, c uint64) string {
	var s []string
	names := []string{"eq with the constant is false", "ne with the constant is true", "(x xor const) is non-zero", "i64.extend_i32_u(x) differs from the zero-extended constant",
		"i64.extend_i32_s(x) differs from the sign-extended constant", "x <u const or x >u const", "if (x - const) takes the then branch"}
	if t == 'x' {
		return fmt.Sprintf("ref.is_null disagrees with the value %#x", c)
	}
	for i, n := range names {
		if fl>>uint(i)&1 != 0 {
			s = append(s, n)
		}
	}
	return strings.Join(s, "; ") + fmt.Sprintf(" (constant %#x)", c)
}

// trimStack keeps the frames below the panic, a few lines.
func trimStack(b []byte) string {
	l := strings.Split(string(b), "\n")
	for i, x := range l {
		if strings.HasPrefix(x, "panic(") && i+2 < len(l) {
			l = l[i+2:]
			break
		}
	}
	if len(l) > 12 {
		l = l[:12]
	}
	return strings.Join(l, "\n")
}

func firstLine(err error) string { return strings.SplitN(err.Error(), "\n", 2)[0] }

func describe(c Case) string {
	g := ""
	if isReflect(c.Style) {
		g = fmt.Sprintf(" go-types(params=%s results=%s)", c.PGo, c.RGo)
	}
	if c.Listener != "" {
		g += " listener=" + c.Listener
	}
	if c.Fleet > 1 {
		g += fmt.Sprintf(" host-module-functions=%d position=%d", c.Fleet, c.Pos)
	}
	if nMods(c) > 1 {
		g += fmt.Sprintf(" host-modules=%d", nMods(c))
	}
	if c.Reexport {
		g += " echo/id-looked-up-through-a-re-exporting-module"
	}
	if c.Overflow {
		g += " with-overflow-sequence"
	}
	if c.TailQ != "" {
		g += fmt.Sprintf(" tail-caller-extra-params=%q", c.TailQ)
	}
	if len(c.Imports) > 0 {
		g += fmt.Sprintf(" guest-imports=%v", c.Imports)
	}
	if c.Type0 > 0 {
		g += fmt.Sprintf(" guest-type0=%q->%q", padSigs[c.Type0-1][0], padSigs[c.Type0-1][1])
	}
	return fmt.Sprintf("{engine=%s style=%s params=%q results=%q%s}", c.Engine, c.Style, c.P, c.R, g)
}

// ---------------------------------------------------------------- concurrent callers

// ConcCase: G goroutines, each with its own anonymous instance of one compiled guest, in one
// runtime sharing one host module, call echo N times each. Argument tuples encode
// (goroutine, iteration) so that every tuple is unique; the host function looks the tuple up
// and returns the results that belong to it.
type ConcCase struct {
	Conc   bool   `json:"concurrent"` // marks the case form in replay files
	Engine string `json:"engine"`
	Style  string `json:"style"`
	P      string `json:"params"`
	R      string `json:"results"`
	PGo    string `json:"params_go"`
	RGo    string `json:"results_go"`
	G      int    `json:"goroutines"`
	N      int    `json:"calls"`
	Seed   uint64 `json:"seed"`
	// Listener: as in Case.
	Listener string `json:"listener,omitempty"`
}

func mix(a ...uint64) uint64 {
	x := uint64(0x9e3779b97f4a7c15)
	for _, v := range a {
		x ^= v + 0x9e3779b97f4a7c15 + x<<6 + x>>2
		x *= 0xbf58476d1ce4e5b9
		x ^= x >> 29
	}
	return x
}

// concValue: value of position i (kind 0 = param, 1 = result) of call n of goroutine g.
// Position 0 of the parameters carries (g, n) literally so that tuples are unique by construction.
func concValue(c ConcCase, g, n, i, kind int, t byte) uint64 {
	v := mix(c.Seed, uint64(g), uint64(n), uint64(i), uint64(kind))
	if kind == 0 && i == 0 {
		v = v&^0xffffff | uint64(g)<<20 | uint64(n)&0xfffff // 24 low bits: goroutine and iteration
	}
	if t == 'f' && isSNaN32(v) { // keep float32 values off the (separately probed) signalling NaN class
		v |= 0x00400000
	}
	return canon(t, v)
}

func tupleKey(v []uint64) string {
	var sb strings.Builder
	for _, x := range v {
		fmt.Fprintf(&sb, "%x,", x)
	}
	return sb.String()
}

type concEntry struct {
	g, n int
	res  []uint64
	seen int
}

type concHost struct {
	c        ConcCase
	mu       sync.Mutex
	table    map[string]*concEntry
	problems []string
}

func (h *concHost) problem(f string, a ...any) {
	h.mu.Lock()
	if len(h.problems) < 6 {
		h.problems = append(h.problems, fmt.Sprintf(f, a...))
	}
	h.mu.Unlock()
}

// lookup records the tuple the host function received and returns the results that belong to it.
func (h *concHost) lookup(got []uint64) []uint64 {
	h.mu.Lock()
	e := h.table[tupleKey(got)]
	if e != nil {
		e.seen++
	}
	h.mu.Unlock()
	if e == nil {
		if len(h.c.P) > 0 {
			h.problem("the host function received %s, a tuple no caller passed (every caller passes tuples whose first value encodes its goroutine and iteration)", fmtVals(h.c.P, got))
		}
		return make([]uint64, len(h.c.R))
	}
	return e.res
}

func (h *concHost) stackFn(stack []uint64) {
	got := make([]uint64, len(h.c.P))
	for i := range got {
		got[i] = canon(h.c.P[i], stack[i])
	}
	copy(stack, h.lookup(got))
}

func (h *concHost) reflectFn() any {
	c := h.c
	var in, out []reflect.Type
	skip := 0
	switch c.Style {
	case "reflect-ctx":
		in, skip = append(in, ctxType), 1
	case "reflect-mod":
		in, skip = append(in, ctxType, modType), 2
	}
	for i := range c.P {
		in = append(in, goType(c.P[i], sel(c.PGo, i)))
	}
	for i := range c.R {
		out = append(out, goType(c.R[i], sel(c.RGo, i)))
	}
	return reflect.MakeFunc(reflect.FuncOf(in, out, false), func(args []reflect.Value) []reflect.Value {
		got := make([]uint64, len(c.P))
		for i := range got {
			got[i] = bitsOf(args[skip+i])
		}
		r := h.lookup(got)
		res := make([]reflect.Value, len(out))
		for i := range out {
			res[i] = valueOf(out[i], r[i])
		}
		return res
	}).Interface()
}

func (c ConcCase) describe() string {
	return fmt.Sprintf("{engine=%s style=%s params=%q results=%q go-types(%s/%s) goroutines=%d calls=%d listener=%q}", c.Engine, c.Style, c.P, c.R, c.PGo, c.RGo, c.G, c.N, c.Listener)
}

func validConc(c ConcCase) bool {
	return valid(Case{Engine: c.Engine, Style: c.Style, P: c.P, R: c.R, Listener: c.Listener}) && c.G >= 1 && c.G <= 64 && c.N >= 1 && c.N <= 1<<20
}

func runConc(c ConcCase) (f *failure) {
	if !validConc(c) {
		return nil
	}
	defer func() {
		if r := recover(); r != nil {
			f = failf("%s: panic escaped wazero's API: %v\n%s", c.describe(), r, trimStack(debug.Stack()))
		}
	}()
	rt := wazero.NewRuntimeWithConfig(bg, wz.Config(c.Engine))
	defer rt.Close(bg)
	h := &concHost{c: c, table: map[string]*concEntry{}}
	args := make([][][]uint64, c.G)
	for g := 0; g < c.G; g++ {
		args[g] = make([][]uint64, c.N)
		for n := 0; n < c.N; n++ {
			a := make([]uint64, len(c.P))
			for i := range a {
				a[i] = concValue(c, g, n, i, 0, c.P[i])
			}
			r := make([]uint64, len(c.R))
			for i := range r {
				r[i] = concValue(c, g, n, i, 1, c.R[i])
			}
			args[g][n] = a
			h.table[tupleKey(a)] = &concEntry{g: g, n: n, res: r}
		}
	}
	fb := rt.NewHostModuleBuilder("host").NewFunctionBuilder()
	switch c.Style {
	case "gofunc":
		fb = fb.WithGoFunction(api.GoFunc(func(_ context.Context, stack []uint64) { h.stackFn(stack) }), apiTypes(c.P), apiTypes(c.R))
	case "gomodfunc":
		fb = fb.WithGoModuleFunction(api.GoModuleFunc(func(_ context.Context, _ api.Module, stack []uint64) { h.stackFn(stack) }), apiTypes(c.P), apiTypes(c.R))
	default:
		fb = fb.WithFunc(h.reflectFn())
	}
	lctx := listenerCtx(bg, c.Listener)
	if _, err := fb.Export("f").Instantiate(lctx); err != nil {
		return failf("%s: the builder rejected the host function: %v", c.describe(), err)
	}
	cm, err := rt.CompileModule(lctx, buildGuest(Case{P: c.P, R: c.R}))
	if err != nil {
		return failf("%s: guest module rejected: %v", c.describe(), firstLine(err))
	}
	fns := make([]api.Function, c.G)
	for g := range fns {
		mod, err := rt.InstantiateModule(lctx, cm, wazero.NewModuleConfig().WithName(""))
		if err != nil {
			return failf("%s: instantiating guest %d failed: %v", c.describe(), g, firstLine(err))
		}
		fns[g] = mod.ExportedFunction("echo") // each api.Function is used by one goroutine only
	}
	msgs := make([]string, c.G)
	start := make(chan struct{})
	var wg sync.WaitGroup
	for g := 0; g < c.G; g++ {
		wg.Add(1)
		go func(g int) {
			defer wg.Done()
			defer func() {
				if r := recover(); r != nil && msgs[g] == "" {
					msgs[g] = fmt.Sprintf("goroutine %d: panic escaped wazero's API: %v", g, r)
				}
			}()
			nres := len(c.R)
			stack := make([]uint64, len(c.P)+nres+1)
			<-start
			for n := 0; n < c.N; n++ {
				a := args[g][n]
				want := h.table[tupleKey(a)].res // read-only after setup
				var res []uint64
				var err error
				if (n+g)%2 == 0 {
					res, err = fns[g].Call(lctx, a...)
				} else {
					copy(stack, a)
					err = fns[g].CallWithStack(lctx, stack)
					res = stack[:nres]
				}
				if err != nil {
					msgs[g] = fmt.Sprintf("goroutine %d, call %d failed: %v", g, n, firstLine(err))
					return
				}
				for i := range want {
					if i >= len(res) || canon(c.R[i], res[i]) != want[i] {
						msgs[g] = fmt.Sprintf("goroutine %d, call %d: passed %s and got back %s, but the results that belong to this call are %s (each caller has its own guest instance; %d goroutines call the same host function)",
							g, n, fmtVals(c.P, a), fmtVals(c.R, res), fmtVals(c.R, want), c.G)
						return
					}
				}
			}
		}(g)
	}
	close(start)
	wg.Wait()
	if len(h.problems) > 0 {
		return failf("%s: %s", c.describe(), h.problems[0])
	}
	for _, m := range msgs {
		if m != "" {
			return failf("%s: %s", c.describe(), m)
		}
	}
	if len(c.P) > 0 {
		for _, e := range h.table {
			if e.seen != 1 {
				return failf("%s: the tuple of goroutine %d, call %d was received %d times by the host function, expected once", c.describe(), e.g, e.n, e.seen)
			}
		}
	}
	return nil
}

func genConc(t *rapid.T) ConcCase {
	c := ConcCase{Conc: true, Engine: rapid.SampledFrom(wz.Engines).Draw(t, "engine"), Style: rapid.SampledFrom(styles).Draw(t, "style")}
	np := rapid.IntRange(1, 10).Draw(t, "np")
	if rapid.IntRange(0, 9).Draw(t, "np-zero") == 0 {
		np = 0
	}
	nr := rapid.IntRange(0, 5).Draw(t, "nr")
	c.P, c.R = genTypes(t, np, "p"), genTypes(t, nr, "r")
	noInt := strings.NewReplacer("n", "s", "N", "u")
	c.PGo, c.RGo = noInt.Replace(genGo(t, np, "p")), noInt.Replace(genGo(t, nr, "r"))
	c.G = rapid.IntRange(2, 8).Draw(t, "goroutines")
	c.N = rapid.SampledFrom([]int{50, 200, 200, 600}).Draw(t, "calls")
	c.Seed = rapid.Uint64().Draw(t, "seed")
	c.Listener = rapid.SampledFrom([]string{"", "", "all", "nil"}).Draw(t, "listener")
	return c
}

// TestConcurrentCallers: also run under the race detector by the driver (small batch).
func TestConcurrentCallers(t *testing.T) {
	if evid.ReplayPath() != "" {
		t.Skip()
	}
	n := evid.Scale(600, 40000)
	if os.Getenv("VERIF_RACE") != "" {
		n = 30
		if evid.Thorough() {
			n = 150
		}
	}
	evid.Check(t, "concurrent-callers", n, func(t *rapid.T) {
		c := genConc(t)
		evid.Journal(c)
		if f := runConc(c); f != nil {
			evid.Fail(t, c, "%s", f.msg)
		}
		evid.Case(evid.Hash64(fmt.Sprintf("%+v", c)), len(c.P) > 0, "concurrent", "concurrent-style-"+c.Style, "concurrent-"+c.Engine)
		evid.Sample("concurrent", 1, c)
	})
}

// ---------------------------------------------------------------- known-defect probes

var (
	probeOnce       sync.Once
	hasSignExt      = map[string]bool{} // per engine
	hasSNaN         = map[string]bool{}
	hasTail7        = map[string]bool{}
	probeViolations []string
)

var codeAddr = regexp.MustCompile(`0x7f[0-9a-f]{7,}`)

func isSNaN32(b uint64) bool {
	return b&0x7f800000 == 0x7f800000 && b&0x007fffff != 0 && b&0x00400000 == 0
}

// probes runs the specific inputs of the defects seen on the pinned tree; a reproduced one is
// reported through evid.Finding and its class is excluded from generation (per engine):
//   - sign-ext: reflective style, i32 result declared as Go int32, value with bit 31 set;
//   - snan: reflective style, f32 parameter or result holding a signalling NaN;
//   - tail7: return_call of the imported host function with exactly 7 integer-class
//     (i32/i64/externref) parameters.
func probes() {
	probeOnce.Do(func() {
		// attribute runs the finding's specific input and a control input that differs only in
		// the property of the class (unsigned Go type / quiet NaN). Only "input fails, control
		// passes" is attributed to the finding; anything else is an ordinary violation.
		attribute := func(id, check string, c, control Case, reproduced map[string]bool) {
			f, _ := runCase(c)
			if f == nil {
				return
			}
			if fc, _ := runCase(control); fc != nil {
				evid.Violation(check+"-control", control, "%s", fc.msg)
				probeViolations = append(probeViolations, fc.msg)
				return
			}
			reproduced[c.Engine] = true
			msg := codeAddr.ReplaceAllString(f.msg, "0x7f...(an address)") // keep the message (and so the replay file name) stable
			if evid.Finding(id, check, c, "%s", msg) {
				probeViolations = append(probeViolations, msg)
			}
		}
		for _, eng := range wz.Engines {
			attribute(findSignExt, "known-int32-sign-ext",
				Case{Engine: eng, Style: "reflect", P: "", R: "i", RGo: "s", Vecs: []Vec{{Args: []uint64{}, Res: []uint64{0xffffffff}}}},
				Case{Engine: eng, Style: "reflect", P: "", R: "i", RGo: "u", Vecs: []Vec{{Args: []uint64{}, Res: []uint64{0xffffffff}}}}, hasSignExt)
			attribute(findSNaN, "known-f32-snan",
				Case{Engine: eng, Style: "reflect-ctx", P: "f", R: "f", Vecs: []Vec{{Args: []uint64{0x7fa00000}, Res: []uint64{0xff800001}}}},
				Case{Engine: eng, Style: "reflect-ctx", P: "f", R: "f", Vecs: []Vec{{Args: []uint64{0x7fe00000}, Res: []uint64{0xffc00001}}}}, hasSNaN)
			seven := []uint64{0x1000, 0x1001, 0x1002, 0x1003, 0x1004, 0x1005, 0x1006}
			attribute(findTail7, "known-tailcall-7-int-args",
				Case{Engine: eng, Style: "gofunc", P: "IIIIIII", R: "", Vecs: []Vec{{Args: seven, Res: []uint64{}}}},
				Case{Engine: eng, Style: "gofunc", P: "IIIIIII", R: "", NoTail: true, Vecs: []Vec{{Args: seven, Res: []uint64{}}}}, hasTail7)
		}
	})
}

// exclude rewrites values of a generated case that fall in the class of a reproduced finding.
func exclude(c *Case) {
	if hasTail7[c.Engine] && count(c.P, "iIx") == 7 {
		c.NoTail = true
		evid.Label("excluded-tail-call-with-7-integer-class-params", 1)
	}
	if !isReflect(c.Style) {
		return
	}
	for vi := range c.Vecs {
		v := &c.Vecs[vi]
		if hasSignExt[c.Engine] {
			for k := range v.Res {
				if c.R[k] == 'i' && (sel(c.RGo, k) == 's' || sel(c.RGo, k) == 'S') && v.Res[k]&0x80000000 != 0 {
					v.Res[k] &= 0x7fffffff
					evid.Label("excluded-negative-int32-reflect-result", 1)
				}
			}
		}
		if hasSNaN[c.Engine] {
			for i := range v.Args {
				if c.P[i] == 'f' && isSNaN32(v.Args[i]) {
					v.Args[i] |= 0x00400000
					evid.Label("excluded-f32-snan-through-reflection", 1)
				}
			}
			for k := range v.Res {
				if c.R[k] == 'f' && isSNaN32(v.Res[k]) {
					v.Res[k] |= 0x00400000
					evid.Label("excluded-f32-snan-through-reflection", 1)
				}
			}
		}
	}
}

// ---------------------------------------------------------------- generators

var (
	i32Vals = []uint64{0, 1, 0xffffffff, 0x80000000, 0x7fffffff, 0x80000001, 0xfffffffe, 0xffff0000, 0x0000ffff, 0xdeadbeef}
	i64Vals = []uint64{0, 1, 0xffffffffffffffff, 0x8000000000000000, 0x7fffffffffffffff, 0x00000000ffffffff, 0xffffffff00000000,
		0x8000000000000001, 0x0000000100000000, 0x0000000080000000, 0xffffffff80000000, 0x123456789abcdef0}
	f32Vals = []uint64{0, 0x80000000, 0x3f800000, 0xbf800000, 0x7f800000, 0xff800000, 0x7fc00000, 0xffc00000, 0x7fc00001, 0xffc12345,
		0x7f800001, 0x7fa00000, 0xff800001, 0xffbfffff, 0x00000001, 0x007fffff, 0x80000001, 0x807fffff, 0x7f7fffff, 0x00800000}
	f64Vals = []uint64{0, 0x8000000000000000, 0x3ff0000000000000, 0xbff0000000000000, 0x7ff0000000000000, 0xfff0000000000000,
		0x7ff8000000000000, 0xfff8000000000000, 0x7ff8000000000001, 0xfff8123456789abc, 0x7ff0000000000001, 0x7ff4000000000000,
		0xfff0000000000001, 0xfff7ffffffffffff, 0x0000000000000001, 0x000fffffffffffff, 0x8000000000000001, 0x7fefffffffffffff,
		0x7ff00000ffffffff, 0x00000000ffffffff}
	refVals = []uint64{0, 1, 0xc000012340, 0x00007fffffffe000, 0xffffffffffffffff, 0x8000000000000000, 0x00000000ffffffff, 0xffffffff00000000}
)

func genValue(t *rapid.T, ty byte) uint64 {
	special := rapid.IntRange(0, 2).Draw(t, "special") != 0
	switch ty {
	case 'i':
		if special {
			return rapid.SampledFrom(i32Vals).Draw(t, "i32")
		}
		return uint64(rapid.Uint32().Draw(t, "i32"))
	case 'I':
		if special {
			return rapid.SampledFrom(i64Vals).Draw(t, "i64")
		}
		return rapid.Uint64().Draw(t, "i64")
	case 'f':
		if special {
			return rapid.SampledFrom(f32Vals).Draw(t, "f32")
		}
		return uint64(rapid.Uint32().Draw(t, "f32"))
	case 'F':
		if special {
			return rapid.SampledFrom(f64Vals).Draw(t, "f64")
		}
		return rapid.Uint64().Draw(t, "f64")
	default:
		if special {
			return rapid.SampledFrom(refVals).Draw(t, "ref")
		}
		return rapid.Uint64().Draw(t, "ref")
	}
}

var (
	pArities = []int{0, 1, 2, 3, 5, 6, 7, 8, 9, 10, 11, 12, 13, 15, 16, 17, 18, 20, 23, 24}
	rArities = []int{0, 1, 1, 2, 3, 5, 6, 7, 8, 9, 10, 11, 12, 13, 14}
)

func genTypes(t *rapid.T, n int, label string) string {
	b := make([]byte, n)
	all := "iIfFx"
	switch rapid.IntRange(0, 7).Draw(t, label+"-shape") {
	case 0: // all integers (i32/i64 mixed)
		for i := range b {
			b[i] = "iI"[rapid.IntRange(0, 1).Draw(t, "t")]
		}
	case 1: // all floats
		for i := range b {
			b[i] = "fF"[rapid.IntRange(0, 1).Draw(t, "t")]
		}
	case 2: // one type
		ty := all[rapid.IntRange(0, 4).Draw(t, "t")]
		for i := range b {
			b[i] = ty
		}
	case 3: // alternating classes
		a, c := "iIx"[rapid.IntRange(0, 2).Draw(t, "a")], "fF"[rapid.IntRange(0, 1).Draw(t, "b")]
		for i := range b {
			if i%2 == 0 {
				b[i] = a
			} else {
				b[i] = c
			}
		}
	case 4: // a block of one class then the other (straddles the register limits of both)
		k := rapid.IntRange(0, n).Draw(t, "split")
		for i := range b {
			if i < k {
				b[i] = "iIx"[rapid.IntRange(0, 2).Draw(t, "t")]
			} else {
				b[i] = "fF"[rapid.IntRange(0, 1).Draw(t, "t")]
			}
		}
	default:
		for i := range b {
			b[i] = all[rapid.IntRange(0, 4).Draw(t, "t")]
		}
	}
	return string(b)
}

func genGo(t *rapid.T, n int, label string) string {
	b := make([]byte, n)
	mode := rapid.IntRange(0, 3).Draw(t, label+"-go")
	for i := range b {
		switch mode {
		case 0:
			b[i] = 's'
		case 1:
			b[i] = 'u'
		default:
			b[i] = "suSUsunN"[rapid.IntRange(0, 7).Draw(t, "su")]
		}
	}
	return string(b)
}

func genCase(t *rapid.T) Case {
	c := Case{Engine: rapid.SampledFrom(wz.Engines).Draw(t, "engine"), Style: rapid.SampledFrom(styles).Draw(t, "style")}
	np := rapid.SampledFrom(pArities).Draw(t, "np")
	if rapid.IntRange(0, 3).Draw(t, "np-any") == 0 {
		np = rapid.IntRange(0, 24).Draw(t, "np")
	}
	nr := rapid.SampledFrom(rArities).Draw(t, "nr")
	if rapid.IntRange(0, 3).Draw(t, "nr-any") == 0 {
		nr = rapid.IntRange(0, 14).Draw(t, "nr")
	}
	c.P, c.R = genTypes(t, np, "p"), genTypes(t, nr, "r")
	c.PGo, c.RGo = genGo(t, np, "p"), genGo(t, nr, "r")
	nv := rapid.IntRange(1, 6).Draw(t, "nvec")
	for i := 0; i < nv; i++ {
		v := Vec{Args: make([]uint64, np), Res: make([]uint64, nr)}
		for j := range v.Args {
			v.Args[j] = genValue(t, c.P[j])
		}
		for j := range v.Res {
			v.Res[j] = genValue(t, c.R[j])
		}
		c.Vecs = append(c.Vecs, v)
	}
	c.Listener = rapid.SampledFrom([]string{"", "", "all", "all", "nil"}).Draw(t, "listener")
	if rapid.IntRange(0, 13).Draw(t, "fleet") == 0 {
		// many host functions in one host module; positions around the byte/word boundaries
		c.Fleet = rapid.IntRange(300, 700).Draw(t, "fleet-size")
		pos := func(label string) int {
			p := rapid.SampledFrom([]int{0, 1, 254, 255, 256, 257, 258, 299, 511, 512, 513, c.Fleet - 1, -1, -1, -1}).Draw(t, label)
			if p < 0 || p >= c.Fleet {
				p = rapid.IntRange(0, c.Fleet-1).Draw(t, label+"-any")
			}
			return p
		}
		c.Pos = pos("pos")
		seen := map[int]bool{c.Pos: true}
		for i, n := 0, rapid.IntRange(2, 6).Draw(t, "nprobes"); i < n; i++ {
			if p := pos("probe"); !seen[p] {
				seen[p] = true
				c.Probes = append(c.Probes, p)
			}
		}
		if len(c.Vecs) > 2 {
			c.Vecs = c.Vecs[:2]
		}
	} else if rapid.IntRange(0, 2).Draw(t, "few-host-functions") != 0 {
		// a few host functions of different signatures in the same host module, some imported by the guest
		c.Fleet = rapid.IntRange(2, 5).Draw(t, "nfuncs")
		c.Pos = rapid.IntRange(0, c.Fleet-1).Draw(t, "pos")
		for j := 0; j < c.Fleet; j++ {
			if j != c.Pos && rapid.IntRange(0, 2).Draw(t, "import-pad") != 0 {
				c.Probes = append(c.Probes, j)
			}
		}
	}
	c.Reexport = rapid.IntRange(0, 2).Draw(t, "reexport") == 1
	c.Overflow = rapid.IntRange(0, 79).Draw(t, "overflow-sequence") == 17
	if rapid.IntRange(0, 2).Draw(t, "wide-tail-caller") != 0 {
		nq := rapid.IntRange(1, 16).Draw(t, "nq")
		if rapid.Bool().Draw(t, "nq-wide") {
			nq = rapid.IntRange(8, 16).Draw(t, "nq")
		}
		c.TailQ = genTypes(t, nq, "q")
	}
	if c.Fleet > 1 && rapid.IntRange(0, 2).Draw(t, "one-host-module") != 0 {
		c.Mods = rapid.IntRange(2, 3).Draw(t, "host-modules")
	}
	// the guest's import section: function imports in a drawn order, interleaved with
	// imported globals / memory / table at drawn positions; and a drawn first type
	if rapid.IntRange(0, 4).Draw(t, "default-imports") != 0 {
		order := []string{"f"}
		for _, j := range c.Probes {
			order = append(order, fmt.Sprintf("p%d", j))
		}
		order = rapid.Permutation(order).Draw(t, "func-import-order")
		for _, k := range auxKinds {
			if rapid.IntRange(0, 2).Draw(t, "import-"+k) == 0 {
				at := rapid.IntRange(0, len(order)).Draw(t, "at")
				order = append(order[:at], append([]string{k}, order[at:]...)...)
			}
		}
		c.Imports = order
		c.Type0 = rapid.IntRange(0, len(padSigs)).Draw(t, "type0")
	}
	return c
}

func highBit(c Case) bool {
	for _, v := range c.Vecs {
		for i, x := range v.Args {
			if is32(c.P[i]) && x&0x80000000 != 0 || !is32(c.P[i]) && x>>32 != 0 {
				return true
			}
		}
		for i, x := range v.Res {
			if is32(c.R[i]) && x&0x80000000 != 0 || !is32(c.R[i]) && x>>32 != 0 {
				return true
			}
		}
	}
	return false
}

func count(s string, set string) int {
	n := 0
	for _, ch := range s {
		if strings.ContainsRune(set, ch) {
			n++
		}
	}
	return n
}

func labelsOf(c Case, st runStats) (bool, []string) {
	l := []string{"engine-" + c.Engine, "style-" + c.Style}
	nt := len(c.P)+len(c.R) > 0 && highBit(c)
	if count(c.P, "iIx") >= 8 {
		l = append(l, "params>=8-integer-class")
	}
	if count(c.P, "fF") >= 9 {
		l = append(l, "params>=9-float-class")
	}
	if count(c.R, "iIx") >= 3 {
		l = append(l, "results>=3-integer-class")
	}
	if count(c.R, "fF") >= 3 {
		l = append(l, "results>=3-float-class")
	}
	if c.Listener != "" {
		l = append(l, "listener-"+c.Listener)
		if len(c.R) > len(c.P) {
			l = append(l, "listener-and-more-results-than-params")
		}
	}
	if len(c.Imports) > 0 {
		nonFuncBefore, seenNonFunc := false, 0
		for _, x := range c.Imports {
			if x == "f" || x[0] == 'p' {
				if seenNonFunc > 0 {
					nonFuncBefore = true
				}
			} else {
				seenNonFunc++
			}
		}
		if seenNonFunc > 0 {
			l = append(l, "guest-imports-globals/memory/table")
		}
		if nonFuncBefore {
			l = append(l, "non-function-import-before-a-function-import")
		}
		if c.Type0 > 0 {
			l = append(l, "guest-type-0-drawn")
		}
	}
	if nMods(c) > 1 {
		l = append(l, "several-host-modules")
		idx := map[int]bool{c.Pos / nMods(c): true}
		for _, j := range c.Probes {
			if idx[j/nMods(c)] {
				l = append(l, "imports-with-equal-index-in-different-host-modules")
				break
			}
			idx[j/nMods(c)] = true
		}
	}
	if c.Overflow {
		l = append(l, "overflow-then-plain-call-on-one-handle")
	}
	if usesIntKind(c) {
		if st.rejectedIntKind {
			l = append(l, "go-int/uint-kind-rejected-by-builder")
		} else {
			l = append(l, "go-int/uint-kind-accepted-and-checked")
		}
	}
	if c.Reexport {
		l = append(l, "looked-up-through-re-exporting-module")
	}
	if c.TailQ != "" {
		l = append(l, "wide-tail-caller")
		if (count(c.TailQ+c.P, "iIx") > 7 || count(c.TailQ+c.P, "fF") > 8) && count(c.P, "iIx") <= 7 && count(c.P, "fF") <= 8 && (count(c.R, "iIx") > 9 || count(c.R, "fF") > 8) {
			l = append(l, "tail-caller-stack-params/host-register-params/stack-results")
		}
	}
	if strings.ContainsAny(c.PGo+c.RGo, "SU") && isReflect(c.Style) {
		l = append(l, "reflect-named-go-types")
	}
	if c.Fleet > 1 && c.Fleet < 300 {
		l = append(l, "host-module-with-2-5-functions")
	}
	if c.Fleet >= 300 {
		l = append(l, "host-module-with-300-700-functions")
		if c.Pos >= 256 {
			l = append(l, "function-under-test-at-position>=256")
		}
	}
	if len(c.P) == 0 {
		l = append(l, "no-params")
	}
	if len(c.R) == 0 {
		l = append(l, "no-results")
	}
	if len(c.R) > len(c.P) {
		l = append(l, "more-results-than-params")
	}
	if strings.Contains(c.P+c.R, "x") {
		l = append(l, "with-externref")
	}
	hasS := false
	for _, v := range c.Vecs {
		for i, x := range v.Args {
			hasS = hasS || c.P[i] == 'f' && isSNaN32(x)
		}
		for i, x := range v.Res {
			hasS = hasS || c.R[i] == 'f' && isSNaN32(x)
		}
	}
	if hasS {
		l = append(l, "with-f32-signalling-nan")
	}
	if st.dirtyOut > st.dirtyOutStack {
		l = append(l, "Call-result-32bit-slot-with-nonzero-upper-half-"+c.Engine)
	}
	if st.dirtyOutStack > 0 {
		l = append(l, "CallWithStack-result-32bit-slot-with-nonzero-upper-half-"+c.Engine)
	}
	if st.dirtyIn > 0 {
		l = append(l, "host-visible-32bit-param-slot-with-nonzero-upper-half")
	}
	return nt, l
}

func keyOf(c Case) uint64 { return evid.Hash64(fmt.Sprintf("%+v", c)) }

// TestKnownFindings re-runs the specific inputs of the known defects (see probes).
func TestKnownFindings(t *testing.T) {
	if evid.ReplayPath() != "" {
		t.Skip()
	}
	probes()
	for _, m := range probeViolations {
		t.Errorf("%s", m)
	}
	for _, eng := range wz.Engines {
		if !hasSignExt[eng] {
			evid.Note("%s does not reproduce on the %s: negative int32 results of reflective host functions are explored there", findSignExt, eng)
		}
		if !hasTail7[eng] {
			evid.Note("%s does not reproduce on the %s: tail calls of the host function with 7 integer-class parameters are explored there", findTail7, eng)
		}
		if !hasSNaN[eng] {
			evid.Note("%s does not reproduce on the %s: f32 signalling NaNs through reflective host functions are explored there", findSNaN, eng)
		}
	}
}

func TestBoundary(t *testing.T) {
	if evid.ReplayPath() != "" {
		t.Skip()
	}
	probes()
	evid.Check(t, "boundary", evid.Scale(8000, 640000), func(t *rapid.T) {
		c := genCase(t)
		exclude(&c)
		evid.Journal(c)
		f, st := runCase(c)
		if f != nil {
			evid.Fail(t, c, "%s", f.msg)
		}
		nt, l := labelsOf(c, st)
		evid.Case(keyOf(c), nt, l...)
		if nt && len(c.P) > 8 {
			evid.Sample("case", 2, c)
		}
	})
}

func TestReplay(t *testing.T) {
	p := evid.ReplayPath()
	if p == "" {
		t.Skip()
	}
	var cc ConcCase
	if _, err := evid.LoadReplay(p, &cc); err == nil && cc.Conc {
		// a concurrent failure depends on the schedule: try the recorded case several times
		for i := 0; i < 8; i++ {
			if f := runConc(cc); f != nil {
				evid.Violation("replay", cc, "%s", f.msg)
				t.Fatal(f.msg)
			}
		}
		return
	}
	var c Case
	if _, err := evid.LoadReplay(p, &c); err != nil {
		t.Fatal(err)
	}
	if !valid(c) {
		t.Fatalf("replay file does not hold a valid case: %+v", c)
	}
	if f, _ := runCase(c); f != nil {
		evid.Violation("replay", c, "%s", f.msg)
		t.Fatal(f.msg)
	}
}
