// C18 — the default ModuleConfig exposes nothing of the host and runs reproducibly.
//
// A script is a list of WASI calls (any of the 46 functions, well-formed and semi-random
// arguments) issued by the proxy guest instantiated with wazero.NewModuleConfig() untouched.
// Each script is executed
//   - in this process: both engines x two runtimes x two instances of one runtime, and
//   - (TestProcesses) in freshly started child processes (this test binary re-executed) that
//     differ in environment variables, arguments, working directory (with marker files),
//     standard input content, TZ and start time; each child runs the script on both engines.
//
// Oracles: (1) every run yields the byte-identical trace (errno / outcome of every call and
// every byte of guest memory the call changed); (2) no marker of the host (environment
// values, argv, working directory and the files in it, host name, stdin content) occurs in
// guest memory, argument and environment counts are zero, no descriptor >= 3 exists, stdin is
// at EOF, what the guest writes to fd 1/2 does not reach the child's real stdout/stderr;
// (3) scripts asking for hours of sleep finish; (4) a second instance starts from the same
// clock and random values (it is one of the compared runs).
package c18

import (
	"bytes"
	"context"
	"crypto/sha256"
	"encoding/binary"
	"encoding/hex"
	"encoding/json"
	"fmt"
	"os"
	"os/exec"
	"path/filepath"
	"sort"
	"strings"
	"sync"
	"testing"
	"time"

	"github.com/tetratelabs/wazero"
	"github.com/tetratelabs/wazero/api"
	"github.com/tetratelabs/wazero/experimental"
	"github.com/tetratelabs/wazero/experimental/sock"
	"github.com/tetratelabs/wazero/imports/wasi_snapshot_preview1"
	"pgregory.net/rapid"

	"verif/internal/evid"
	"verif/internal/wasiproxy"
	"verif/internal/wasmenc"
	"verif/internal/wz"
)

func TestMain(m *testing.M) { evid.Main(m, "C18") }

// ---- scripts ----

type memw struct {
	Off uint32 `json:"off"`
	Hex string `json:"hex"`
}

type call struct {
	Fn   string   `json:"fn"`
	Args []uint64 `json:"args"`
	Mem  []memw   `json:"mem,omitempty"`
	// Indirect: the guest reaches the imported WASI function through its table
	// (call_indirect) instead of a direct call.
	Indirect bool `json:"indirect,omitempty"`
	// Ctx is the kind of context the host passes to the call: "" context.Background(),
	// "value" WithValue, "cancel" WithCancel (never cancelled), "timeout" WithTimeout(1h),
	// "deadline" WithDeadline(now+1h).
	Ctx string `json:"ctx,omitempty"`
}

var ctxKinds = []string{"", "", "", "", "value", "cancel", "cancel", "timeout", "deadline"}

type ctxKey struct{}

// callCtx builds the context of one call from the run's parent context.
func callCtx(parent context.Context, kind string) (context.Context, context.CancelFunc) {
	switch kind {
	case "value":
		return context.WithValue(context.Background(), ctxKey{}, "c18"), func() {}
	case "cancel":
		return context.WithCancel(parent)
	case "timeout":
		return context.WithTimeout(parent, time.Hour)
	case "deadline":
		return context.WithDeadline(parent, time.Now().Add(time.Hour))
	}
	return context.Background(), func() {}
}

// variant returns the script with every call made the other way (direct <-> through the
// table) and with plain background contexts: neither may change the trace.
func variant(sc []call) []call {
	out := make([]call, len(sc))
	for i, c := range sc {
		c.Indirect = !c.Indirect
		c.Ctx = ""
		out[i] = c
	}
	return out
}

// requestedSleep parses the subscriptions of a poll_oneoff call from guest memory and returns
// the shortest relative clock timeout (the time a really sleeping implementation would wait);
// 0 when there is none.
func requestedSleep(mem []byte, c call) time.Duration {
	if c.Fn != "poll_oneoff" || len(c.Args) != 4 {
		return 0
	}
	in, n := c.Args[0]&0xffffffff, c.Args[2]&0xffffffff
	if n == 0 || n > 64 || in+n*48 > uint64(len(mem)) {
		return 0
	}
	var min time.Duration
	for i := uint64(0); i < n; i++ {
		sub := mem[in+i*48 : in+i*48+48]
		if sub[8] != 0 || binary.LittleEndian.Uint16(sub[40:]) != 0 {
			continue // not a relative clock subscription
		}
		if d := time.Duration(binary.LittleEndian.Uint64(sub[24:])); d > 0 && (min == 0 || d < min) {
			min = d
		}
	}
	return min
}

// Bounds of the "no real sleep, no blocking" oracle. A call that asks for at least
// sleepAsked must return within sleepBound; no call at all may take blockBound. Both are
// only reported when they repeat in two more executions of the same script (a loaded
// machine can delay one call, a real sleep repeats every time).
const (
	sleepAsked = 3 * time.Second
	sleepBound = 1 * time.Second
	blockBound = 10 * time.Second
	// a call's cancellable context is cancelled this long after its bound was exceeded, so that
	// an implementation that waits on the context cannot hang the shard
	cancelSlack = 500 * time.Millisecond
)

type caseT struct {
	Script   []call `json:"script"`
	Children []int  `json:"children,omitempty"` // indices into childPool
	// PreUse: before the guests under test are instantiated, the SAME ModuleConfig value is
	// first used to instantiate another guest with a context that carries experimental
	// settings: "sock" (a pre-opened TCP listener on 127.0.0.1:0), "notifier" (close
	// notifier), "sock+notifier"; a "-keep" suffix leaves that guest open. "" = not used before.
	PreUse string `json:"pre_use,omitempty"`
	// Concurrent, when set, makes this a case of TestConcurrentClocks (Script is unused)
	Concurrent *concCase `json:"concurrent,omitempty"`
	// filled in when a violation is written out; ignored by replay
	Observed []string `json:"observed,omitempty"`
}

func (c caseT) withObserved(v *violation) caseT {
	c.Observed = strings.Split(v.detail, "\n")
	return c
}

// memory layout of the fixed initial image (one page)
const (
	mRes    = 256   // result scalars
	mIovs   = 1024  // two iovecs: (mBuf,64) (mBuf2,4096)
	mStr    = 2048  // path strings
	mOutTxt = 3072  // text the guest writes to stdout/stderr
	mSubs   = 4096  // poll subscriptions
	mBuf    = 8192  // general output buffer
	mBuf2   = 16384 // second buffer
	memSize = 65536
)

const guestOutput = "C18-GUEST-OUTPUT-MARKER this text must not reach the real stdout/stderr\n"

var guestPaths = []string{".", "/", "etc/passwd", "..", "tmp", "c18-cwd-marker-file.txt", "proc/self/environ", "dev/urandom", "home", ""}

// pathAt returns offset and length of guestPaths[i] in the initial image.
func pathAt(i int) (uint64, uint64) {
	off := mStr
	for k := 0; k < i; k++ {
		off += len(guestPaths[k]) + 1
	}
	return uint64(off), uint64(len(guestPaths[i]))
}

func initialImage() []byte {
	img := make([]byte, memSize)
	binary.LittleEndian.PutUint32(img[mIovs:], mBuf)
	binary.LittleEndian.PutUint32(img[mIovs+4:], 64)
	binary.LittleEndian.PutUint32(img[mIovs+8:], mBuf2)
	binary.LittleEndian.PutUint32(img[mIovs+12:], 4096)
	// an iovec pair for writing: (mOutTxt, len(guestOutput))
	binary.LittleEndian.PutUint32(img[mIovs+16:], mOutTxt)
	binary.LittleEndian.PutUint32(img[mIovs+20:], uint32(len(guestOutput)))
	off := mStr
	for _, p := range guestPaths {
		copy(img[off:], p)
		off += len(p) + 1
	}
	copy(img[mOutTxt:], guestOutput)
	// one well-formed clock subscription (relative, 1 hour) and one stdin subscription
	copy(img[mSubs:], subscription(1, 0, 0, 3600e9, 0, 0))
	copy(img[mSubs+48:], subscription(2, 1, 0, 0, 0, 0))
	return img
}

// subscription encodes a 48-byte wasi subscription. typ 0 = clock (id, timeout, flags),
// 1 = fd_read (fd in id), 2 = fd_write.
func subscription(userdata uint64, typ byte, id uint32, timeout uint64, precision uint64, flags uint16) []byte {
	b := make([]byte, 48)
	binary.LittleEndian.PutUint64(b[0:], userdata)
	b[8] = typ
	binary.LittleEndian.PutUint32(b[16:], id)
	if typ == 0 {
		binary.LittleEndian.PutUint64(b[24:], timeout)
		binary.LittleEndian.PutUint64(b[32:], precision)
		binary.LittleEndian.PutUint16(b[40:], flags)
	}
	return b
}

const hourNs = uint64(3600e9)

var (
	longSleeps  = []uint64{3e9, 5e9, 60e9, 600e9, hourNs, hourNs, 24 * hourNs, 1<<63 - 1}
	shortSleeps = []uint64{0, 1, 1000}
	oddSleeps   = []uint64{1 << 63, ^uint64(0)} // become non-positive durations
	ptrPool     = []uint64{mRes, mRes + 8, mBuf, mBuf2, mIovs, mIovs + 16, mStr, mSubs, mOutTxt, 0, 4, 65528, 65532, 65535, 65536, 1 << 31, 0xfffffff8, 0xffffffff}
	lenPool     = []uint64{0, 1, 2, 7, 8, 16, 24, 48, 64, 100, 1000, 4096, 65536, 0xffffffff}
	i64Pool     = []uint64{0, 1, 2, 1000, 1 << 20, 1 << 32, 1<<63 - 1, 1 << 63, ^uint64(0), ^uint64(0), ^uint64(0), 0xffffffff00000000, 0xdeadbeef00000001}
	fdPool      = []uint64{0, 0, 1, 1, 2, 2, 3, 3, 4, 5, 6, 7, 8, 100, 1 << 31, 0xffffffff}
	rightsPool  = []uint64{0, 2, 64, 66, ^uint64(0), ^uint64(0), 0xffffffff00000002}
)

func hexOf(b []byte) string { return hex.EncodeToString(b) }

// genGeneric draws arguments for any function from its parameter names.
func genGeneric(t *rapid.T, sigs map[string]wasiproxy.Sig, name string) call {
	s := sigs[name]
	c := call{Fn: name}
	for i, pn := range s.ParamNames {
		lbl := fmt.Sprintf("%s.%s", name, pn)
		var v uint64
		switch {
		case name == "fd_renumber" && pn == "to":
			// huge targets make the descriptor table allocate GiBs (property C15's domain)
			v = uint64(rapid.IntRange(0, 10).Draw(t, lbl))
		case name == "poll_oneoff" && pn == "nsubscriptions":
			v = uint64(rapid.IntRange(0, 8).Draw(t, lbl)) // huge counts belong to C15
		case name == "fd_pwrite" && pn == "offset":
			// small offsets only: were the default stdout a real file (it must not be), a write at
			// 2^62 would turn the shard's log into a sparse file the driver cannot read
			v = rapid.SampledFrom([]uint64{0, 1, 100, 4096}).Draw(t, lbl)
		case pn == "iovs_len" || pn == "si_data_len" || pn == "ri_data_len":
			// few vectors, or so many that the array cannot fit into memory: a guest may write
			// at most a few hundred KiB per call (output is discarded, but not under mutations)
			v = rapid.SampledFrom([]uint64{0, 1, 1, 2, 3, 4, 1 << 20, 0xffffffff}).Draw(t, lbl)
		case pn == "fd" || strings.HasSuffix(pn, "_fd"):
			v = rapid.SampledFrom(fdPool).Draw(t, lbl)
		case strings.HasSuffix(pn, "_len") || pn == "len":
			v = rapid.SampledFrom(lenPool).Draw(t, lbl)
		case s.Params[i] == 0x7e: // i64
			v = rapid.SampledFrom(i64Pool).Draw(t, lbl)
		case strings.HasPrefix(pn, "result.") || pn == "argv" || pn == "argv_buf" || pn == "environ" || pn == "environ_buf" ||
			pn == "iovs" || pn == "buf" || strings.HasSuffix(pn, "path") || pn == "in" || pn == "out" || pn == "ri_data" || pn == "si_data":
			v = rapid.SampledFrom(ptrPool).Draw(t, lbl)
		case pn == "id":
			v = uint64(rapid.IntRange(0, 4).Draw(t, lbl))
		default: // flags, whence, advice, how, sig, rval ...
			if rapid.IntRange(0, 4).Draw(t, lbl+".raw") == 0 {
				v = uint64(rapid.Uint32().Draw(t, lbl))
			} else {
				v = uint64(rapid.IntRange(0, 31).Draw(t, lbl))
			}
		}
		c.Args = append(c.Args, v)
	}
	return c
}

var wellFormed = []string{
	"clock_time_get", "clock_time_get", "clock_time_get", "clock_time_get", "clock_time_get", "clock_time_get", "clock_res_get", "clock_res_get", "clock_res_get",
	"fd_advise", "fd_allocate", "fd_filestat_set_size",
	"random_get", "random_get", "random_get", "random_get", "random_get", "random_get", "random_get",
	"args_sizes_get", "args_get", "environ_sizes_get", "environ_get",
	"fd_read", "fd_read", "fd_write", "fd_write", "fd_pread", "fd_pwrite",
	"fd_fdstat_get", "fd_prestat_get", "fd_prestat_dir_name", "fd_filestat_get", "fd_readdir",
	"path_open", "path_open", "path_filestat_get", "path_readlink", "path_create_directory", "path_unlink_file",
	"poll_oneoff", "poll_oneoff", "poll_oneoff", "sched_yield",
	"sock_accept", "sock_recv", "sock_send", "sock_shutdown",
	"fd_filestat_set_times", "fd_seek", "fd_tell", "fd_close", "fd_renumber",
}

func smallFd(t *rapid.T, lbl string) uint64 { return uint64(rapid.IntRange(0, 8).Draw(t, lbl)) }

func genWellFormed(t *rapid.T, sigs map[string]wasiproxy.Sig) call {
	name := rapid.SampledFrom(wellFormed).Draw(t, "wf")
	c := call{Fn: name}
	resPtr := func() uint64 { return rapid.SampledFrom([]uint64{mRes, mRes, mRes, mBuf, 65528}).Draw(t, "res") }
	switch name {
	case "clock_time_get":
		c.Args = []uint64{uint64(rapid.SampledFrom([]int{0, 0, 1, 1, 2, 3}).Draw(t, "clock")), rapid.SampledFrom(i64Pool).Draw(t, "precision"), resPtr()}
	case "clock_res_get":
		c.Args = []uint64{uint64(rapid.SampledFrom([]int{0, 0, 1, 1, 2, 3, 4}).Draw(t, "clock")), resPtr()}
	case "fd_advise":
		c.Args = []uint64{smallFd(t, "fd"), rapid.SampledFrom(i64Pool).Draw(t, "offset"), rapid.SampledFrom(i64Pool).Draw(t, "len"), uint64(rapid.IntRange(0, 6).Draw(t, "advice"))}
	case "fd_allocate":
		c.Args = []uint64{smallFd(t, "fd"), rapid.SampledFrom(i64Pool).Draw(t, "offset"), rapid.SampledFrom(i64Pool).Draw(t, "len")}
	case "fd_filestat_set_size":
		c.Args = []uint64{smallFd(t, "fd"), rapid.SampledFrom(i64Pool).Draw(t, "size")}
	case "random_get":
		c.Args = []uint64{rapid.SampledFrom([]uint64{mBuf, mBuf2, mRes}).Draw(t, "buf"), rapid.SampledFrom([]uint64{1, 7, 8, 16, 33, 100, 1000, 4096}).Draw(t, "len")}
	case "args_sizes_get", "environ_sizes_get":
		c.Args = []uint64{mRes, mRes + 4}
	case "args_get", "environ_get":
		c.Args = []uint64{mBuf, mBuf2}
	case "fd_read", "fd_pread":
		fd := rapid.SampledFrom([]uint64{0, 0, 0, 0, 1, 2, 3, 4}).Draw(t, "fd")
		c.Args = []uint64{fd, mIovs, uint64(rapid.IntRange(1, 2).Draw(t, "iovs"))}
		if name == "fd_pread" {
			c.Args = append(c.Args, rapid.SampledFrom(i64Pool).Draw(t, "offset"))
		}
		c.Args = append(c.Args, mRes)
	case "fd_write", "fd_pwrite":
		fd := rapid.SampledFrom([]uint64{1, 1, 2, 2, 0, 3}).Draw(t, "fd")
		c.Args = []uint64{fd, mIovs + 16, 1}
		if name == "fd_pwrite" {
			c.Args = append(c.Args, rapid.SampledFrom([]uint64{0, 1, 100, 4096}).Draw(t, "offset"))
		}
		c.Args = append(c.Args, mRes)
		// (re)write the text and its iovec: earlier calls may have overwritten them
		var iov [8]byte
		binary.LittleEndian.PutUint32(iov[0:], mOutTxt)
		binary.LittleEndian.PutUint32(iov[4:], uint32(len(guestOutput)))
		c.Mem = []memw{{mOutTxt, hexOf([]byte(guestOutput))}, {mIovs + 16, hexOf(iov[:])}}
	case "fd_fdstat_get", "fd_prestat_get", "fd_filestat_get", "fd_tell":
		c.Args = []uint64{smallFd(t, "fd"), mRes}
	case "fd_prestat_dir_name":
		c.Args = []uint64{smallFd(t, "fd"), mBuf, rapid.SampledFrom([]uint64{0, 1, 64, 4096}).Draw(t, "len")}
	case "fd_readdir":
		c.Args = []uint64{smallFd(t, "fd"), mBuf, 4096, uint64(rapid.IntRange(0, 2).Draw(t, "cookie")), mRes}
	case "path_open":
		po, pl := pathAt(rapid.IntRange(0, len(guestPaths)-1).Draw(t, "path"))
		c.Args = []uint64{smallFd(t, "fd"), uint64(rapid.IntRange(0, 1).Draw(t, "dirflags")), po, pl, uint64(rapid.IntRange(0, 15).Draw(t, "oflags")),
			rapid.SampledFrom(rightsPool).Draw(t, "rights"), rapid.SampledFrom(rightsPool).Draw(t, "inh"), uint64(rapid.IntRange(0, 31).Draw(t, "fdflags")), mRes}
	case "path_filestat_get":
		po, pl := pathAt(rapid.IntRange(0, len(guestPaths)-1).Draw(t, "path"))
		c.Args = []uint64{smallFd(t, "fd"), uint64(rapid.IntRange(0, 1).Draw(t, "flags")), po, pl, mBuf}
	case "path_readlink":
		po, pl := pathAt(rapid.IntRange(0, len(guestPaths)-1).Draw(t, "path"))
		c.Args = []uint64{smallFd(t, "fd"), po, pl, mBuf, 256, mRes}
	case "path_create_directory", "path_unlink_file":
		po, pl := pathAt(rapid.IntRange(0, len(guestPaths)-1).Draw(t, "path"))
		c.Args = []uint64{smallFd(t, "fd"), po, pl}
	case "poll_oneoff":
		n := rapid.IntRange(1, 4).Draw(t, "nsubs")
		var subs []byte
		for i := 0; i < n; i++ {
			switch rapid.IntRange(0, 9).Draw(t, "subtype") {
			case 0, 1, 2, 3, 4:
				var to uint64
				switch rapid.IntRange(0, 5).Draw(t, "sleep-kind") {
				case 0, 1, 2:
					to = rapid.SampledFrom(longSleeps).Draw(t, "long")
				case 3, 4:
					to = rapid.SampledFrom(shortSleeps).Draw(t, "short")
				default:
					to = rapid.SampledFrom(oddSleeps).Draw(t, "odd")
				}
				subs = append(subs, subscription(uint64(i+1), 0, uint32(rapid.IntRange(0, 3).Draw(t, "clockid")), to,
					rapid.SampledFrom(i64Pool).Draw(t, "precision"), uint16(rapid.SampledFrom([]int{0, 0, 0, 0, 1, 2}).Draw(t, "subflags")))...)
			case 5, 6, 7:
				subs = append(subs, subscription(uint64(i+1), 1, uint32(rapid.SampledFrom([]int{0, 0, 0, 1, 3}).Draw(t, "subfd")), 0, 0, 0)...)
			case 8:
				subs = append(subs, subscription(uint64(i+1), 2, uint32(rapid.IntRange(0, 3).Draw(t, "subfd")), 0, 0, 0)...)
			default:
				subs = append(subs, subscription(uint64(i+1), byte(rapid.IntRange(3, 255).Draw(t, "badtype")), 0, 0, 0, 0)...)
			}
		}
		c.Mem = []memw{{mSubs, hexOf(subs)}}
		c.Args = []uint64{mSubs, mBuf, uint64(n), mRes}
	case "sched_yield":
	case "sock_accept":
		c.Args = []uint64{smallFd(t, "fd"), uint64(rapid.IntRange(0, 4).Draw(t, "flags")), mRes}
	case "sock_recv":
		c.Args = []uint64{smallFd(t, "fd"), mIovs, 1, uint64(rapid.IntRange(0, 3).Draw(t, "flags")), mRes, mRes + 4}
	case "sock_send":
		c.Args = []uint64{smallFd(t, "fd"), mIovs + 16, 1, 0, mRes}
	case "sock_shutdown":
		c.Args = []uint64{smallFd(t, "fd"), uint64(rapid.IntRange(0, 3).Draw(t, "how"))}
	case "fd_filestat_set_times":
		c.Args = []uint64{smallFd(t, "fd"), rapid.SampledFrom(i64Pool).Draw(t, "atim"), rapid.SampledFrom(i64Pool).Draw(t, "mtim"), uint64(rapid.IntRange(0, 15).Draw(t, "fst"))}
	case "fd_seek":
		c.Args = []uint64{smallFd(t, "fd"), rapid.SampledFrom(i64Pool).Draw(t, "offset"), uint64(rapid.IntRange(0, 2).Draw(t, "whence")), mRes}
	case "fd_close":
		c.Args = []uint64{smallFd(t, "fd")}
	case "fd_renumber":
		c.Args = []uint64{smallFd(t, "fd"), smallFd(t, "to")}
	}
	if len(c.Args) != len(sigs[name].Params) {
		panic("harness: bad well-formed generator for " + name)
	}
	return c
}

var (
	sigOnce  sync.Once
	sigTable map[string]wasiproxy.Sig
	sigNames []string
)

func signatures() (map[string]wasiproxy.Sig, []string) {
	sigOnce.Do(func() {
		ctx := context.Background()
		rt := wazero.NewRuntimeWithConfig(ctx, wazero.NewRuntimeConfigInterpreter())
		defer rt.Close(ctx)
		var err error
		if sigTable, sigNames, err = wasiproxy.Signatures(ctx, rt); err != nil {
			panic(err)
		}
	})
	return sigTable, sigNames
}

var preUseKinds = []string{"", "", "", "", "", "sock", "sock-keep", "notifier", "sock+notifier", "sock+notifier-keep"}

func genPreUse(t *rapid.T) string { return rapid.SampledFrom(preUseKinds).Draw(t, "pre-use") }

func genScript(t *rapid.T) []call {
	sigs, names := signatures()
	n := rapid.IntRange(3, 32).Draw(t, "ncalls")
	var sc []call
	for i := 0; i < n; i++ {
		var c call
		if rapid.IntRange(0, 9).Draw(t, "style") < 7 {
			c = genWellFormed(t, sigs)
		} else {
			c = genGeneric(t, sigs, rapid.SampledFrom(names).Draw(t, "fn"))
		}
		c.Indirect = rapid.IntRange(0, 2).Draw(t, "indirect") == 0
		if c.Fn == "poll_oneoff" {
			c.Ctx = rapid.SampledFrom(ctxKinds[3:]).Draw(t, "ctx")
		} else {
			c.Ctx = rapid.SampledFrom(ctxKinds).Draw(t, "ctx")
		}
		sc = append(sc, c)
	}
	return sc
}

// features of a script for the non-triviality rule and the labels.
type features struct {
	clock, random, exposing, longSleep, stdinRead, procExit bool
	indirect, cancellable, sleepWithCancellable             bool
}

func inMem(ptr, n uint64) bool { return ptr+n <= memSize && ptr+n >= ptr }

func scriptFeatures(sc []call) features {
	var f features
	for _, c := range sc {
		if c.Indirect {
			f.indirect = true
		}
		if c.Ctx == "cancel" || c.Ctx == "timeout" || c.Ctx == "deadline" {
			f.cancellable = true
		}
		switch c.Fn {
		case "clock_time_get":
			if c.Args[0] <= 1 && inMem(c.Args[2]&0xffffffff, 8) {
				f.clock = true
			}
		case "random_get":
			if l := c.Args[1] & 0xffffffff; l > 0 && inMem(c.Args[0]&0xffffffff, l) {
				f.random = true
			}
		case "args_sizes_get", "args_get", "environ_sizes_get", "environ_get", "fd_prestat_get", "fd_prestat_dir_name", "path_open":
			f.exposing = true
		case "fd_read":
			if c.Args[0]&0xffffffff == 0 {
				f.exposing, f.stdinRead = true, true
			}
		case "proc_exit":
			f.procExit = true
		case "poll_oneoff":
			for _, m := range c.Mem {
				b, _ := hex.DecodeString(m.Hex)
				for o := 0; o+48 <= len(b); o += 48 {
					if b[o+8] == 0 && binary.LittleEndian.Uint64(b[o+24:]) >= uint64(sleepAsked) && binary.LittleEndian.Uint64(b[o+24:]) < 1<<63 && binary.LittleEndian.Uint16(b[o+40:]) == 0 {
						f.longSleep = true
						if c.Ctx == "cancel" || c.Ctx == "timeout" || c.Ctx == "deadline" {
							f.sleepWithCancellable = true
						}
					}
				}
			}
			if len(c.Mem) == 0 && c.Args[0]&0xffffffff == mSubs {
				f.longSleep = true // the image's one-hour subscription (unless overwritten)
			}
		}
	}
	return f
}

// ---- executing a script on one instance ----

type span struct{ off, end int }

func changedSpans(a, b []byte) []span {
	var out []span
	i, n := 0, len(a)
	for i < n {
		// skip equal blocks fast
		if i+256 <= n && bytes.Equal(a[i:i+256], b[i:i+256]) {
			i += 256
			continue
		}
		if a[i] == b[i] {
			i++
			continue
		}
		j := i
		last := i
		for j < n && j-last < 16 { // merge changes closer than 16 bytes
			if a[j] != b[j] {
				last = j
			}
			j++
		}
		out = append(out, span{i, last + 1})
		i = last + 1
	}
	return out
}

func renderSpan(mem []byte, s span) string {
	b := mem[s.off:s.end]
	if len(b) <= 96 {
		return fmt.Sprintf("%d:%s", s.off, hexOf(b))
	}
	h := sha256.Sum256(b)
	return fmt.Sprintf("%d:len=%d,sha256=%s,head=%s", s.off, len(b), hexOf(h[:16]), hexOf(b[:32]))
}

var zeroPage = make([]byte, memSize)

type runResult struct {
	Trace    []string `json:"trace"`
	Problems []string `json:"problems,omitempty"` // direct oracle failures (leaks etc.)
	Slow     []string `json:"slow,omitempty"`     // calls that took suspiciously long (reported only if they repeat)
	// InGuest is the result of the same script compiled into ONE guest function (all calls on
	// one call stack): errnos, outcome, digest of the final memory.
	InGuest []string `json:"in_guest,omitempty"`
	errnos  []uint32 // errno of every executed call (prologue included); only when all outcomes were ok
	allOK   bool
	final   []byte // memory at the end
}

func findMarkers(region []byte, base int, markers [][]byte, what string, probs *[]string) {
	for _, m := range markers {
		if i := bytes.Index(region, m); i >= 0 {
			*probs = append(*probs, fmt.Sprintf("host marker %q found in guest memory at %d %s", m, base+i, what))
		}
	}
}

// runScript runs the fixed prologue and the script on a fresh proxy instance.
func runScript(p *wasiproxy.Proxy, sc []call, markers [][]byte) (res runResult) {
	maxMarker := 0
	for _, m := range markers {
		if len(m) > maxMarker {
			maxMarker = len(m)
		}
	}
	mem := p.Mem
	if mem.Size() != memSize {
		res.Problems = append(res.Problems, fmt.Sprintf("harness: memory size %d", mem.Size()))
		return res
	}
	// nothing of the host may be in memory right after instantiation
	if b, ok := mem.Read(0, memSize); ok && !bytes.Equal(b, zeroPage) {
		findMarkers(b, 0, markers, "right after instantiation", &res.Problems)
	}
	mem.Write(0, initialImage())
	shadow := make([]byte, memSize)
	aborted := false // a call took real time: the rest of the script is not executed
	step := func(label string, c call) (uint32, wz.Outcome) {
		if aborted {
			return 0, wz.Outcome{Kind: wz.KOther, Detail: "not executed"}
		}
		for _, w := range c.Mem {
			b, _ := hex.DecodeString(w.Hex)
			mem.Write(w.Off, b)
		}
		cur, _ := mem.Read(0, memSize)
		copy(shadow, cur)
		asked := requestedSleep(cur, c)
		limit := blockBound
		if asked >= sleepAsked {
			limit = sleepBound
		}
		parent, cancelParent := context.WithCancel(context.Background())
		wd := time.AfterFunc(limit+cancelSlack, cancelParent)
		cctx, cancel := callCtx(parent, c.Ctx)
		t0 := time.Now()
		var errno uint32
		var out wz.Outcome
		if c.Indirect {
			errno, out = p.CallIndirect(cctx, c.Fn, c.Args...)
		} else {
			errno, out = p.Call(cctx, c.Fn, c.Args...)
		}
		el := time.Since(t0)
		wd.Stop()
		cancel()
		cancelParent()
		if el >= limit {
			aborted = true
		}
		if asked >= sleepAsked && el >= sleepBound {
			res.Slow = append(res.Slow, fmt.Sprintf("%s %s (context kind %q) asks for a sleep of %v and took real time (>= %v): the default configuration must not really sleep", label, c.Fn, c.Ctx, asked, sleepBound))
		} else if el >= blockBound {
			res.Slow = append(res.Slow, fmt.Sprintf("%s %s (context kind %q) blocked the host for >= %v", label, c.Fn, c.Ctx, blockBound))
		}
		cur, _ = mem.Read(0, memSize)
		var sb strings.Builder
		fmt.Fprintf(&sb, "%s %s: errno=%d outcome=%s mem=[", label, c.Fn, errno, out.String())
		for k, s := range changedSpans(shadow, cur) {
			if k > 0 {
				sb.WriteByte(' ')
			}
			sb.WriteString(renderSpan(cur, s))
			lo, hi := s.off-maxMarker, s.end+maxMarker
			if lo < 0 {
				lo = 0
			}
			if hi > memSize {
				hi = memSize
			}
			findMarkers(cur[lo:hi], lo, markers, "after "+label+" "+c.Fn, &res.Problems)
		}
		sb.WriteByte(']')
		res.Trace = append(res.Trace, sb.String())
		res.errnos = append(res.errnos, errno)
		if out.Kind != wz.KOK {
			res.allOK = false
		}
		return errno, out
	}
	res.allOK = true
	defer func() {
		if cur, ok := mem.Read(0, memSize); ok {
			res.final = append([]byte{}, cur...)
		}
	}()
	// prologue: no descriptor beyond stdio, no preopen
	for fd := uint64(3); fd <= 8; fd++ {
		if e, out := step("pre", call{Fn: "fd_fdstat_get", Args: []uint64{fd, mRes}}); out.Kind == wz.KOK && e != wasiproxy.EBADF {
			res.Problems = append(res.Problems, fmt.Sprintf("descriptor %d exists under the default configuration (fd_fdstat_get errno=%d)", fd, e))
		}
	}
	if e, out := step("pre", call{Fn: "fd_prestat_get", Args: []uint64{3, mRes}}); out.Kind == wz.KOK && e != wasiproxy.EBADF {
		res.Problems = append(res.Problems, fmt.Sprintf("a preopen exists under the default configuration (fd_prestat_get(3) errno=%d)", e))
	}
	stdioTouched := false
	for i, c := range sc {
		if aborted {
			break
		}
		e, out := step(fmt.Sprintf("#%d", i), c)
		ok := out.Kind == wz.KOK && e == 0
		switch c.Fn {
		case "args_sizes_get", "environ_sizes_get":
			if ok && uint32(c.Args[0]) != uint32(c.Args[1]) {
				a, _ := mem.ReadUint32Le(uint32(c.Args[0]))
				b, _ := mem.ReadUint32Le(uint32(c.Args[1]))
				// the two results may overlap when the pointers are close; only judge disjoint ones
				d := int64(uint32(c.Args[0])) - int64(uint32(c.Args[1]))
				if (d >= 4 || d <= -4) && (a != 0 || b != 0) {
					res.Problems = append(res.Problems, fmt.Sprintf("#%d %s reports count=%d size=%d under the default configuration", i, c.Fn, a, b))
				}
			}
		case "fd_read":
			if ok && uint32(c.Args[0]) == 0 && !stdioTouched {
				rp := uint32(c.Args[3])
				// total requested length > 0 and the result cell is not inside the buffers: judge only the image's iovecs
				if n, okk := mem.ReadUint32Le(rp); okk && uint32(c.Args[1]) == mIovs && rp == mRes && n != 0 {
					res.Problems = append(res.Problems, fmt.Sprintf("#%d fd_read(stdin) returned %d bytes: default stdin is not empty", i, n))
				}
			}
		case "fd_close", "fd_renumber":
			stdioTouched = true
		}
	}
	// (every byte a call changed was scanned when it changed; nothing else writes the memory)
	return res
}

// prologueCalls are made before every script: no descriptor beyond stdio, no preopen.
func prologueCalls() []call {
	var out []call
	for fd := uint64(3); fd <= 8; fd++ {
		out = append(out, call{Fn: "fd_fdstat_get", Args: []uint64{fd, mRes}})
	}
	return append(out, call{Fn: "fd_prestat_get", Args: []uint64{3, mRes}})
}

// programBinary compiles prologue+script into one guest function "run" that makes all calls
// on one call stack (constants as arguments, the script's memory writes as stores) and
// returns the errno of every call. This is how a real guest calls WASI: consecutive host
// calls share the guest's stack, unlike the call-by-call proxy.
func programBinary(sc []call) ([]byte, int) {
	sigs, names := signatures()
	idx := map[string]uint32{}
	m := &wasmenc.Module{}
	for i, n := range names {
		idx[n] = uint32(i)
		m.ImportFunc(wasi_snapshot_preview1.ModuleName, n, sigs[n].Params, sigs[n].Results)
	}
	b := wasmenc.NewB()
	var results []byte
	for _, c := range append(prologueCalls(), sc...) {
		sg, ok := sigs[c.Fn]
		if !ok || len(c.Args) != len(sg.Params) {
			continue
		}
		for _, w := range c.Mem {
			data, _ := hex.DecodeString(w.Hex)
			if uint64(w.Off)+uint64(len(data)) > memSize {
				continue // the proxy run ignores such a write as well
			}
			k := 0
			for ; k+8 <= len(data); k += 8 {
				b.I32Const(int32(w.Off)+int32(k)).I64Const(int64(binary.LittleEndian.Uint64(data[k:]))).Mem(0x37, 0, 0)
			}
			for ; k < len(data); k++ {
				b.I32Const(int32(w.Off)+int32(k)).I32Const(int32(data[k])).Mem(0x3a, 0, 0)
			}
		}
		for k, t := range sg.Params {
			if t == api.ValueTypeI64 {
				b.I64Const(int64(c.Args[k]))
			} else {
				b.I32Const(int32(uint32(c.Args[k])))
			}
		}
		if c.Indirect {
			b.I32Const(int32(idx[c.Fn])).CallIndirect(m.AddType(sg.Params, sg.Results), 0)
		} else {
			b.Call(idx[c.Fn])
		}
		if len(sg.Results) == 0 {
			b.I32Const(-1) // proc_exit does not return
		}
		results = append(results, api.ValueTypeI32)
	}
	fi := m.AddFunc(nil, results, nil, b.Bytes())
	m.ExportFunc("run", fi)
	all := make([]uint32, len(names))
	for i := range all {
		all[i] = uint32(i)
	}
	m.Tables = [][]byte{wasmenc.TableType(0x70, uint32(len(names)), int64(len(names)))}
	m.Elems = [][]byte{wasmenc.ActiveElemFuncs(0, all)}
	m.Mems = [][]byte{wasmenc.Limits(1, 1, false)}
	m.Exports = append(m.Exports, wasmenc.Export{Name: "memory", Kind: wasmenc.KMem, Idx: 0})
	return m.Encode(), len(results)
}

// runInGuest instantiates the compiled script and runs it; the result is rendered as lines.
func runInGuest(ctx context.Context, rt wazero.Runtime, cm wazero.CompiledModule, mc wazero.ModuleConfig) (lines []string, errnos []uint32, final []byte, err error) {
	mod, err := rt.InstantiateModule(ctx, cm, mc)
	if err != nil {
		return nil, nil, nil, err
	}
	defer mod.Close(ctx)
	mod.Memory().Write(0, initialImage())
	rs, out := wz.SafeCall(ctx, mod.ExportedFunction("run"))
	if cur, ok := mod.Memory().Read(0, memSize); ok {
		final = append([]byte{}, cur...)
	}
	if out.Kind == wz.KOK {
		for _, r := range rs {
			errnos = append(errnos, uint32(r))
		}
	}
	h := sha256.Sum256(final)
	return []string{fmt.Sprintf("errnos=%v", errnos), "outcome=" + out.String(), "memory sha256=" + hexOf(h[:16])}, errnos, final, nil
}

// preUse instantiates a guest with the config value mc and a context carrying experimental
// settings, before the guests under test use the same value with plain contexts.
func preUse(rt wazero.Runtime, mc wazero.ModuleConfig, kind string) error {
	if kind == "" {
		return nil
	}
	ctx := context.Background()
	keep := strings.HasSuffix(kind, "-keep")
	kind = strings.TrimSuffix(kind, "-keep")
	if strings.Contains(kind, "sock") {
		ctx = sock.WithConfig(ctx, sock.NewConfig().WithTCPListener("127.0.0.1", 0))
	}
	if strings.Contains(kind, "notifier") {
		ctx = experimental.WithCloseNotifier(ctx, experimental.CloseNotifyFunc(func(context.Context, uint32) {}))
	}
	p, err := wasiproxy.New(ctx, rt, mc, 1, 1)
	if err != nil {
		if strings.Contains(err.Error(), "listen") || strings.Contains(err.Error(), "bind") {
			evid.Label("pre-use-skipped-cannot-listen", 1)
			return nil
		}
		return fmt.Errorf("pre-use (%s): %w", kind, err)
	}
	// that guest legitimately sees its listener
	p.Call(context.Background(), "fd_fdstat_get", 3, mRes)
	if !keep {
		p.Mod.Close(context.Background())
	}
	return nil
}

// runEngine runs the script under the default ModuleConfig on the engine. One ModuleConfig
// value (wazero.NewModuleConfig(), possibly used before: see preUse) serves all guests:
// runtime A with two proxy guests (both created before either runs) and, if full, runtime B
// with one that runs the variant; then the script compiled into one guest function, on one
// (full: two) more guests of runtime A.
func runEngine(engine string, c caseT, markers [][]byte, full bool) ([]runResult, []string, error) {
	ctx := context.Background()
	sc := c.Script
	var out []runResult
	var names []string
	rtA := wazero.NewRuntimeWithConfig(ctx, wz.Config(engine))
	defer rtA.Close(ctx)
	mc := wazero.NewModuleConfig()
	if err := preUse(rtA, mc, c.PreUse); err != nil {
		return nil, nil, err
	}
	p1, err := wasiproxy.New(ctx, rtA, mc, 1, 1)
	if err != nil {
		return nil, nil, err
	}
	var p2 *wasiproxy.Proxy
	if full {
		if p2, err = wasiproxy.New(ctx, rtA, mc, 1, 1); err != nil {
			return nil, nil, err
		}
	}
	out = append(out, runScript(p1, sc, markers))
	names = append(names, engine+"/runtimeA/instance1")
	if len(out[0].Slow) > 0 {
		return out, names, nil
	}
	if full {
		out = append(out, runScript(p2, sc, markers))
		names = append(names, engine+"/runtimeA/instance2")
		rtB := wazero.NewRuntimeWithConfig(ctx, wz.Config(engine))
		defer rtB.Close(ctx)
		p3, err := wasiproxy.New(ctx, rtB, mc, 1, 1)
		if err != nil {
			return nil, nil, err
		}
		out = append(out, runScript(p3, variant(sc), markers))
		names = append(names, engine+"/runtimeB/instance1 running the variant (every call made the other way, direct<->through the table, with background contexts)")
	}
	for _, r := range out {
		if len(r.Slow) > 0 {
			return out, names, nil
		}
	}
	// the same script as one guest function
	bin, _ := programBinary(sc)
	cm, err := rtA.CompileModule(ctx, bin)
	if err != nil {
		return nil, nil, fmt.Errorf("compiling the script guest: %w", err)
	}
	n := 1
	if full {
		n = 2
	}
	for k := 0; k < n; k++ {
		lines, errnos, final, err := runInGuest(ctx, rtA, cm, mc)
		if err != nil {
			return nil, nil, err
		}
		if k == 0 {
			out[0].InGuest = lines
			// call-by-call and in-guest execution of the same calls must agree
			if ref := out[0]; ref.allOK && len(errnos) > 0 {
				for q := range errnos {
					if q < len(ref.errnos) && errnos[q] != ref.errnos[q] {
						out[0].Problems = append(out[0].Problems, fmt.Sprintf("call %d of prologue+script (%s) returns errno %d when the guest makes all calls from one function, %d when called alone", q, append(prologueCalls(), sc...)[q].Fn, errnos[q], ref.errnos[q]))
						break
					}
				}
				if len(out[0].Problems) == 0 && !bytes.Equal(final, ref.final) {
					at := 0
					for at < len(final) && at < len(ref.final) && final[at] == ref.final[at] {
						at++
					}
					out[0].Problems = append(out[0].Problems, fmt.Sprintf("guest memory after the script differs between one-function and call-by-call execution (first at offset %d)", at))
				}
			}
		} else if strings.Join(lines, "\n") != strings.Join(out[0].InGuest, "\n") {
			out[0].Problems = append(out[0].Problems, "the script compiled into one guest function gives different results on two instances of one runtime")
			out[0].InGuest = append(out[0].InGuest, "second instance:")
			out[0].InGuest = append(out[0].InGuest, lines...)
		}
	}
	return out, names, nil
}

// runEngineChecked is runEngine with the timing oracle: when a call took real time the run is
// abandoned and the script executed again, up to 3 times. Only a delay that shows up every
// time is reported (slow != ""); a loaded machine can delay one call, a real sleep repeats.
func runEngineChecked(engine string, c caseT, markers [][]byte, full bool) (rs []runResult, names []string, slow string, err error) {
	for attempt := 0; attempt < 3; attempt++ {
		if rs, names, err = runEngine(engine, c, markers, full); err != nil {
			return nil, nil, "", err
		}
		slow = ""
		for i, r := range rs {
			if len(r.Slow) > 0 {
				slow = names[i] + ": " + r.Slow[0]
				break
			}
		}
		if slow == "" {
			return rs, names, "", nil
		}
		evid.Label("run-repeated-because-a-call-took-real-time", 1)
	}
	return rs, names, slow + " (in 3 of 3 executions)", nil
}

// lineLabel is the part of a trace line that is a function of the script ("#3 random_get").
func lineLabel(l string) string {
	if k := strings.Index(l, ":"); k > 0 {
		return l[:k]
	}
	return "(no such line)"
}

// firstDiff compares two traces. stable names the first differing line without the observed
// values (rapid needs a message that is a function of the case); detail shows both lines.
func firstDiff(a, b []string) (stable, detail string) {
	for i := 0; i < len(a) || i < len(b); i++ {
		var x, y string
		if i < len(a) {
			x = a[i]
		}
		if i < len(b) {
			y = b[i]
		}
		if x != y {
			what := "the bytes written to guest memory differ"
			if kx, ky := strings.Index(x, " mem=["), strings.Index(y, " mem=["); kx < 0 || ky < 0 || x[:kx] != y[:ky] {
				what = "errno/outcome differ"
			}
			lbl := lineLabel(x)
			if x == "" {
				lbl = lineLabel(y)
			}
			if len(x) > 700 {
				x = x[:700] + "..."
			}
			if len(y) > 700 {
				y = y[:700] + "..."
			}
			return fmt.Sprintf("first difference at trace line %d (%s): %s", i, lbl, what), fmt.Sprintf("reference: %s\nthis run:  %s", x, y)
		}
	}
	return "", ""
}

// hostMarkers lists strings of this process' host environment that must not show up in a guest.
func hostMarkers(extra ...string) [][]byte {
	seen := map[string]bool{}
	var out [][]byte
	img := initialImage()
	add := func(s string) {
		// strings that the scripts themselves contain cannot serve as markers
		if len(s) >= 6 && !seen[s] && !bytes.Contains(img, []byte(s)) {
			seen[s] = true
			out = append(out, []byte(s))
		}
	}
	for _, kv := range os.Environ() {
		if i := strings.IndexByte(kv, '='); i >= 0 {
			add(kv[i+1:])
			if len(kv[:i]) >= 8 {
				add(kv[:i])
			}
		}
	}
	for _, a := range os.Args {
		add(a)
	}
	if wd, err := os.Getwd(); err == nil {
		add(wd)
		if b, err := os.ReadFile(filepath.Join(wd, "etc", "passwd")); err == nil && len(b) < 200 {
			add(strings.TrimSpace(string(b)))
		}
		if des, err := os.ReadDir(wd); err == nil {
			for k, d := range des {
				if k >= 20 {
					break
				}
				if strings.Contains(d.Name(), "marker") {
					add(d.Name())
					if b, err := os.ReadFile(filepath.Join(wd, d.Name())); err == nil && len(b) < 200 {
						add(strings.TrimSpace(string(b)))
					}
				}
			}
		}
	}
	if h, err := os.Hostname(); err == nil {
		add(h)
	}
	for _, e := range extra {
		add(e)
	}
	return out
}

// violation is a failed oracle: msg is a function of the case (and of the fixed child
// configurations), detail carries the observed values.
type violation struct{ msg, detail string }

// runLocal executes the script in this process on both engines and returns the reference
// trace and the first violation (nil if none).
// guestDiff compares two results of the script run as one guest function; stable names the
// first difference without observed values.
func guestDiff(a, b []string, sc []call) (stable, detail string) {
	if strings.Join(a, "\n") == strings.Join(b, "\n") {
		return "", ""
	}
	detail = "reference: " + strings.Join(a, " | ") + "\nthis run:  " + strings.Join(b, " | ")
	if len(a) < 3 || len(b) < 3 {
		return "one of the runs has no result", detail
	}
	if a[0] != b[0] {
		fa := strings.Fields(strings.Trim(strings.TrimPrefix(a[0], "errnos="), "[]"))
		fb := strings.Fields(strings.Trim(strings.TrimPrefix(b[0], "errnos="), "[]"))
		all := append(prologueCalls(), sc...)
		for i := 0; i < len(fa) && i < len(fb); i++ {
			if fa[i] != fb[i] {
				fn := "?"
				if i < len(all) {
					fn = all[i].Fn
				}
				return fmt.Sprintf("the errno of call %d of prologue+script (%s) differs", i, fn), detail
			}
		}
		return "the number of returned errnos differs", detail
	}
	if a[1] != b[1] {
		return "the outcome of the run differs", detail
	}
	return "the final guest memory differs", detail
}

// reference is what every other run is compared with: the call-by-call trace and the result
// of the script run as one guest function, both from interpreter/runtimeA/instance1.
type reference struct {
	trace []string
	guest []string
}

func runLocal(c caseT, markers [][]byte) (ref reference, v *violation, err error) {
	sc := c.Script
	type done struct {
		ref   []string
		guest []string
		v     *violation
		err   error
	}
	ch := make(chan done, 1)
	go func() {
		var d done
		for _, eng := range wz.Engines {
			rs, names, slow, err := runEngineChecked(eng, c, markers, true)
			if err != nil {
				d.err = err
				break
			}
			if slow == "" {
				if d.guest == nil {
					d.guest = rs[0].InGuest
				} else if st, det := guestDiff(d.guest, rs[0].InGuest, sc); st != "" && d.v == nil {
					d.v = &violation{fmt.Sprintf("the script compiled into one guest function gives different results on %s than on the interpreter: %s", eng, st), det}
				}
			}
			if slow != "" {
				if d.v == nil {
					d.v = &violation{slow + " (this process)", ""}
				}
				break
			}
			for i, r := range rs {
				if len(r.Problems) > 0 && d.v == nil {
					d.v = &violation{fmt.Sprintf("%s in this process: %s", names[i], strings.Join(r.Problems, "; ")), ""}
				}
				if d.ref == nil {
					d.ref = r.Trace
					continue
				}
				if st, det := firstDiff(d.ref, r.Trace); st != "" && d.v == nil {
					d.v = &violation{fmt.Sprintf("trace of %s differs from interpreter/runtimeA/instance1 in the same process: %s", names[i], st), det}
				}
			}
		}
		ch <- d
	}()
	select {
	case d := <-ch:
		return reference{d.ref, d.guest}, d.v, d.err
	case <-time.After(60 * time.Second):
		f := scriptFeatures(sc)
		return reference{}, &violation{fmt.Sprintf("the script did not finish within 60 s in this process (asks for long sleeps: %v): the default configuration must not really sleep or block", f.longSleep), ""}, nil
	}
}

// ---- child processes ----

type childCfg struct {
	Env     map[string]string
	Args    []string
	TZ      string
	DelayMs int
	Files   map[string]string
	Stdin   string
}

var childPool = func() []childCfg {
	tzs := []string{"UTC", "Asia/Tokyo", "America/New_York", "Europe/Berlin", "", "Australia/Lord_Howe", "Asia/Kathmandu", "Pacific/Kiritimati"}
	var pool []childCfg
	for i := 0; i < 8; i++ {
		c := childCfg{
			Env: map[string]string{
				"C18_MARK_SECRET": fmt.Sprintf("c18-env-secret-%d-Zq7", i),
				"HOME":            fmt.Sprintf("/home/c18-marker-home-%d", i),
				"USER":            fmt.Sprintf("c18-marker-user-%d", i),
				"PATH":            fmt.Sprintf("/c18-marker-path-%d/bin:/usr/bin:/bin", i),
			},
			TZ:      tzs[i],
			DelayMs: (i * 7) % 23,
			Files: map[string]string{
				"c18-cwd-marker-file.txt":                    fmt.Sprintf("c18-cwd-file-content-%d", i),
				fmt.Sprintf("c18-cwd-marker-only-%d.txt", i): fmt.Sprintf("c18-cwd-other-content-%d", i),
				"etc/passwd": fmt.Sprintf("c18-marker-passwd-%d:x:0:0::/root:/bin/sh", i),
			},
			Stdin: fmt.Sprintf("c18-stdin-marker-%d\n", i),
		}
		for k := 0; k < i%4; k++ {
			c.Env[fmt.Sprintf("C18_MARK_EXTRA_%d", k)] = fmt.Sprintf("c18-env-extra-%d-%d", i, k)
		}
		for k := 0; k <= i%3; k++ {
			c.Args = append(c.Args, fmt.Sprintf("c18-argv-marker-%d-%d", i, k))
		}
		pool = append(pool, c)
	}
	return pool
}()

type childOut struct {
	Error   string               `json:"error,omitempty"`
	Results map[string]runResult `json:"results"` // per engine
	Info    map[string]string    `json:"info"`
}

var childSeq int

// spawnChild starts this test binary as a fresh process configured by childPool[idx].
func spawnChild(idx int, script caseT) (childOut, string, error) {
	script.Children, script.Observed = nil, nil
	cfg := childPool[idx%len(childPool)]
	childSeq++
	base := filepath.Join(evid.WorkDir(), fmt.Sprintf("child-%d-%d", childSeq, idx))
	cwd := filepath.Join(base, "c18-marker-cwd")
	tmp := filepath.Join(base, "tmp")
	defer os.RemoveAll(base)
	if err := os.MkdirAll(tmp, 0o755); err != nil {
		return childOut{}, "", err
	}
	for name, content := range cfg.Files {
		p := filepath.Join(cwd, filepath.FromSlash(name))
		os.MkdirAll(filepath.Dir(p), 0o755)
		if err := os.WriteFile(p, []byte(content), 0o644); err != nil {
			return childOut{}, "", err
		}
	}
	sp, op := filepath.Join(base, "script.json"), filepath.Join(base, "out.json")
	b, _ := json.Marshal(script)
	if err := os.WriteFile(sp, b, 0o644); err != nil {
		return childOut{}, "", err
	}
	self, err := os.Executable()
	if err != nil {
		return childOut{}, "", err
	}
	ctx, cancel := context.WithTimeout(context.Background(), 120*time.Second)
	defer cancel()
	args := append([]string{"-test.run=^TestChild$", "-test.count=1", "-test.timeout=100s"}, cfg.Args...)
	cmd := exec.CommandContext(ctx, self, args...)
	cmd.Dir = cwd
	cmd.Env = []string{"C18_CHILD=1", "C18_SCRIPT=" + sp, "C18_OUT=" + op, "TMPDIR=" + tmp, fmt.Sprintf("C18_DELAY_MS=%d", cfg.DelayMs), "C18_STDIN_MARKER=" + strings.TrimSpace(cfg.Stdin)}
	if cfg.TZ != "" {
		cmd.Env = append(cmd.Env, "TZ="+cfg.TZ)
	}
	keys := make([]string, 0, len(cfg.Env))
	for k := range cfg.Env {
		keys = append(keys, k)
	}
	sort.Strings(keys)
	for _, k := range keys {
		cmd.Env = append(cmd.Env, k+"="+cfg.Env[k])
	}
	cmd.Stdin = strings.NewReader(cfg.Stdin)
	var so, se bytes.Buffer
	cmd.Stdout, cmd.Stderr = &so, &se
	runErr := cmd.Run()
	std := so.String() + se.String()
	var co childOut
	ob, rerr := os.ReadFile(op)
	if rerr != nil {
		return co, std, fmt.Errorf("child %d wrote no result (run error %v, ctx %v): %s", idx, runErr, ctx.Err(), firstN(std, 1500))
	}
	if err := json.Unmarshal(ob, &co); err != nil {
		return co, std, err
	}
	if co.Error != "" {
		return co, std, fmt.Errorf("child %d: %s", idx, co.Error)
	}
	return co, std, nil
}

func firstN(s string, n int) string {
	if len(s) > n {
		return s[:n] + "..."
	}
	return s
}

// TestChild is the child mode: run the script on both engines, write traces and problems.
func TestChild(t *testing.T) {
	if os.Getenv("C18_CHILD") == "" {
		t.Skip()
	}
	var co childOut
	defer func() {
		b, _ := json.Marshal(co)
		os.WriteFile(os.Getenv("C18_OUT"), b, 0o644)
	}()
	var d int
	fmt.Sscan(os.Getenv("C18_DELAY_MS"), &d)
	time.Sleep(time.Duration(d) * time.Millisecond) // staggered start
	b, err := os.ReadFile(os.Getenv("C18_SCRIPT"))
	if err != nil {
		co.Error = err.Error()
		return
	}
	var cs caseT
	if err := json.Unmarshal(b, &cs); err != nil {
		co.Error = err.Error()
		return
	}
	markers := hostMarkers(os.Getenv("C18_STDIN_MARKER"))
	co.Results = map[string]runResult{}
	now := time.Now()
	co.Info = map[string]string{"tz": os.Getenv("TZ"), "local": now.Format(time.RFC3339Nano), "env": fmt.Sprint(len(os.Environ())), "args": fmt.Sprint(len(os.Args)), "markers": fmt.Sprint(len(markers))}
	for _, eng := range wz.Engines {
		rs, _, slow, err := runEngineChecked(eng, cs, markers, false)
		if err != nil {
			co.Error = err.Error()
			return
		}
		if slow != "" {
			rs[0].Problems = append(rs[0].Problems, slow)
		}
		rs[0].Slow = nil
		co.Results[eng] = rs[0]
	}
}

// runChildren runs the script in the listed child processes (concurrently) and compares.
func runChildren(c caseT, children []int, ref reference) (v *violation, err error) {
	type cres struct {
		co  childOut
		std string
		err error
	}
	out := make([]cres, len(children))
	var wg sync.WaitGroup
	for i, idx := range children {
		wg.Add(1)
		go func(i, idx int) {
			defer wg.Done()
			co, std, err := spawnChild(idx, c)
			out[i] = cres{co, std, err}
		}(i, idx)
	}
	wg.Wait()
	for i, r := range out {
		idx := children[i]
		if r.err != nil {
			return nil, r.err
		}
		if strings.Contains(r.std, "C18-GUEST-OUTPUT-MARKER") {
			return &violation{fmt.Sprintf("child process %d: what the guest wrote to fd 1/2 reached the real stdout/stderr", idx), firstN(r.std, 400)}, nil
		}
		for _, eng := range wz.Engines {
			rr := r.co.Results[eng]
			if len(rr.Problems) > 0 {
				return &violation{fmt.Sprintf("child process %d (%s): %s", idx, eng, strings.Join(rr.Problems, "; ")), fmt.Sprintf("child: %v", r.co.Info)}, nil
			}
			if st, det := firstDiff(ref.trace, rr.Trace); st != "" {
				return &violation{fmt.Sprintf("trace in child process %d (%s) differs from the trace in the parent process: %s", idx, eng, st), fmt.Sprintf("child: %v\n%s", r.co.Info, det)}, nil
			}
			if st, det := guestDiff(ref.guest, rr.InGuest, c.Script); st != "" {
				return &violation{fmt.Sprintf("the script compiled into one guest function gives different results in child process %d (%s) than in the parent process: %s", idx, eng, st), fmt.Sprintf("child: %v\n%s", r.co.Info, det)}, nil
			}
		}
	}
	return nil, nil
}

// ---- concurrent readers of the default clocks on one instance ----

// concCase: G goroutines call into ONE default-configured instance at the same time, each
// through its own api.Function objects, repeating its pattern of operations K times.
// Operations: "realtime"/"monotonic" clock_time_get, "res" clock_res_get, "hidden-wall"
// path_filestat_set_times(fd 0, ATIM_NOW|MTIM_NOW) (reads the wall clock without returning
// it), "poll" poll_oneoff with a one-hour clock subscription, "yield" sched_yield.
type concCase struct {
	K        int        `json:"k"`
	Patterns [][]string `json:"patterns"` // one per goroutine
}

var concOps = []string{"realtime", "realtime", "realtime", "monotonic", "monotonic", "monotonic", "res", "hidden-wall", "poll", "yield"}

type concResult struct {
	wall, mono           []uint64 // values returned by clock_time_get
	finalWall, finalMono uint64   // one more reading of each clock after all operations
	errs                 []string
}

const (
	cPath = 512  // "."
	cRes  = 1024 // + g*64: results of goroutine g
	cSubs = 4096 // + g*64: subscription of goroutine g
	cOut  = 8192 // + g*64: events of goroutine g
)

// runConc executes the patterns on p, concurrently or one goroutine after the other.
func runConc(p *wasiproxy.Proxy, cc concCase, concurrent bool) concResult {
	ctx := context.Background()
	var res concResult
	mem := p.Mem
	mem.Write(cPath, []byte("."))
	type gres struct {
		wall, mono []uint64
		errs       []string
	}
	out := make([]gres, len(cc.Patterns))
	work := func(g int) {
		r := &out[g]
		fns := map[string]func(args ...uint64) (uint32, error){}
		fn := func(name string) func(args ...uint64) (uint32, error) {
			if f := fns[name]; f != nil {
				return f
			}
			af := p.Mod.ExportedFunction(name) // this goroutine's own function object
			f := func(args ...uint64) (uint32, error) {
				rs, err := af.Call(ctx, args...)
				if err != nil || len(rs) == 0 {
					return 0, err
				}
				return uint32(rs[0]), nil
			}
			fns[name] = f
			return f
		}
		off := uint64(cRes + g*64)
		mem.Write(uint32(cSubs+g*64), subscription(uint64(g), 0, 0, hourNs, 0, 0))
		fail := func(op string, e uint32, err error) {
			if len(r.errs) < 3 {
				r.errs = append(r.errs, fmt.Sprintf("goroutine %d %s: errno=%d err=%v", g, op, e, err))
			}
		}
		for k := 0; k < cc.K; k++ {
			for _, op := range cc.Patterns[g] {
				switch op {
				case "realtime", "monotonic":
					id, o := uint64(0), off
					if op == "monotonic" {
						id, o = 1, off+8
					}
					if e, err := fn("clock_time_get")(id, 0, o); err != nil || e != 0 {
						fail(op, e, err)
					} else if v, ok := mem.ReadUint64Le(uint32(o)); ok {
						if id == 0 {
							r.wall = append(r.wall, v)
						} else {
							r.mono = append(r.mono, v)
						}
					}
				case "res":
					if e, err := fn("clock_res_get")(uint64(g%2), off+16); err != nil || e != 0 {
						fail(op, e, err)
					}
				case "hidden-wall":
					if _, err := fn("path_filestat_set_times")(0, 0, cPath, 1, 0, 0, 2|8); err != nil {
						fail(op, 0, err)
					}
				case "poll":
					if e, err := fn("poll_oneoff")(uint64(cSubs+g*64), uint64(cOut+g*64), 1, off+24); err != nil || e != 0 {
						fail(op, e, err)
					}
				case "yield":
					if e, err := fn("sched_yield")(); err != nil || e != 0 {
						fail(op, e, err)
					}
				}
			}
		}
	}
	if concurrent {
		var wg sync.WaitGroup
		start := make(chan struct{})
		for g := range cc.Patterns {
			wg.Add(1)
			go func(g int) {
				defer wg.Done()
				<-start
				work(g)
			}(g)
		}
		close(start)
		wg.Wait()
	} else {
		for g := range cc.Patterns {
			work(g)
		}
	}
	for _, r := range out {
		res.wall = append(res.wall, r.wall...)
		res.mono = append(res.mono, r.mono...)
		res.errs = append(res.errs, r.errs...)
	}
	if e, o := p.Call(ctx, "clock_time_get", 0, 0, cRes); e != 0 || o.Kind != wz.KOK {
		res.errs = append(res.errs, fmt.Sprintf("final realtime reading: errno=%d %v", e, o))
	}
	res.finalWall, _ = mem.ReadUint64Le(cRes)
	if e, o := p.Call(ctx, "clock_time_get", 1, 0, cRes); e != 0 || o.Kind != wz.KOK {
		res.errs = append(res.errs, fmt.Sprintf("final monotonic reading: errno=%d %v", e, o))
	}
	res.finalMono, _ = mem.ReadUint64Le(cRes)
	return res
}

// checkTicks: every returned value is a distinct tick base+i*step below the final reading.
func checkTicks(name string, vals []uint64, base, step, final uint64, hidden bool) string {
	seen := make(map[uint64]int, len(vals))
	dup, bad := 0, 0
	var ex string
	for _, v := range vals {
		seen[v]++
		if seen[v] == 2 {
			dup++
			if ex == "" {
				ex = fmt.Sprintf("value %d returned more than once", v)
			}
		}
		if v < base || v >= final || (step > 0 && (v-base)%step != 0) {
			bad++
			if ex == "" {
				ex = fmt.Sprintf("value %d is not base+i*step below the final reading (base %d step %d final %d)", v, base, step, final)
			}
		}
	}
	if dup > 0 || bad > 0 {
		return fmt.Sprintf("%s clock: %d readings, %d handed out more than once, %d off the tick sequence (%s)", name, len(vals), dup, bad, ex)
	}
	if !hidden && step > 0 && uint64(len(vals)) != (final-base)/step {
		return fmt.Sprintf("%s clock: %d readings but the clock advanced by %d ticks", name, len(vals), (final-base)/step)
	}
	return ""
}

// runConcurrentCase: on both engines, the concurrent run must leave both clocks exactly where
// the same operations executed one after the other leave them, and every reading must be a
// distinct tick of the sequence a fresh instance starts.
func runConcurrentCase(cc concCase) (*violation, error) {
	ctx := context.Background()
	hidden := false
	for _, pt := range cc.Patterns {
		for _, op := range pt {
			if op == "hidden-wall" {
				hidden = true
			}
		}
	}
	var finals []string
	for _, eng := range wz.Engines {
		rt := wazero.NewRuntimeWithConfig(ctx, wz.Config(eng))
		defer rt.Close(ctx)
		var ps [3]*wasiproxy.Proxy
		for i := range ps {
			p, err := wasiproxy.New(ctx, rt, nil, 1, 1)
			if err != nil {
				return nil, err
			}
			ps[i] = p
		}
		// instance 0: base and step of both clocks
		b := runConc(ps[0], concCase{K: 1, Patterns: [][]string{{"realtime", "realtime", "monotonic", "monotonic"}}}, false)
		if len(b.errs) > 0 || len(b.wall) != 2 || len(b.mono) != 2 {
			return nil, fmt.Errorf("reading the clocks failed: %v", b.errs)
		}
		baseW, stepW, baseM, stepM := b.wall[0], b.wall[1]-b.wall[0], b.mono[0], b.mono[1]-b.mono[0]
		seq := runConc(ps[1], cc, false)
		con := runConc(ps[2], cc, true)
		if len(seq.errs) > 0 {
			return &violation{fmt.Sprintf("%s: sequential run: calls failed: %s", eng, strings.Join(seq.errs, "; ")), ""}, nil
		}
		if len(con.errs) > 0 {
			return &violation{fmt.Sprintf("%s: concurrent run: calls failed", eng), strings.Join(con.errs, "\n")}, nil
		}
		detail := fmt.Sprintf("%s: realtime base %d step %d, final sequential %d concurrent %d (%d readings); monotonic base %d step %d, final sequential %d concurrent %d (%d readings)",
			eng, baseW, stepW, seq.finalWall, con.finalWall, len(con.wall), baseM, stepM, seq.finalMono, con.finalMono, len(con.mono))
		for _, m := range []string{
			checkTicks("sequential realtime", seq.wall, baseW, stepW, seq.finalWall, hidden),
			checkTicks("sequential monotonic", seq.mono, baseM, stepM, seq.finalMono, false),
		} {
			if m != "" {
				return &violation{eng + ": " + m, detail}, nil
			}
		}
		if con.finalWall != seq.finalWall || con.finalMono != seq.finalMono {
			return &violation{fmt.Sprintf("%s: after %d goroutines made their calls concurrently on one default-config instance the clocks are not where the same calls made one after the other leave them (ticks lost or duplicated): realtime off by %d ns, monotonic off by %d ns",
				eng, len(cc.Patterns), int64(seq.finalWall-con.finalWall), int64(seq.finalMono-con.finalMono)), detail}, nil
		}
		for _, m := range []string{
			checkTicks("concurrent realtime", con.wall, baseW, stepW, con.finalWall, hidden),
			checkTicks("concurrent monotonic", con.mono, baseM, stepM, con.finalMono, false),
		} {
			if m != "" {
				return &violation{eng + ": " + m, detail}, nil
			}
		}
		finals = append(finals, fmt.Sprintf("%d/%d", con.finalWall, con.finalMono))
	}
	if len(finals) == 2 && finals[0] != finals[1] {
		return &violation{"final clock readings differ between the engines", strings.Join(finals, " vs ")}, nil
	}
	return nil, nil
}

// ---- the checks ----

func caseKey(c caseT) uint64 {
	b, _ := json.Marshal(c)
	return evid.Key(b)
}

var (
	parentMarkers     [][]byte
	parentMarkersOnce sync.Once
)

// runCase is shared by the properties and by TestReplay.
func runCase(c caseT) (v *violation, err error) {
	if c.Concurrent != nil {
		return runConcurrentCase(*c.Concurrent)
	}
	parentMarkersOnce.Do(func() { parentMarkers = hostMarkers() })
	evid.Journal(c)
	ref, v, err := runLocal(c, parentMarkers)
	if err != nil || v != nil {
		return v, err
	}
	if len(c.Children) > 0 {
		return runChildren(c, c.Children, ref)
	}
	return nil, nil
}

func record(c caseT) {
	f := scriptFeatures(c.Script)
	lbls := []string{}
	add := func(b bool, l string) {
		if b {
			lbls = append(lbls, l)
		}
	}
	add(f.clock, "script-reads-clock")
	add(f.random, "script-reads-random")
	add(f.exposing, "script-has-exposing-call")
	add(f.longSleep, "script-asks-long-sleep")
	add(f.stdinRead, "script-reads-stdin")
	add(f.procExit, "script-calls-proc_exit")
	add(len(c.Children) > 0, "script-run-in-child-processes")
	add(f.indirect, "script-has-call-through-table")
	add(c.PreUse != "", "config-value-used-before-with-experimental-context")
	add(strings.Contains(c.PreUse, "sock"), "config-value-used-before-with-sock-context")
	add(f.cancellable, "script-has-call-with-cancellable-context")
	add(f.sleepWithCancellable, "script-asks-long-sleep-with-cancellable-context")
	evid.Case(caseKey(c), f.clock && f.random && f.exposing, lbls...)
	seen := map[string]bool{}
	for _, cl := range c.Script {
		if !seen[cl.Fn] {
			seen[cl.Fn] = true
			evid.Label("fn-"+cl.Fn, 1)
		}
	}
	evid.Label("calls", int64(len(c.Script)))
	evid.Label("child-process-runs", int64(len(c.Children)))
}

func TestProcesses(t *testing.T) {
	if evid.ReplayPath() != "" || os.Getenv("C18_CHILD") != "" {
		t.Skip()
	}
	nchildren := 3
	if evid.Thorough() {
		nchildren = 5
	}
	evid.Check(t, "child-processes", evid.Scale(480, 9600), func(t *rapid.T) {
		c := caseT{Script: genScript(t), PreUse: genPreUse(t)}
		perm := rapid.Permutation([]int{0, 1, 2, 3, 4, 5, 6, 7}).Draw(t, "children")
		c.Children = perm[:nchildren]
		v, err := runCase(c)
		if err != nil {
			t.Fatalf("harness: %v", err)
		}
		if v != nil {
			evid.Fail(t, c.withObserved(v), "%s", v.msg)
		}
		record(c)
		if f := scriptFeatures(c.Script); f.clock && f.random && f.exposing && f.longSleep {
			evid.Sample("child-processes", 2, c)
		}
	})
}

func TestInProcess(t *testing.T) {
	if evid.ReplayPath() != "" || os.Getenv("C18_CHILD") != "" {
		t.Skip()
	}
	evid.Check(t, "in-process", evid.Scale(3200, 200000), func(t *rapid.T) {
		c := caseT{Script: genScript(t), PreUse: genPreUse(t)}
		v, err := runCase(c)
		if err != nil {
			t.Fatalf("harness: %v", err)
		}
		if v != nil {
			evid.Fail(t, c.withObserved(v), "%s", v.msg)
		}
		record(c)
	})
}

// TestConcurrentClocks also runs under the race detector (check.json race_run).
func TestConcurrentClocks(t *testing.T) {
	if evid.ReplayPath() != "" || os.Getenv("C18_CHILD") != "" {
		t.Skip()
	}
	race := os.Getenv("VERIF_RACE") != ""
	n := evid.Scale(160, 6400)
	ks := []int{50, 500, 2000, 20000}
	if race { // the race detector slows calls down ~10x; its job is the report, not the oracle
		n = (n + 3) / 4
		ks = []int{20, 200, 1000}
	}
	evid.Check(t, "concurrent-clocks", n, func(t *rapid.T) {
		cc := concCase{K: rapid.SampledFrom(ks).Draw(t, "k")}
		g := rapid.IntRange(2, 8).Draw(t, "goroutines")
		for i := 0; i < g; i++ {
			cc.Patterns = append(cc.Patterns, rapid.SliceOfN(rapid.SampledFrom(concOps), 1, 4).Draw(t, "pattern"))
		}
		c := caseT{Concurrent: &cc}
		v, err := runCase(c)
		if err != nil {
			t.Fatalf("harness: %v", err)
		}
		if v != nil {
			evid.Fail(t, c.withObserved(v), "%s", v.msg)
		}
		nops, ticking := 0, 0
		for _, pt := range cc.Patterns {
			for _, op := range pt {
				nops += cc.K
				if op == "realtime" || op == "monotonic" || op == "hidden-wall" {
					ticking += cc.K
				}
			}
		}
		lbls := []string{"concurrent-case", fmt.Sprintf("concurrent-goroutines-%d", g)}
		if race {
			lbls = append(lbls, "concurrent-case-under-race-detector")
		}
		// non-trivial: at least two goroutines read a ticking clock at least 500 times each in total
		evid.Case(caseKey(c), ticking >= 1000, lbls...)
		evid.Label("concurrent-calls", int64(2*2*nops))
		evid.Sample("concurrent-clocks", 1, c)
	})
}

func TestReplay(t *testing.T) {
	p := evid.ReplayPath()
	if p == "" || os.Getenv("C18_CHILD") != "" {
		t.Skip()
	}
	var c caseT
	if _, err := evid.LoadReplay(p, &c); err != nil {
		t.Fatal(err)
	}
	c.Observed = nil
	rounds := 1
	if c.Concurrent != nil {
		rounds = 20 // scheduling dependent: give the interleaving several chances
	}
	var v *violation
	var err error
	for r := 0; r < rounds && v == nil && err == nil; r++ {
		v, err = runCase(c)
	}
	if err != nil {
		t.Fatalf("harness: %v", err)
	}
	if v != nil {
		evid.Violation("replay", c.withObserved(v), "%s", v.msg)
		t.Fatal(v.msg + "\n" + v.detail)
	}
}
