// C03 — compilation is total and sound on arbitrary input bytes.
//
// Inputs: (a) raw bytes, (b) structure-aware and byte-level mutations of valid modules (fresh
// wasmgen modules and every *.wasm under /repo: spec tests incl. their invalid modules,
// fuzzcases, examples), (c) wasmgen modules unchanged. Oracles: totality (CompileModule
// returns; no escaping panic, no process death), proportional allocation (TotalAlloc delta
// <= 64 MiB + 4096*len(input)), soundness of acceptance (every accepted module instantiates
// and runs on both engines without an internal failure), completeness on valid-by-construction
// modules (generator (c) must be accepted under the feature set it was generated for).
package c03

import (
	"bytes"
	"context"
	"encoding/binary"
	"errors"
	"fmt"
	"io/fs"
	"os"
	"path/filepath"
	"runtime"
	"runtime/debug"
	"sort"
	"strings"
	"sync"
	"testing"
	"time"

	"github.com/tetratelabs/wazero"
	"github.com/tetratelabs/wazero/api"
	"github.com/tetratelabs/wazero/experimental"
	"pgregory.net/rapid"

	"verif/internal/evid"
	"verif/internal/wasmenc"
	"verif/internal/wasmgen"
	"verif/internal/wz"
)

func TestMain(m *testing.M) { evid.Main(m, "C03") }

// Case is the replayable form: the exact input bytes and the feature set.
type Case struct {
	Input    []byte `json:"input"`
	Features uint64 `json:"features"`
	Origin   string `json:"origin"`
	Valid    bool   `json:"valid_by_construction"`
	Known    bool   `json:"known_finding_input,omitempty"` // the dedicated re-run of an open finding's input: class exclusions do not apply
}

var (
	corpusOnce  sync.Once
	corpusPaths []string
)

func corpus() []string {
	corpusOnce.Do(func() {
		root := os.Getenv("VERIF_REPO_PATH")
		if root == "" {
			root = "/repo"
		}
		filepath.WalkDir(root, func(p string, d fs.DirEntry, err error) error {
			if err == nil && !d.IsDir() && strings.HasSuffix(p, ".wasm") {
				if fi, e := d.Info(); e == nil && fi.Size() <= 64<<10 {
					corpusPaths = append(corpusPaths, p)
				}
			}
			return nil
		})
		sort.Strings(corpusPaths)
	})
	return corpusPaths
}

var featureSets = []api.CoreFeatures{api.CoreFeaturesV1, api.CoreFeaturesV2, wz.AllFeatures}

func drawFeatures(t *rapid.T) api.CoreFeatures {
	k := rapid.IntRange(0, 5).Draw(t, "featkind")
	if k < 3 {
		return featureSets[k]
	}
	if k == 3 {
		return wz.AllFeatures
	}
	// random subset of the feature bits; bulk-memory and reference-types are documented as
	// mutually required (api/features.go), so they are switched together
	f := api.CoreFeatures(rapid.Uint64Range(0, uint64(experimental.CoreFeaturesTailCall)<<1-1).Draw(t, "featbits"))
	if f&(api.CoreFeatureBulkMemoryOperations|api.CoreFeatureReferenceTypes) != 0 {
		f |= api.CoreFeatureBulkMemoryOperations | api.CoreFeatureReferenceTypes
	}
	return f
}

// ---- mutation ----

var hostile32 = []uint32{0, 1, 0x7f, 0x80, 0xff, 0x100, 0xffff, 0x10000, 1 << 28, 1<<31 - 1, 1 << 31, 0xfffffffe, 0xffffffff, 65536, 65537}

func leb(v uint64) []byte {
	var b []byte
	for {
		c := byte(v & 0x7f)
		v >>= 7
		if v != 0 {
			b = append(b, c|0x80)
		} else {
			return append(b, c)
		}
	}
}

type section struct {
	id      byte
	payload []byte
}

func splitSections(b []byte) (secs []section, ok bool) {
	if len(b) < 8 {
		return nil, false
	}
	p := 8
	for p < len(b) {
		id := b[p]
		p++
		var size uint64
		var shift uint
		for {
			if p >= len(b) || shift > 35 {
				return secs, false
			}
			c := b[p]
			p++
			size |= uint64(c&0x7f) << shift
			shift += 7
			if c&0x80 == 0 {
				break
			}
		}
		if uint64(p)+size > uint64(len(b)) {
			return secs, false
		}
		secs = append(secs, section{id, b[p : p+int(size)]})
		p += int(size)
	}
	return secs, true
}

func joinSections(secs []section) []byte {
	out := []byte{0, 'a', 's', 'm', 1, 0, 0, 0}
	for _, s := range secs {
		out = append(out, s.id)
		out = append(out, leb(uint64(len(s.payload)))...)
		out = append(out, s.payload...)
	}
	return out
}

func mutate(t *rapid.T, in []byte, other []byte) ([]byte, string) {
	b := append([]byte{}, in...)
	n := rapid.IntRange(1, 4).Draw(t, "nmut")
	var ops []string
	for i := 0; i < n; i++ {
		if len(b) == 0 {
			b = []byte{0}
		}
		k := rapid.IntRange(0, 12).Draw(t, "mut")
		pos := rapid.IntRange(0, len(b)-1).Draw(t, "pos")
		switch k {
		case 0:
			b[pos] ^= 1 << uint(rapid.IntRange(0, 7).Draw(t, "bit"))
			ops = append(ops, "bitflip")
		case 1:
			b[pos] = rapid.Byte().Draw(t, "byte")
			ops = append(ops, "byteset")
		case 2:
			v := hostile32[rapid.IntRange(0, len(hostile32)-1).Draw(t, "h")]
			// replace the LEB128 starting at pos (if any) by a hostile value
			e := pos
			for e < len(b) && b[e]&0x80 != 0 && e-pos < 5 {
				e++
			}
			if e < len(b) {
				e++
			}
			b = append(append(append([]byte{}, b[:pos]...), leb(uint64(v))...), b[e:]...)
			ops = append(ops, "leb-hostile")
		case 3:
			// overlong LEB
			b = append(append(append([]byte{}, b[:pos]...), b[pos]|0x80, 0x80, 0x80, 0x80, 0x00), b[pos+1:]...)
			ops = append(ops, "leb-overlong")
		case 4:
			m := rapid.IntRange(1, 8).Draw(t, "dellen")
			if pos+m > len(b) {
				m = len(b) - pos
			}
			b = append(b[:pos:pos], b[pos+m:]...)
			ops = append(ops, "delete")
		case 5:
			ins := rapid.SliceOfN(rapid.Byte(), 1, 6).Draw(t, "ins")
			b = append(append(append([]byte{}, b[:pos]...), ins...), b[pos:]...)
			ops = append(ops, "insert")
		case 6:
			b = b[:pos]
			ops = append(ops, "truncate")
		case 7:
			if b[pos] < 0xff {
				b[pos]++
			}
			ops = append(ops, "inc")
		default:
			secs, ok := splitSections(b)
			if !ok || len(secs) == 0 {
				b[pos] = ^b[pos]
				ops = append(ops, "invert")
				continue
			}
			si := rapid.IntRange(0, len(secs)-1).Draw(t, "sec")
			switch k {
			case 12:
				secs = append(secs[:si:si], secs[si+1:]...)
				ops = append(ops, "sec-delete")
			case 8:
				secs = append(secs[:si+1], secs[si:]...)
				ops = append(ops, "sec-dup")
			case 9:
				sj := rapid.IntRange(0, len(secs)-1).Draw(t, "sec2")
				secs[si], secs[sj] = secs[sj], secs[si]
				ops = append(ops, "sec-swap")
			case 10:
				if osecs, ok := splitSections(other); ok && len(osecs) > 0 {
					o := osecs[rapid.IntRange(0, len(osecs)-1).Draw(t, "osec")]
					secs[si] = section{o.id, append([]byte{}, o.payload...)}
					ops = append(ops, "sec-splice")
				}
			default:
				if l := len(secs[si].payload); l > 0 {
					secs[si].payload = secs[si].payload[:rapid.IntRange(0, l-1).Draw(t, "cut")]
				}
				ops = append(ops, "sec-truncate")
			}
			b = joinSections(secs)
		}
	}
	return b, strings.Join(ops, "+")
}

// ---- oracle ----

const allocBase = 64 << 20

// hugeLocals reports whether a function body in the code section declares more than 1<<16
// locals in total (class of the known finding C03-locals-expansion).
func hugeLocals(b []byte) bool { return maxLocals(b) > 1<<16 }

// maxLocals returns the largest number of locals any code entry declares.
func maxLocals(b []byte) uint64 {
	var most uint64
	secs, complete := splitSections(b)
	if !complete {
		// a final section whose declared size exceeds the input: the decoder still decodes its
		// entries one by one before it notices
		p := 8
		for _, s := range secs {
			p += 1 + len(leb(uint64(len(s.payload)))) + len(s.payload)
		}
		if p+2 <= len(b) && b[p] == 10 {
			q := p + 1
			for q < len(b) && b[q]&0x80 != 0 {
				q++
			}
			if q+1 <= len(b) {
				secs = append(secs, section{10, b[q+1:]})
			}
		}
	}
	for _, s := range secs {
		if s.id != 10 {
			continue
		}
		p := s.payload
		rd := func() (uint64, bool) {
			var v uint64
			var sh uint
			for len(p) > 0 && sh < 64 {
				c := p[0]
				p = p[1:]
				v |= uint64(c&0x7f) << sh
				sh += 7
				if c&0x80 == 0 {
					return v, true
				}
			}
			return 0, false
		}
		n, ok := rd()
		for i := uint64(0); ok && i < n && len(p) > 0; i++ {
			size, ok1 := rd()
			if !ok1 || size > uint64(len(p)) {
				break
			}
			body := p[:size]
			rest := p[size:]
			p = body
			nl, ok2 := rd()
			var sum uint64
			for j := uint64(0); ok2 && j < nl && len(p) > 0; j++ {
				c, ok3 := rd()
				if !ok3 || len(p) == 0 {
					break
				}
				p = p[1:]
				sum += c
			}
			if sum > most {
				most = sum
			}
			p = rest
		}
	}
	return most
}

type result struct {
	msg      string // violation
	accepted bool
	finding  string
	labels   []string
}

var abandoned int

// RunCase applies all oracles to one input.
func RunCase(c *Case) (r result) {
	if !c.Known && maxLocals(c.Input) > 1<<18 {
		// class of the open finding C03-locals-expansion, excluded by construction: compiling such
		// an input can take GiBs (the process may be killed); its specific input is re-run by
		// TestKnownLocalsExpansion
		r.labels = append(r.labels, "excluded-known-locals-expansion")
		evid.Label("excluded-known-locals-expansion", 1)
		return
	}
	ctx := context.Background()
	feats := api.CoreFeatures(c.Features)
	for _, eng := range wz.Engines {
		// (a memory limit of 128 MiB: an accepted module may declare a minimum of up to 4 GiB, which both
		// engines would allocate and zero at instantiation in each of the 16 shards)
		cfg := wz.Config(eng).WithCoreFeatures(feats).WithCloseOnContextDone(true).WithMemoryLimitPages(2048)
		rt := wazero.NewRuntimeWithConfig(ctx, cfg)
		var ms0, ms1 runtime.MemStats
		runtime.ReadMemStats(&ms0)
		var cm wazero.CompiledModule
		var err error
		var pan any
		start := time.Now()
		func() {
			defer func() { pan = recover() }()
			cm, err = rt.CompileModule(ctx, c.Input)
		}()
		el := time.Since(start)
		runtime.ReadMemStats(&ms1)
		if pan != nil {
			rt.Close(ctx)
			r.msg = fmt.Sprintf("CompileModule panicked on the %s: %v", eng, pan)
			return
		}
		if d := ms1.TotalAlloc - ms0.TotalAlloc; d > allocBase+4096*uint64(len(c.Input)) {
			rt.Close(ctx)
			if hugeLocals(c.Input) {
				r.finding = fmt.Sprintf("CompileModule (%s) allocated %d MiB for a %d-byte input declaring >65536 locals in one function", eng, d>>20, len(c.Input))
				return
			}
			r.msg = fmt.Sprintf("CompileModule (%s) allocated %d MiB for a %d-byte input (limit 64 MiB + 4096*len), err=%v", eng, d>>20, len(c.Input), err)
			return
		}
		if el > 60*time.Second {
			rt.Close(ctx)
			r.msg = fmt.Sprintf("CompileModule (%s) took %v for a %d-byte input", eng, el, len(c.Input))
			return
		}
		if err != nil {
			rt.Close(ctx)
			if c.Valid {
				r.msg = fmt.Sprintf("valid-by-construction module rejected by the %s: %v", eng, err)
				return
			}
			// (error texts quote names taken from the input - section, export, import names -, which
			// the fuzzer fills with strings from its dictionary such as "runtime error: ...": text
			// that occurs verbatim in the input says nothing about the runtime)
			if o := wz.Classify(scrubInput(err, c.Input)); o.Kind == wz.KInternal {
				r.msg = fmt.Sprintf("CompileModule (%s) failed with an internal error: %v", eng, o)
				return
			}
			r.labels = append(r.labels, "rejected:"+rejectClass(err))
			// both engines share the decoder/validator; one rejection is enough
			return
		}
		r.accepted = true
		if msg := execute(ctx, rt, cm, eng, c.Input); msg != "" {
			r.msg = msg
			rt.Close(ctx)
			return
		}
		rt.Close(ctx)
	}
	return
}

// scrubInput returns err (or an error with the same text) in which every stretch of at least 6
// bytes that occurs verbatim in the input is replaced by "<input>". Errors that carry a Go
// runtime error or an exit code as a value are returned unchanged.
func scrubInput(err error, in []byte) error {
	var re runtime.Error
	if err == nil || errors.As(err, &re) {
		return err
	}
	msg := err.Error()
	var sb strings.Builder
	for i := 0; i < len(msg); {
		l := 0
		for i+l < len(msg) && bytes.Contains(in, []byte(msg[i:i+l+1])) {
			l++
		}
		if l >= 6 {
			sb.WriteString("<input>")
			i += l
			continue
		}
		sb.WriteByte(msg[i])
		i++
	}
	return errors.New(sb.String())
}

func rejectClass(err error) string {
	s := err.Error()
	if i := strings.IndexAny(s, ":["); i > 0 {
		s = s[:i]
	}
	if len(s) > 24 {
		s = s[:24]
	}
	return s
}

// startIsImport reports whether the module's start section names an imported function (class
// of the open finding C03-compiler-reexported-host-function: the compiler cannot create a
// callable for a host function, the panic escapes InstantiateModule).
func startIsImport(b []byte) bool {
	secs, _ := splitSections(b)
	var imp, start []byte
	for _, s := range secs {
		switch s.id {
		case 2:
			imp = s.payload
		case 8:
			start = s.payload
		}
	}
	if start == nil {
		return false
	}
	rd := func(p *[]byte) (uint64, bool) {
		var v uint64
		var sh uint
		for len(*p) > 0 && sh < 64 {
			c := (*p)[0]
			*p = (*p)[1:]
			v |= uint64(c&0x7f) << sh
			sh += 7
			if c&0x80 == 0 {
				return v, true
			}
		}
		return 0, false
	}
	st, ok := rd(&start)
	if !ok {
		return false
	}
	nfunc := uint64(0)
	n, ok := rd(&imp)
	for i := uint64(0); ok && i < n; i++ {
		for k := 0; k < 2; k++ { // module and field names
			l, ok2 := rd(&imp)
			if !ok2 || l > uint64(len(imp)) {
				return st < nfunc
			}
			imp = imp[l:]
		}
		if len(imp) == 0 {
			break
		}
		kind := imp[0]
		imp = imp[1:]
		switch kind {
		case 0:
			rd(&imp)
			nfunc++
		case 1: // table: reftype limits
			if len(imp) > 0 {
				imp = imp[1:]
			}
			fl, _ := rd(&imp)
			rd(&imp)
			if fl&1 != 0 {
				rd(&imp)
			}
		case 2:
			fl, _ := rd(&imp)
			rd(&imp)
			if fl&1 != 0 {
				rd(&imp)
			}
		case 3:
			if len(imp) >= 2 {
				imp = imp[2:]
			}
		default:
			return st < nfunc
		}
	}
	return st < nfunc
}

// execute instantiates an accepted module with synthesised imports and calls every export;
// only internal failures count.
func execute(ctx context.Context, rt wazero.Runtime, cm wazero.CompiledModule, eng string, cmInput []byte) string {
	// synthesise host modules for function imports; other import kinds cannot be satisfied
	// without knowing their types through the public API beyond functions/memories: skip those.
	byMod := map[string][]api.FunctionDefinition{}
	for _, d := range cm.ImportedFunctions() {
		mn, _, _ := d.Import()
		byMod[mn] = append(byMod[mn], d)
	}
	if len(cm.ImportedMemories()) > 0 {
		return ""
	}
	var mods []string
	for mn := range byMod {
		mods = append(mods, mn)
	}
	sort.Strings(mods)
	for _, mn := range mods {
		b := rt.NewHostModuleBuilder(mn)
		seen := map[string]bool{}
		for _, d := range byMod[mn] {
			_, fn, _ := d.Import()
			if seen[fn] {
				continue
			}
			seen[fn] = true
			nres := len(d.ResultTypes())
			b = b.NewFunctionBuilder().WithGoModuleFunction(api.GoModuleFunc(func(ctx context.Context, m api.Module, stack []uint64) {
				for i := 0; i < nres && i < len(stack); i++ {
					stack[i] = 0
				}
			}), d.ParamTypes(), d.ResultTypes()).Export(fn)
		}
		if _, err := b.Instantiate(ctx); err != nil {
			return "" // e.g. duplicate/invalid names: cannot link, nothing to execute
		}
	}
	if abandoned >= 3 {
		return ""
	}
	if startIsImport(cmInput) {
		evid.Label("excluded-start-function-is-host-import", 1)
		return ""
	}
	done := make(chan string, 1)
	cctx, cancel := context.WithTimeout(ctx, 300*time.Millisecond)
	defer cancel()
	go func() {
		defer func() {
			if r := recover(); r != nil {
				done <- fmt.Sprintf("panic escaped instantiate/call on the %s: %v\n%s", eng, r, debug.Stack())
			}
		}()
		mod, err := rt.InstantiateModule(cctx, cm, wazero.NewModuleConfig().WithName("").WithStartFunctions())
		if err != nil {
			if o := wz.Classify(scrubInput(err, cmInput)); o.Kind == wz.KInternal {
				done <- fmt.Sprintf("instantiation of an accepted module failed internally on the %s: %v", eng, o)
				return
			}
			done <- ""
			return
		}
		names := make([]string, 0)
		defs := cm.ExportedFunctions()
		for n := range defs {
			names = append(names, n)
		}
		sort.Strings(names)
		if len(names) > 8 {
			names = names[:8]
		}
		for _, n := range names {
			if _, _, isImport := defs[n].Import(); isImport {
				// class of the known finding C03-compiler-reexported-host-function: an export that
				// aliases an imported (host) function is not called by the search
				evid.Label("excluded-export-aliasing-an-import", 1)
				continue
			}
			f := mod.ExportedFunction(n)
			if f == nil {
				continue
			}
			args := make([]uint64, 0)
			for _, p := range defs[n].ParamTypes() {
				switch p {
				case 0x7b:
					args = append(args, 0, 0)
				case 0x6f:
					// externref: an opaque, non-null host value (never dereferenced by a valid module)
					args = append(args, 0x10)
				default:
					args = append(args, 0)
				}
			}
			_, out := wz.SafeCall(cctx, f, args...)
			if out.Kind == wz.KInternal {
				done <- fmt.Sprintf("calling export %q of an accepted module failed internally on the %s: %v", n, eng, out)
				return
			}
			if mod.IsClosed() {
				break
			}
		}
		done <- ""
	}()
	select {
	case m := <-done:
		return m
	case <-time.After(10 * time.Second):
		abandoned++
		evid.Label("abandoned-nonterminating-execution", 1)
		return ""
	}
}

func featName(f api.CoreFeatures) string {
	switch f {
	case api.CoreFeaturesV1:
		return "V1"
	case api.CoreFeaturesV2:
		return "V2"
	case wz.AllFeatures:
		return "all"
	}
	return "subset"
}

func genFeat(f api.CoreFeatures) (wasmgen.Feature, api.CoreFeatures) {
	switch f {
	case api.CoreFeaturesV1:
		return wasmgen.FeatV1, f
	case api.CoreFeaturesV2:
		return wasmgen.FeatV2, f
	}
	return wasmgen.FeatAll, wz.AllFeatures
}

func smallCfg(t *rapid.T, gf wasmgen.Feature) wasmgen.Config {
	cfg := wasmgen.DefaultConfig()
	cfg.Features = gf
	cfg.MaxFuncs = rapid.IntRange(1, 5).Draw(t, "maxfuncs")
	cfg.MaxStmts = rapid.IntRange(1, 5).Draw(t, "maxstmts")
	cfg.MaxDepth = rapid.IntRange(1, 5).Draw(t, "maxdepth")
	cfg.Names = true
	cfg.Customs = true
	return cfg
}

func finish(t *rapid.T, c *Case, r result) {
	if r.finding != "" {
		if evid.KnownOpen("C03-locals-expansion") {
			evid.KnownFinding("C03-locals-expansion", "%s", r.finding)
			evid.Label("excluded-known-locals-expansion", 1)
			return
		}
		evid.Fail(t, c, "%s", r.finding)
	}
	if r.msg != "" {
		evid.Fail(t, c, "%s (origin %s, features %s)", r.msg, c.Origin, featName(api.CoreFeatures(c.Features)))
	}
	lbl := append(r.labels, "origin:"+strings.SplitN(c.Origin, ":", 2)[0], "features:"+featName(api.CoreFeatures(c.Features)))
	if r.accepted {
		lbl = append(lbl, "accepted")
	}
	nontrivial := r.accepted || c.Valid
	if !nontrivial {
		for _, l := range r.labels {
			// got past the header: the rejection names a section or a later stage
			if strings.HasPrefix(l, "rejected:") && !strings.Contains(l, "invalid magic") && !strings.Contains(l, "invalid version") && !strings.Contains(l, "invalid header") {
				nontrivial = true
			}
		}
	}
	evid.Case(evid.Hash64(c.Input, c.Features), nontrivial, lbl...)
	if nontrivial && evid.WantSample(strings.SplitN(c.Origin, ":", 2)[0], 1) {
		in := c.Input
		if len(in) > 96 {
			in = in[:96]
		}
		evid.Sample(strings.SplitN(c.Origin, ":", 2)[0], 1, map[string]any{"origin": c.Origin, "features": featName(api.CoreFeatures(c.Features)), "len": len(c.Input), "head_hex": fmt.Sprintf("%x", in), "accepted": r.accepted, "labels": r.labels})
	}
}

func propValid(t *rapid.T) {
	f := featureSets[rapid.IntRange(0, 2).Draw(t, "feat")]
	gf, feats := genFeat(f)
	cfg := smallCfg(t, gf)
	if rapid.Bool().Draw(t, "bigger") { // deeper nesting: more labels, more dead code after branches
		cfg.MaxFuncs, cfg.MaxStmts, cfg.MaxDepth = rapid.IntRange(1, 8).Draw(t, "mf"), rapid.IntRange(3, 8).Draw(t, "ms"), rapid.IntRange(2, 6).Draw(t, "md")
	}
	m := wasmgen.Generate(t, cfg)
	c := &Case{Input: m.Bytes, Features: uint64(feats), Origin: "wasmgen", Valid: true}
	evid.Journal(c)
	finish(t, c, RunCase(c))
}

func seedBytes(t *rapid.T, label string) ([]byte, string) {
	if rapid.IntRange(0, 3).Draw(t, label+"kind") == 0 {
		gf, _ := genFeat(featureSets[rapid.IntRange(0, 2).Draw(t, label+"feat")])
		return wasmgen.Generate(t, smallCfg(t, gf)).Bytes, "mutated-wasmgen"
	}
	cp := corpus()
	if len(cp) == 0 {
		return wasmgen.Generate(t, smallCfg(t, wasmgen.FeatAll)).Bytes, "mutated-wasmgen"
	}
	p := cp[rapid.IntRange(0, len(cp)-1).Draw(t, label+"file")]
	b, err := os.ReadFile(p)
	if err != nil {
		return []byte{0, 'a', 's', 'm', 1, 0, 0, 0}, "mutated-corpus"
	}
	return b, "mutated-corpus:" + filepath.Base(filepath.Dir(filepath.Dir(p))) + "/" + filepath.Base(p)
}

// semanticMutation removes or alters one module-level entity of a valid module (memory,
// tables, a global, a function's type, two bodies swapped, start function) and re-encodes it:
// the result is usually invalid in exactly one respect, which the validator has to notice.
func semanticMutation(t *rapid.T, m *wasmenc.Module) ([]byte, string, bool) {
	c := *m
	c.Exports = append([]wasmenc.Export{}, m.Exports...)
	c.Funcs = append([]wasmenc.Func{}, m.Funcs...)
	dropExports := func(kind byte) {
		var e []wasmenc.Export
		for _, x := range c.Exports {
			if x.Kind != kind {
				e = append(e, x)
			}
		}
		c.Exports = e
	}
	switch rapid.IntRange(0, 9).Draw(t, "semmut") {
	case 7, 8, 9:
		return danglingIndex(t, &c)
	case 0, 1:
		c.Mems, c.Datas, c.DataCnt = nil, nil, false
		dropExports(wasmenc.KMem)
		return c.Encode(), "sem-drop-memory", false
	case 2:
		c.Tables, c.Elems = nil, nil
		dropExports(wasmenc.KTable)
		return c.Encode(), "sem-drop-tables", false
	case 3:
		if len(c.Globals) > 0 {
			c.Globals = c.Globals[:len(c.Globals)-1]
			var e []wasmenc.Export
			for _, x := range c.Exports {
				if !(x.Kind == wasmenc.KGlobal && int(x.Idx) == len(c.Globals)) {
					e = append(e, x)
				}
			}
			c.Exports = e
		}
		return c.Encode(), "sem-drop-global", false
	case 4:
		if len(c.Funcs) > 0 && len(c.Types) > 1 {
			i := rapid.IntRange(0, len(c.Funcs)-1).Draw(t, "fn")
			c.Funcs[i].Type = uint32(rapid.IntRange(0, len(c.Types)-1).Draw(t, "ty"))
		}
		return c.Encode(), "sem-retype-function", false
	case 5:
		if len(c.Funcs) > 1 {
			i := rapid.IntRange(0, len(c.Funcs)-1).Draw(t, "fa")
			j := rapid.IntRange(0, len(c.Funcs)-1).Draw(t, "fb")
			c.Funcs[i].Body, c.Funcs[j].Body = c.Funcs[j].Body, c.Funcs[i].Body
			c.Funcs[i].Locals, c.Funcs[j].Locals = c.Funcs[j].Locals, c.Funcs[i].Locals
		}
		return c.Encode(), "sem-swap-bodies", false
	default:
		// only module-defined functions: a start function that is an imported host function is
		// the class of the open finding C03-compiler-reexported-host-function (same root cause)
		if n := len(c.Funcs); n > 0 {
			c.Start = wasmenc.P(c.NumImportedFuncs() + uint32(rapid.IntRange(0, n-1).Draw(t, "start")))
			evid.Label("excluded-start-function-is-host-import", 0)
		}
		return c.Encode(), "sem-set-start", false
	}
}

// danglingIndex adds an exported function "dangle" (() -> ()) whose body uses exactly one index
// immediate that lies at, or just beyond, the end of its index space (functions, globals,
// locals, labels, types, tables, element and data segments), optionally together with an
// element segment / export / global initialiser that names the same dangling function index
// (ref.func is only valid for "declared" functions, and what declares a function is checked
// elsewhere than the instruction). With k < 0 the index is in range and the module stays valid.
func danglingIndex(t *rapid.T, c *wasmenc.Module) ([]byte, string, bool) {
	c.Types = append([]wasmenc.FuncType{}, c.Types...)
	c.Elems = append([][]byte{}, c.Elems...)
	c.Globals = append([]wasmenc.Global{}, c.Globals...)
	nimp := c.NumImportedFuncs()
	nfuncs := nimp + uint32(len(c.Funcs)) + 1 // incl. the function added below
	impGlobals, impTables := uint32(0), uint32(0)
	for _, im := range c.Imports {
		switch im.Kind {
		case wasmenc.KGlobal:
			impGlobals++
		case wasmenc.KTable:
			impTables++
		}
	}
	k := rapid.IntRange(-1, 3).Draw(t, "beyond")
	at := func(n uint32) uint32 {
		v := int64(n) + int64(k)
		if v < 0 {
			v = 0
		}
		return uint32(v)
	}
	b := wasmenc.NewB()
	kind := rapid.SampledFrom([]string{"ref.func+declare", "ref.func+declare", "ref.func+declare", "ref.func", "call", "global.get", "local.get", "br", "call_indirect-type", "call_indirect-table", "table.get", "elem.drop", "data.drop", "export", "start", "elem-item", "callee-type", "callee-type", "block-type", "block-type", "memop-no-memory", "memop-no-memory", "memop-no-memory", "padded-immediate", "padded-immediate", "elem-expr", "elem-expr", "elem-expr",
		"if-noelse-type", "if-noelse-type", "if-noelse-type", "call_indirect-elemtype", "call_indirect-elemtype", "call_indirect-elemtype",
		"call_indirect-sigpair", "call_indirect-sigpair", "call_indirect-sigpair",
		"import-type", "import-type", "import-type"}).Draw(t, "dangling")
	valid := false
	var dangleParams []byte
	switch kind {
	case "if-noelse-type":
		// an `if` without `else` whose block type takes T* and yields U* (same arity): valid exactly
		// when T* == U* (the missing else branch hands the parameters on as the results); executed
		// with the condition false and true
		vts := []byte{wasmenc.I32, wasmenc.I64, wasmenc.F32, wasmenc.F64, wasmenc.V128, wasmenc.FuncRef, wasmenc.ExternRef}
		n := rapid.IntRange(1, 2).Draw(t, "arity")
		var ps, rs []byte
		for i := 0; i < n; i++ {
			ps = append(ps, rapid.SampledFrom(vts).Draw(t, "pt"))
		}
		rs = append(rs, ps...)
		if rapid.IntRange(0, 3).Draw(t, "sametypes") != 0 {
			for i := range rs {
				rs[i] = rapid.SampledFrom(vts).Draw(t, "rt")
			}
		}
		valid = string(ps) == string(rs)
		c.Types = append(c.Types, wasmenc.FuncType{P: ps, R: rs})
		bt := int64(len(c.Types) - 1)
		push := func(ty byte) {
			switch ty {
			case wasmenc.I32:
				b.I32Const(7)
			case wasmenc.I64:
				b.I64Const(7)
			case wasmenc.F32:
				b.F32(7)
			case wasmenc.F64:
				b.F64(7)
			case wasmenc.V128:
				b.V128Const(7, 7)
			default:
				b.RefNull(ty)
			}
		}
		for _, cond := range []int32{0, 1} {
			for _, ty := range ps {
				push(ty)
			}
			b.I32Const(cond).Raw(0x04).Append(wasmenc.S64(bt))
			for range ps {
				b.Drop()
			}
			for _, ty := range rs {
				push(ty)
			}
			b.End()
			for range rs {
				b.Drop()
			}
		}
	case "import-type":
		// a function import whose type index lies at or beyond the end of the type section (or
		// in a module without any type), referenced by the start section, an export, an element
		// segment, ref.func or a call: whatever looks at an import's type must range-check it
		// (sections are validated in an order of their own, not in binary order)
		c.Imports = append(append([]wasmenc.Import{}, c.Imports...), wasmenc.Import{Mod: "env", Name: "dangling-type", Kind: wasmenc.KFunc, Desc: wasmenc.U32(at(uint32(len(c.Types)) + 1))})
		// the new import takes the function index nimp: every module-defined function moves up by
		// one, so the other functions are replaced by one that does not name any function index
		imp := nimp
		c.Funcs, c.Elems, c.Start = nil, nil, nil
		var e []wasmenc.Export
		for _, x := range c.Exports {
			if x.Kind != wasmenc.KFunc {
				e = append(e, x)
			}
		}
		c.Exports = e
		var gl []wasmenc.Global
		for _, g := range c.Globals {
			if g.Type != wasmenc.FuncRef {
				gl = append(gl, g)
			}
		}
		if len(gl) != len(c.Globals) {
			// (global indices would shift: drop the global exports as well)
			var e2 []wasmenc.Export
			for _, x := range c.Exports {
				if x.Kind != wasmenc.KGlobal {
					e2 = append(e2, x)
				}
			}
			c.Exports, c.Globals = e2, gl
		}
		nimp++
		switch rapid.IntRange(0, 4).Draw(t, "importuse") {
		case 0:
			c.Start = wasmenc.P(imp)
		case 1:
			c.Exports = append(c.Exports, wasmenc.Export{Name: "reexport", Kind: wasmenc.KFunc, Idx: imp})
		case 2:
			c.Elems = append(c.Elems, wasmenc.DeclElemFuncs([]uint32{imp}))
			b.RefFunc(imp).Drop()
		case 3:
			b.Call(imp)
		default:
			c.Start = wasmenc.P(imp)
			c.Types = nil // no type section at all (the added function's type follows below)
		}
	case "call_indirect-sigpair":
		// a valid module: slot 0 of a new funcref table holds a function of type A, the added
		// function calls it indirectly with a type B that differs from A in exactly one parameter
		// or result type (any pair of value types): the call must trap with a signature mismatch;
		// if two distinct signatures were treated as one, the callee would run with another layout
		vts := []byte{wasmenc.I32, wasmenc.I64, wasmenc.F32, wasmenc.F64, wasmenc.V128, wasmenc.FuncRef, wasmenc.ExternRef}
		refish := []byte{wasmenc.V128, wasmenc.FuncRef, wasmenc.ExternRef, wasmenc.I64, wasmenc.F64}
		var pa, ra []byte
		for i, n := 0, rapid.IntRange(0, 3).Draw(t, "nparams"); i < n; i++ {
			pa = append(pa, rapid.SampledFrom(vts).Draw(t, "pt"))
		}
		for i, n := 0, rapid.IntRange(0, 2).Draw(t, "nresults"); i < n; i++ {
			ra = append(ra, rapid.SampledFrom(vts).Draw(t, "rt"))
		}
		if len(pa)+len(ra) == 0 {
			pa = []byte{rapid.SampledFrom(refish).Draw(t, "pt")}
		}
		pb, rb := append([]byte{}, pa...), append([]byte{}, ra...)
		pos := rapid.IntRange(0, len(pa)+len(ra)-1).Draw(t, "pos")
		other := func(old byte) byte {
			pool := vts
			if rapid.Bool().Draw(t, "refish") {
				pool = refish
			}
			for {
				if v := rapid.SampledFrom(pool).Draw(t, "other"); v != old {
					return v
				}
			}
		}
		if pos < len(pa) {
			pb[pos] = other(pa[pos])
		} else {
			rb[pos-len(pa)] = other(ra[pos-len(pa)])
		}
		push := func(bb *wasmenc.B, ty byte) {
			switch ty {
			case wasmenc.I32:
				bb.I32Const(7)
			case wasmenc.I64:
				bb.I64Const(7)
			case wasmenc.F32:
				bb.F32(7)
			case wasmenc.F64:
				bb.F64(7)
			case wasmenc.V128:
				bb.V128Const(7, 7)
			default:
				bb.RefNull(ty)
			}
		}
		c.Types = append(c.Types, wasmenc.FuncType{P: pa, R: ra}, wasmenc.FuncType{P: pb, R: rb})
		ta, tb := uint32(len(c.Types)-2), uint32(len(c.Types)-1)
		body := wasmenc.NewB()
		for _, ty := range ra {
			push(body, ty)
		}
		c.Funcs = append(c.Funcs, wasmenc.Func{Type: ta, Body: body.Bytes()})
		fa := nimp + uint32(len(c.Funcs)) - 1
		c.Tables = append(append([][]byte{}, c.Tables...), wasmenc.TableType(wasmenc.FuncRef, 1, -1))
		ti := impTables + uint32(len(c.Tables)) - 1
		c.Elems = append(c.Elems, wasmenc.ActiveElemFuncsTable(ti, wasmenc.NewB().I32Const(0).Bytes(), []uint32{fa}))
		for _, ty := range pb {
			push(b, ty)
		}
		b.I32Const(0).CallIndirect(tb, ti)
		for range rb {
			b.Drop()
		}
		valid = true
	case "call_indirect-elemtype":
		// call_indirect through the last of several tables of drawn element types (valid exactly
		// when that table holds funcref), after the caller's externref argument (a non-null host
		// value) was stored into it when it is an externref table
		c.Tables = append([][]byte{}, c.Tables...)
		if impTables+uint32(len(c.Tables)) == 0 || rapid.Bool().Draw(t, "retable") {
			// replace the module's own tables (the other functions no longer decide the verdict)
			c.Tables, c.Elems, c.Start = nil, nil, nil
			var e []wasmenc.Export
			for _, x := range c.Exports {
				if x.Kind != wasmenc.KTable {
					e = append(e, x)
				}
			}
			c.Exports = e
			for i := range c.Funcs {
				c.Funcs[i].Body, c.Funcs[i].Locals = []byte{0x00}, nil
			}
			if impTables == 0 {
				c.Tables = append(c.Tables, wasmenc.TableType(rapid.SampledFrom([]byte{wasmenc.FuncRef, wasmenc.ExternRef}).Draw(t, "t0"), 2, -1))
			}
		}
		last := rapid.SampledFrom([]byte{wasmenc.FuncRef, wasmenc.ExternRef}).Draw(t, "tlast")
		c.Tables = append(c.Tables, wasmenc.TableType(last, 2, -1))
		ti := impTables + uint32(len(c.Tables)) - 1
		valid = last == wasmenc.FuncRef
		dangleParams = []byte{wasmenc.ExternRef}
		if last == wasmenc.ExternRef {
			b.I32Const(0).LocalGet(0).TableSet(ti)
		}
		b.I32Const(0).CallIndirect(uint32(len(c.Types)), ti)
		if valid {
			// (the call traps: slot 0 is null; what is checked is that the module is accepted)
			evid.Label("call_indirect-through-funcref-table-beyond-0", 1)
		}
	case "ref.func+declare", "ref.func":
		f := at(nfuncs)
		b.RefFunc(f).Drop()
		if kind == "ref.func+declare" {
			switch rapid.IntRange(0, 3).Draw(t, "declare") {
			case 0:
				c.Elems = append(c.Elems, wasmenc.DeclElemFuncs([]uint32{f}))
			case 1:
				c.Elems = append(c.Elems, wasmenc.PassiveElemFuncs([]uint32{f}))
			case 2:
				c.Exports = append(c.Exports, wasmenc.Export{Name: "dangling-export", Kind: wasmenc.KFunc, Idx: f})
			default:
				c.Globals = append(c.Globals, wasmenc.Global{Type: wasmenc.FuncRef, Init: wasmenc.NewB().RefFunc(f).Bytes()})
			}
		}
	case "call":
		b.Call(at(nfuncs))
	case "block-type":
		// block / loop / if whose block type is a type index at or beyond the end of the type section
		op := rapid.SampledFrom([]byte{0x02, 0x03, 0x04}).Draw(t, "blockop")
		if op == 0x04 {
			b.I32Const(0)
		}
		b.Raw(op).Append(wasmenc.S64(int64(at(uint32(len(c.Types)) + 1)))).End()
	case "memop-no-memory":
		// a module without any memory whose added function executes one memory instruction
		// (any load/store/SIMD lane/atomic/bulk form): each form has its own validation guard
		c.Mems, c.Datas, c.DataCnt = nil, nil, false
		var e []wasmenc.Export
		for _, x := range c.Exports {
			if x.Kind != wasmenc.KMem {
				e = append(e, x)
			}
		}
		c.Exports = e
		var imps []wasmenc.Import
		for _, im := range c.Imports {
			if im.Kind != wasmenc.KMem {
				imps = append(imps, im)
			}
		}
		c.Imports = imps
		// the other functions must not decide the verdict: their bodies become `unreachable`
		for i := range c.Funcs {
			c.Funcs[i].Body, c.Funcs[i].Locals = []byte{0x00}, nil
		}
		memInstr(t, b)
	case "padded-immediate":
		// a reserved / index immediate spelled as a non-minimal LEB128 zero (80 00, 80 80 00, ...):
		// wherever the validator accepts it, the engines must skip the same number of bytes
		pad := func() []byte {
			n := rapid.IntRange(1, 4).Draw(t, "padding")
			out := make([]byte, 0, n+1)
			for i := 0; i < n; i++ {
				out = append(out, 0x80)
			}
			return append(out, 0)
		}
		switch rapid.IntRange(0, 6).Draw(t, "padded") {
		case 0:
			b.Raw(0x3f).Append(pad()).Drop() // memory.size
		case 1:
			b.I32Const(0).Raw(0x40).Append(pad()).Drop() // memory.grow
		case 2:
			b.I32Const(0).I32Const(0).I32Const(0).Raw(0xfc, 11).Append(pad()) // memory.fill
		case 3:
			b.I32Const(0).I32Const(0).I32Const(0).Raw(0xfc, 10).Append(pad()).Append(pad()) // memory.copy
		case 4:
			b.I32Const(0).I32Const(0).I32Const(0).Raw(0xfc, 8, 0).Append(pad()) // memory.init seg 0
			if len(c.Datas) == 0 {
				c.Datas = [][]byte{wasmenc.PassiveData([]byte{1, 2, 3})}
				c.DataCnt = true
			}
		case 5:
			b.I32Const(0).Raw(0x11).Append(wasmenc.U32(uint32(len(c.Types)))).Append(pad()) // call_indirect type, table(padded 0)
		default:
			b.I32Const(0).Raw(0x28).Append(pad()).Append(pad()).Drop() // i32.load align=0 offset=0, both padded
		}
	case "elem-expr":
		// an element segment in the expression encoding (flags 4-7) whose items are ref.func /
		// global.get / ref.null expressions with indices at the end of, beyond, or far beyond
		// their index spaces (the decoded item packs flags into the upper bits of the index),
		// in a module that has non-reference globals; the added function calls through slot 0
		c.Globals = append(c.Globals, wasmenc.Global{Type: wasmenc.I64, Init: wasmenc.NewB().I64Const(8).Bytes()})
		nglobals := impGlobals + uint32(len(c.Globals))
		if impTables+uint32(len(c.Tables)) == 0 {
			c.Tables = append(append([][]byte{}, c.Tables...), wasmenc.TableType(0x70, 2, -1))
		}
		hostile := []uint32{at(nfuncs), 1 << 27, 1<<30 | (nglobals - 1), 1<<30 | at(nglobals), 1 << 30, 1<<31 - 1, 1 << 31, 0xffffffff}
		item := func() []byte {
			switch rapid.IntRange(0, 3).Draw(t, "itemkind") {
			case 0:
				return wasmenc.NewB().RefNull(0x70).End().Bytes()
			case 1:
				return wasmenc.NewB().GlobalGet(rapid.SampledFrom([]uint32{at(nglobals), nglobals - 1, 1 << 30}).Draw(t, "itemglobal")).End().Bytes()
			default:
				return wasmenc.NewB().RefFunc(rapid.SampledFrom(hostile).Draw(t, "itemfunc")).End().Bytes()
			}
		}
		var items [][]byte
		for i, n := 0, rapid.IntRange(1, 3).Draw(t, "nitems"); i < n; i++ {
			items = append(items, item())
		}
		off := wasmenc.NewB().I32Const(0).End().Bytes()
		var seg []byte
		switch rapid.IntRange(4, 7).Draw(t, "elemflag") {
		case 4:
			seg = wasmenc.Cat([]byte{4}, off, wasmenc.Vec(items))
		case 5:
			seg = wasmenc.Cat([]byte{5, 0x70}, wasmenc.Vec(items))
		case 6:
			seg = wasmenc.Cat([]byte{6, 0}, off, []byte{0x70}, wasmenc.Vec(items))
		default:
			seg = wasmenc.Cat([]byte{7, 0x70}, wasmenc.Vec(items))
		}
		c.Elems = append(c.Elems, seg)
		b.I32Const(0).CallIndirect(uint32(len(c.Types)), 0)
	case "callee-type":
		// an earlier function calls a later function whose type index dangles
		if len(c.Funcs) >= 2 {
			j := rapid.IntRange(1, len(c.Funcs)-1).Draw(t, "callee")
			i := rapid.IntRange(0, j-1).Draw(t, "caller")
			c.Funcs[j].Type = at(uint32(len(c.Types)) + 1)
			c.Funcs[i].Body = wasmenc.NewB().Call(nimp + uint32(j)).Unreachable().Bytes()
		}
	case "global.get":
		b.GlobalGet(at(impGlobals + uint32(len(c.Globals)))).Drop()
	case "local.get":
		b.LocalGet(at(0)).Drop()
	case "br":
		b.Block().Br(at(2)).End()
	case "call_indirect-type":
		b.I32Const(0).CallIndirect(at(uint32(len(c.Types))+1), 0)
	case "call_indirect-table":
		b.I32Const(0).CallIndirect(uint32(len(c.Types)), at(impTables+uint32(len(c.Tables))))
	case "table.get":
		b.I32Const(0).TableGet(at(impTables + uint32(len(c.Tables)))).Drop()
	case "elem.drop":
		b.ElemDrop(at(uint32(len(c.Elems))))
	case "data.drop":
		b.DataDrop(at(uint32(len(c.Datas))))
	case "export":
		c.Exports = append(c.Exports, wasmenc.Export{Name: "dangling-export", Kind: byte(rapid.IntRange(0, 3).Draw(t, "xkind")), Idx: at(nfuncs + 2)})
	case "start":
		c.Start = wasmenc.P(at(nfuncs + 1))
	default:
		c.Elems = append(c.Elems, wasmenc.PassiveElemFuncs([]uint32{0, at(nfuncs)}))
	}
	c.Types = append(c.Types, wasmenc.FuncType{})
	if dangleParams != nil {
		// (call_indirect above names the ()->() type just added; the function itself takes the argument)
		c.Types = append(c.Types, wasmenc.FuncType{P: dangleParams})
	}
	c.Funcs = append(c.Funcs, wasmenc.Func{Type: uint32(len(c.Types) - 1), Body: b.Bytes()})
	// first among the exports, so that it is executed when the module is accepted
	c.Exports = append([]wasmenc.Export{{Name: "dangle", Kind: wasmenc.KFunc, Idx: nimp + uint32(len(c.Funcs)) - 1}}, c.Exports...)
	evid.Label("dangling:"+kind, 1)
	return c.Encode(), fmt.Sprintf("sem-dangling-%s%+d", kind, k), valid
}

// memInstr appends one randomly chosen memory-touching instruction with constant operands
// (results dropped) from the generator's instruction table, or a bulk-memory instruction.
func memInstr(t *rapid.T, b *wasmenc.B) {
	var ops []*wasmgen.Op
	for i := range wasmgen.OpTable {
		if op := &wasmgen.OpTable[i]; op.Imm == wasmgen.ImmMem || op.Imm == wasmgen.ImmMemLane || op.Imm == wasmgen.ImmAtomic {
			ops = append(ops, op)
		}
	}
	k := rapid.IntRange(0, len(ops)+5).Draw(t, "memop")
	if k >= len(ops) {
		switch k - len(ops) {
		case 0:
			b.MemorySize().Drop()
		case 1:
			b.I32Const(0).MemoryGrow().Drop()
		case 2:
			b.I32Const(0).I32Const(0).I32Const(0).MemoryFill()
		case 3:
			b.I32Const(0).I32Const(0).I32Const(0).MemoryCopy()
		case 4:
			b.I32Const(0).I32Const(0).I32Const(0).MemoryInit(0)
		default:
			b.DataDrop(0)
		}
		return
	}
	op := ops[k]
	for _, p := range op.Params {
		switch p {
		case wasmenc.I32:
			b.I32Const(0)
		case wasmenc.I64:
			b.I64Const(0)
		case wasmenc.F32:
			b.F32(0)
		case wasmenc.F64:
			b.F64(0)
		case wasmenc.V128:
			b.V128Const(0, 0)
		}
	}
	if op.Prefix == 0 {
		b.Raw(byte(op.Sub))
	} else {
		b.Raw(op.Prefix).Append(wasmenc.U32(op.Sub))
	}
	al := uint32(0)
	if op.Imm == wasmgen.ImmAtomic {
		for 1<<al < op.Width {
			al++
		}
	}
	b.Append(wasmenc.U32(al)).Append(wasmenc.U32(0))
	if op.Imm == wasmgen.ImmMemLane {
		b.Raw(0)
	}
	for range op.Results {
		b.Drop()
	}
}

func insMutation(t *rapid.T, m *wasmgen.Module) ([]byte, string) {
	in, op := wasmgen.MutateIns(t, m, false)
	evid.Label("instruction-mutation:"+op, 1)
	return in, "ins-" + op
}

func propSemantic(t *rapid.T) {
	f := featureSets[rapid.IntRange(1, 2).Draw(t, "feat")]
	gf, feats := genFeat(f)
	cfg := smallCfg(t, gf)
	cfg.MaxFuncs, cfg.MaxStmts, cfg.MaxDepth = rapid.IntRange(1, 4).Draw(t, "mf"), rapid.IntRange(2, 6).Draw(t, "ms"), rapid.IntRange(2, 5).Draw(t, "md")
	m := wasmgen.Generate(t, cfg)
	if rapid.IntRange(0, 2).Draw(t, "inslevel") == 0 {
		in, op := insMutation(t, m)
		c := &Case{Input: in, Features: uint64(feats), Origin: "semantic:" + op}
		evid.Journal(c)
		finish(t, c, RunCase(c))
		return
	}
	in, op, valid := semanticMutation(t, m.Enc)
	// (the typed kinds know whether their module is valid: a valid one must be accepted)
	c := &Case{Input: in, Features: uint64(feats), Origin: "semantic:" + op, Valid: valid}
	evid.Journal(c)
	finish(t, c, RunCase(c))
}

func propMutated(t *rapid.T) {
	seed, origin := seedBytes(t, "seed")
	var other []byte
	if rapid.Bool().Draw(t, "splice") {
		other, _ = seedBytes(t, "other")
	}
	in := seed
	ops := "unchanged"
	if rapid.IntRange(0, 9).Draw(t, "keep") > 0 {
		in, ops = mutate(t, seed, other)
	}
	c := &Case{Input: in, Features: uint64(drawFeatures(t)), Origin: origin + ":" + ops}
	evid.Journal(c)
	finish(t, c, RunCase(c))
}

func propRaw(t *rapid.T) {
	b := rapid.SliceOfN(rapid.Byte(), 0, 4096).Draw(t, "raw")
	if rapid.Bool().Draw(t, "header") {
		b = append([]byte{0, 'a', 's', 'm', 1, 0, 0, 0}, b...)
	}
	if rapid.IntRange(0, 3).Draw(t, "hostilecount") == 0 && len(b) >= 8 {
		// a section whose vector count is hostile
		id := byte(rapid.IntRange(0, 12).Draw(t, "secid"))
		cnt := leb(uint64(hostile32[rapid.IntRange(0, len(hostile32)-1).Draw(t, "cnt")]))
		body := append(cnt, rapid.SliceOfN(rapid.Byte(), 0, 16).Draw(t, "tail")...)
		b = append(append(append([]byte{}, b[:8]...), id), append(leb(uint64(len(body))), body...)...)
	}
	c := &Case{Input: b, Features: uint64(drawFeatures(t)), Origin: "raw"}
	evid.Journal(c)
	finish(t, c, RunCase(c))
}

func TestValidAccepted(t *testing.T) {
	if evid.ReplayPath() != "" {
		t.Skip()
	}
	evid.Check(t, "valid-accepted", evid.Scale(5000, 300000), propValid)
}

func TestMutated(t *testing.T) {
	if evid.ReplayPath() != "" {
		t.Skip()
	}
	evid.Check(t, "mutated", evid.Scale(8000, 1200000), propMutated)
}

func TestSemantic(t *testing.T) {
	if evid.ReplayPath() != "" {
		t.Skip()
	}
	evid.Check(t, "semantic-mutation", evid.Scale(6000, 500000), propSemantic)
}

func TestRaw(t *testing.T) {
	if evid.ReplayPath() != "" {
		t.Skip()
	}
	evid.Check(t, "raw", evid.Scale(4000, 400000), propRaw)
}

// TestKnownLocalsExpansion re-runs the specific input of finding C03-locals-expansion: one
// function declaring 2^22 i64 locals (a 29-byte module).
func TestKnownLocalsExpansion(t *testing.T) {
	if evid.ReplayPath() != "" {
		t.Skip()
	}
	if s, _ := evid.Shard(); s != 0 {
		t.Skip()
	}
	in := []byte{0, 'a', 's', 'm', 1, 0, 0, 0, 1, 4, 1, 0x60, 0, 0, 3, 2, 1, 0}
	body := append([]byte{1}, append(leb(1<<22), 0x7e, 0x0b)...)
	code := append([]byte{1}, append(leb(uint64(len(body))), body...)...)
	in = append(in, 10)
	in = append(in, leb(uint64(len(code)))...)
	in = append(in, code...)
	c := &Case{Input: in, Features: uint64(api.CoreFeaturesV2), Origin: "known:locals-expansion", Known: true}
	r := RunCase(c)
	switch {
	case r.finding != "":
		if evid.Finding("C03-locals-expansion", "known-locals-expansion", c, "%s", r.finding) {
			t.Fail()
		}
	case r.msg != "":
		evid.Violation("known-locals-expansion", c, "%s", r.msg)
		t.Fail()
	default:
		evid.Note("finding C03-locals-expansion no longer reproduces")
	}
	evid.Case(evid.Hash64(in), true, "origin:known")
}

// TestKnownReexportedHostFunction re-runs the specific input of finding
// C03-compiler-reexported-host-function: a guest that exports an imported host function; calling
// that export from Go panics with a Go runtime error on the compiler.
func TestKnownReexportedHostFunction(t *testing.T) {
	if evid.ReplayPath() != "" {
		t.Skip()
	}
	if s, _ := evid.Shard(); s != 0 {
		t.Skip()
	}
	ctx := context.Background()
	m := &wasmenc.Module{}
	h := m.ImportFunc("env", "h", []byte{wasmenc.I32}, []byte{wasmenc.I32})
	m.ExportFunc("h2", h)
	bin := m.Encode()
	for _, eng := range wz.Engines {
		rt := wazero.NewRuntimeWithConfig(ctx, wz.Config(eng))
		rt.NewHostModuleBuilder("env").NewFunctionBuilder().WithGoModuleFunction(api.GoModuleFunc(func(ctx context.Context, mod api.Module, s []uint64) { s[0] += 100 }),
			[]api.ValueType{api.ValueTypeI32}, []api.ValueType{api.ValueTypeI32}).Export("h").Instantiate(ctx)
		mod, err := rt.Instantiate(ctx, bin)
		if err != nil {
			t.Fatal(err)
		}
		var res []uint64
		var out wz.Outcome
		func() {
			defer func() {
				if r := recover(); r != nil {
					out = wz.Outcome{Kind: wz.KInternal, Detail: fmt.Sprintf("panic escaped ExportedFunction/Call: %v", r)}
				}
			}()
			res, out = wz.SafeCall(ctx, mod.ExportedFunction("h2"), 5)
		}()
		rt.Close(ctx)
		if out.Kind == wz.KInternal || (out.Kind == wz.KOK && (len(res) != 1 || res[0] != 105)) {
			c := &Case{Input: bin, Features: uint64(wz.AllFeatures), Origin: "known:reexported-host-function"}
			if evid.Finding("C03-compiler-reexported-host-function", "known-reexported-host-function", c,
				"calling an export that aliases an imported host function on the %s: %v %v", eng, out, res) {
				t.Fail()
			}
		}
	}
	// variant: the start function is an imported host function
	m2 := &wasmenc.Module{}
	h2 := m2.ImportFunc("env", "s", nil, nil)
	m2.Start = wasmenc.P(h2)
	bin2 := m2.Encode()
	for _, eng := range wz.Engines {
		rt := wazero.NewRuntimeWithConfig(ctx, wz.Config(eng))
		rt.NewHostModuleBuilder("env").NewFunctionBuilder().WithGoModuleFunction(api.GoModuleFunc(func(ctx context.Context, mod api.Module, s []uint64) {}), nil, nil).Export("s").Instantiate(ctx)
		var out wz.Outcome
		func() {
			defer func() {
				if r := recover(); r != nil {
					out = wz.Outcome{Kind: wz.KInternal, Detail: fmt.Sprintf("panic escaped Instantiate: %v", r)}
				}
			}()
			_, err := rt.Instantiate(ctx, bin2)
			out = wz.Classify(err)
		}()
		rt.Close(ctx)
		if out.Kind == wz.KInternal {
			c := &Case{Input: bin2, Features: uint64(wz.AllFeatures), Origin: "known:start-is-host-import"}
			if evid.Finding("C03-compiler-reexported-host-function", "known-reexported-host-function", c,
				"instantiating a module whose start function is an imported host function on the %s: %v", eng, out) {
				t.Fail()
			}
		}
	}
	evid.Case(evid.Hash64(bin, "reexport"), true, "origin:known")
}

func TestReplay(t *testing.T) {
	p := evid.ReplayPath()
	if p == "" {
		t.Skip()
	}
	var c Case
	if _, err := evid.LoadReplay(p, &c); err != nil {
		t.Fatal(err)
	}
	r := RunCase(&c)
	if r.finding != "" && evid.KnownOpen("C03-locals-expansion") {
		evid.KnownFinding("C03-locals-expansion", "%s", r.finding)
		return
	}
	if r.msg != "" || r.finding != "" {
		evid.Violation("replay", &c, "%s%s", r.msg, r.finding)
		t.Fatal(r.msg + r.finding)
	}
}

var _ = binary.LittleEndian
