package c03

import (
	"encoding/json"
	"fmt"
	"os"
	"path/filepath"
	"testing"

	"github.com/tetratelabs/wazero/api"

	"verif/internal/evid"
	"verif/internal/wz"
)

// FuzzCompile is the coverage-guided (native `go test -fuzz`) form of the property: arbitrary
// bytes under a feature set chosen by the first byte go through the same oracle as the rapid
// generators (RunCase: no panic, no runaway allocation or time, accepted modules instantiate
// and run without internal failures on both engines). It is started by the driver in the
// thorough tier only (check.json "fuzz"); a failing input is written as a replay file into
// VERIF_FUZZ_OUT, from where the driver reports it. Native fuzzing cannot be pinned to
// VERIF_SEED; the saved input is the reproducible unit.
func FuzzCompile(f *testing.F) {
	for _, p := range fuzzSeeds() {
		if b, err := os.ReadFile(p); err == nil && len(b) <= 1<<16 {
			f.Add(byte(2), b)
		}
	}
	f.Add(byte(0), []byte{0, 'a', 's', 'm', 1, 0, 0, 0})
	f.Fuzz(func(t *testing.T, feat byte, in []byte) {
		if len(in) > 1<<16 {
			return
		}
		fs := []api.CoreFeatures{api.CoreFeaturesV1, api.CoreFeaturesV2, wz.AllFeatures}[int(feat)%3]
		c := &Case{Input: in, Features: uint64(fs), Origin: "native-fuzz"}
		r := RunCase(c)
		if r.msg != "" {
			if dir := os.Getenv("VERIF_FUZZ_OUT"); dir != "" {
				b, _ := json.Marshal(map[string]any{"property": "C03", "check": "native-fuzz", "message": r.msg, "case": c})
				os.WriteFile(filepath.Join(dir, fmt.Sprintf("C03-fuzz-%016x.json", evid.Hash64(in, feat))), b, 0o644)
			}
			t.Fatalf("%s", r.msg)
		}
	})
}

// fuzzSeeds picks a few small valid modules of the repository as the starting corpus.
func fuzzSeeds() []string {
	cp := corpus()
	var out []string
	for i := 0; i < len(cp) && len(out) < 400; i += 1 + len(cp)/400 {
		out = append(out, cp[i])
	}
	return out
}
