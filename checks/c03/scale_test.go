package c03

import (
	"fmt"
	"testing"

	"pgregory.net/rapid"

	"verif/internal/evid"
	"verif/internal/wasmenc"
	"verif/internal/wz"
)

// Scaling: valid modules in which ONE kind of entity occurs a large, drawn number of times
// (functions, types, globals, exports, data / element segments, nested blocks, br_table targets,
// local groups, calls, operand-stack depth). The property bounds the cost of a compile by the
// input size ("never hangs or exhausts memory disproportionately to the input size"): RunCase's
// allocation (64 MiB + 4096 bytes per input byte) and time oracles apply, and the accepted module
// is executed on both engines. A cost that grows quadratically in the number of entities passes
// every small input and shows only here.

func scaleModule(t *rapid.T) ([]byte, string, int) {
	kind := rapid.SampledFrom([]string{"functions", "functions", "functions-with-blocks", "functions-with-blocks", "types", "globals", "exports", "data", "elems", "nested-blocks", "br_table", "local-groups", "calls", "stack-depth", "tables-slots"}).Draw(t, "scalekind")
	// log-uniform count
	k := uint(rapid.SampledFrom([]int{7, 9, 10, 11, 12, 12, 13, 13}).Draw(t, "log2"))
	n := 1<<k - rapid.SampledFrom([]int{0, 1, 1 << (k - 2), 1<<(k-1) - 1}).Draw(t, "less")
	m := &wasmenc.Module{}
	switch kind {
	case "functions", "functions-with-blocks":
		for i := 0; i < n; i++ {
			b := wasmenc.NewB()
			if kind == "functions-with-blocks" {
				b.Block().I32Const(int32(i)).BrIf(0).Loop().End().End()
			} else {
				b.I32Const(int32(i)).Drop()
			}
			f := m.AddFunc(nil, nil, nil, b.Bytes())
			if i%1000 == 0 {
				m.ExportFunc(fmt.Sprintf("f%d", i), f)
			}
		}
	case "types":
		vts := []byte{wasmenc.I32, wasmenc.I64, wasmenc.F32, wasmenc.F64}
		for i := 0; i < n; i++ {
			var p []byte
			for k, v := 0, i; k < 7; k, v = k+1, v/4 {
				p = append(p, vts[v%4])
			}
			m.Types = append(m.Types, wasmenc.FuncType{P: p})
		}
		m.ExportFunc("f", m.AddFunc(nil, nil, nil, wasmenc.NewB().Nop().Bytes()))
	case "globals":
		for i := 0; i < n; i++ {
			m.Globals = append(m.Globals, wasmenc.Global{Type: wasmenc.I64, Mut: i%2 == 0, Init: wasmenc.NewB().I64Const(int64(i)).Bytes()})
		}
		m.ExportFunc("f", m.AddFunc(nil, []byte{wasmenc.I64}, nil, wasmenc.NewB().GlobalGet(uint32(n-1)).Bytes()))
	case "exports":
		f := m.AddFunc(nil, nil, nil, wasmenc.NewB().Nop().Bytes())
		for i := 0; i < n; i++ {
			m.ExportFunc(fmt.Sprintf("e%d", i), f)
		}
	case "data":
		m.Mems = [][]byte{wasmenc.Limits(1, -1, false)}
		for i := 0; i < n; i++ {
			if i%2 == 0 {
				m.Datas = append(m.Datas, wasmenc.ActiveData(int32(i%60000), []byte{byte(i)}))
			} else {
				m.Datas = append(m.Datas, wasmenc.PassiveData([]byte{byte(i), 1}))
			}
		}
		m.DataCnt = true
		m.ExportFunc("f", m.AddFunc(nil, nil, nil, wasmenc.NewB().I32Const(0).I32Const(0).I32Const(1).MemoryInit(uint32(n-1-(n-1+1)%2)).Bytes()))
	case "elems":
		f := m.AddFunc(nil, nil, nil, wasmenc.NewB().Nop().Bytes())
		m.Tables = [][]byte{wasmenc.TableType(wasmenc.FuncRef, 8, -1)}
		for i := 0; i < n; i++ {
			if i%2 == 0 {
				m.Elems = append(m.Elems, wasmenc.ActiveElemFuncs(int32(i%8), []uint32{f}))
			} else {
				m.Elems = append(m.Elems, wasmenc.PassiveElemFuncs([]uint32{f, f}))
			}
		}
		m.ExportFunc("f", f)
	case "nested-blocks":
		if n > 2000 {
			n = 2000
		}
		b := wasmenc.NewB()
		for i := 0; i < n; i++ {
			if i%3 == 2 {
				b.Loop()
			} else {
				b.Block()
			}
		}
		b.Br(uint32(n - 1))
		for i := 0; i < n; i++ {
			b.End()
		}
		m.ExportFunc("f", m.AddFunc(nil, nil, nil, b.Bytes()))
	case "br_table":
		b := wasmenc.NewB().Block().Block().LocalGet(0)
		targets := make([]uint32, n)
		for i := range targets {
			targets[i] = uint32(i % 2)
		}
		b.BrTable(targets, 1).End().End()
		m.ExportFunc("f", m.AddFunc([]byte{wasmenc.I32}, nil, nil, b.Bytes()))
	case "local-groups":
		// n locals of alternating types: n declaration groups of one local each
		vts := []byte{wasmenc.I32, wasmenc.I64, wasmenc.F32, wasmenc.F64}
		locals := make([]byte, n)
		for i := range locals {
			locals[i] = vts[i%4]
		}
		m.ExportFunc("f", m.AddFunc(nil, []byte{wasmenc.I32}, locals, wasmenc.NewB().LocalGet(uint32(n-1)&^3).Bytes()))
	case "calls":
		g := m.AddFunc([]byte{wasmenc.I32}, []byte{wasmenc.I32}, nil, wasmenc.NewB().LocalGet(0).Bytes())
		b := wasmenc.NewB().I32Const(1)
		for i := 0; i < n; i++ {
			b.Call(g)
		}
		m.ExportFunc("f", m.AddFunc(nil, []byte{wasmenc.I32}, nil, b.Bytes()))
	case "stack-depth":
		if n > 4000 {
			n = 4000
		}
		b := wasmenc.NewB()
		for i := 0; i < n; i++ {
			b.I32Const(int32(i))
		}
		for i := 0; i < n-1; i++ {
			b.Raw(0x6a)
		}
		m.ExportFunc("f", m.AddFunc(nil, []byte{wasmenc.I32}, nil, b.Bytes()))
	default: // tables-slots: one big active element segment
		f := m.AddFunc(nil, nil, nil, wasmenc.NewB().Nop().Bytes())
		m.Tables = [][]byte{wasmenc.TableType(wasmenc.FuncRef, uint32(n), -1)}
		fs := make([]uint32, n)
		for i := range fs {
			fs[i] = f
		}
		m.Elems = append(m.Elems, wasmenc.ActiveElemFuncs(0, fs))
		m.ExportFunc("f", f)
	}
	return m.Encode(), kind, n
}

func propScaling(t *rapid.T) {
	in, kind, n := scaleModule(t)
	c := &Case{Input: in, Features: uint64(wz.AllFeatures), Origin: fmt.Sprintf("scaling:%s", kind), Valid: true}
	evid.Journal(c)
	r := RunCase(c)
	evid.Label(fmt.Sprintf("scaling:%s", kind), 1)
	if n >= 2048 {
		evid.Label("scaling-count>=2048", 1)
	}
	finish(t, c, r)
}

func TestScaling(t *testing.T) {
	if evid.ReplayPath() != "" {
		t.Skip()
	}
	evid.Check(t, "scaling", evid.Scale(160, 6000), propScaling)
}
