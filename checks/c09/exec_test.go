package c09

import (
	"fmt"

	"verif/internal/wz"
)

// result of executing one history in the main world and its twin.
type result struct {
	Violation string         // non-empty: the property was violated (message)
	Harness   string         // non-empty: the harness itself failed (not a verdict)
	Labels    map[string]int // execution-side counters
	probes    int
	instOK    []bool // per instance handle: really created
	cmOK      []bool // per compiled-module handle: really created
}

type runner struct {
	h     *history
	main  *world
	twin  *world
	names [2]map[string]int
	res   *result
	noGC  bool // sensitivity/self-test aid: ignore gc steps

	mainInstEver, mainCMEver []bool

	// cut: the main world legitimately answered a state-changing call with an exit error (the
	// callee was closed) while the twin performed it; the worlds differ from here on and the
	// rest of the history is not executed.
	cut bool
}

func sameObs(a, b obs) bool {
	if a.Out.Kind != b.Out.Kind || a.Out.Detail != b.Out.Detail || a.Out.Exit != b.Out.Exit || len(a.Res) != len(b.Res) {
		return false
	}
	for i := range a.Res {
		if a.Res[i] != b.Res[i] {
			return false
		}
	}
	return true
}

// traceOK: every frame the main world reports must be a frame of the twin's stack trace, in the
// same order (frames of functions of closed modules may be missing, nothing may be added).
func traceOK(m, t []string) bool {
	j := 0
	for _, f := range m {
		for j < len(t) && t[j] != f {
			j++
		}
		if j == len(t) {
			return false
		}
		j++
	}
	return true
}

func traceMsg(what string, m, t obs) string {
	if traceOK(m.Trace, t.Trace) {
		return ""
	}
	return fmt.Sprintf("%s answered %v like the twin, but its wasm stack trace lists frames that are not on the call chain:\n  main: %q\n  twin: %q", what, m, m.Trace, t.Trace)
}

// judge is the oracle for one observation: equal to the twin's, or an ordinary
// "module closed" error (sys.ExitError); an internal failure is never acceptable.
func (r *runner) judge(what string, m, t obs) string {
	if m.Out.Kind == wz.KInternal {
		return fmt.Sprintf("%s: internal failure: %v (twin history without close/drop/gc: %v)", what, m, t)
	}
	if sameObs(m, t) {
		return traceMsg(what, m, t)
	}
	if m.Out.Kind == wz.KExit {
		r.res.Labels["answer-is-exit-error"]++
		return ""
	}
	return fmt.Sprintf("%s answered %v, but in the twin history without close/drop/gc it answers %v", what, m, t)
}

// judgeStrict is for operations that touch nothing but a live instance's own state (moving a
// reference between live instances, calling a local function): not even an exit error is an
// acceptable difference there.
func (r *runner) judgeStrict(what string, m, t obs) string {
	if m.Out.Kind == wz.KInternal {
		return fmt.Sprintf("%s: internal failure: %v (twin history without close/drop/gc: %v)", what, m, t)
	}
	if sameObs(m, t) {
		return traceMsg(what, m, t)
	}
	return fmt.Sprintf("%s (which involves live instances only) answered %v, but in the twin history without close/drop/gc it answers %v", what, m, t)
}

func (r *runner) usable(h int) bool {
	return h >= 0 && h < len(r.main.insts) && r.main.insts[h] != nil
}

func (r *runner) live(h int) bool { return r.usable(h) && !r.main.insts[h].closed }

func (r *runner) rtOK(rt int) bool {
	return rt >= 0 && rt < 2 && r.main.rts[rt] != nil && r.main.rtOpen[rt]
}

func (r *runner) created(what string, s step, m obs, instHandle bool, name string, rt int, twinDo func() obs) (viol, harness string) {
	switch {
	case m.Out.Kind == wz.KOK:
		if t := twinDo(); t.Out.Kind != wz.KOK {
			return "", fmt.Sprintf("%s succeeded in the main world but failed in the twin: %v", what, t)
		}
		if instHandle {
			h := len(r.main.insts) - 1
			if name != "" {
				r.names[rt][name] = h
			}
			tag := uint64(h + 1)
			if o := r.main.call(h, "set_tag", tag); o.Out.Kind != wz.KOK {
				return fmt.Sprintf("%s: set_tag on the fresh instance failed: %v", what, o), ""
			}
			if o := r.twin.call(h, "set_tag", tag); o.Out.Kind != wz.KOK {
				return "", fmt.Sprintf("twin set_tag failed: %v", o)
			}
		}
	case m.Out.Kind == wz.KInternal:
		return fmt.Sprintf("%s: internal failure: %v", what, m), ""
	default:
		// An ordinary error creating something NEW is outside the property (it speaks about
		// live instances); the twin skips the step so that both worlds stay aligned.
		r.res.Labels["create-failed: "+m.Out.Detail]++
		if instHandle {
			r.twin.insts = append(r.twin.insts, nil)
		} else {
			r.twin.cms = append(r.twin.cms, nil)
		}
	}
	return "", ""
}

// failing: an instantiation whose start function traps is performed in BOTH worlds (it fails
// after its element segments were applied to imported tables, so it has effects) and must fail
// alike; neither world gets a usable handle.
func (r *runner) failing(what string, m obs, twinDo func() obs) (viol, harness string) {
	if m.Out.Kind == wz.KInternal {
		return fmt.Sprintf("%s: internal failure: %v", what, m), ""
	}
	if m.Out.Kind == wz.KOther {
		// an ordinary error that is not a trap: it failed before anything was applied (e.g. its
		// code is gone): nothing happened, the twin skips it
		r.res.Labels["create-failed: "+m.Out.Detail]++
		r.twin.insts = append(r.twin.insts, nil)
		return "", ""
	}
	t := twinDo()
	if t.Out.Kind == wz.KOK {
		return "", what + ": a module whose start function traps was instantiated in the twin"
	}
	if m.Out.Kind == wz.KOK {
		return what + ": a module whose start function traps was instantiated (the twin fails with " + t.String() + ")", ""
	}
	r.res.Labels["instantiation-failed-in-start-after-element-segments"]++
	return r.judge(what, m, t), ""
}

func (r *runner) skipHandle(inst bool) {
	if inst {
		r.main.insts = append(r.main.insts, nil)
		r.twin.insts = append(r.twin.insts, nil)
	} else {
		r.main.cms = append(r.main.cms, nil)
		r.twin.cms = append(r.twin.cms, nil)
	}
	r.res.Labels["step-skipped-missing-handle"]++
}

func (r *runner) unname(h int) {
	ih := r.main.insts[h]
	if ih.name != "" && r.names[ih.rt][ih.name] == h {
		delete(r.names[ih.rt], ih.name)
	}
}

func (r *runner) do(i int, s step) (viol, harness string) {
	m, t := r.main, r.twin
	what := fmt.Sprintf("step %d %v", i, s)
	switch s.Op {
	case "compile":
		if !r.rtOK(s.RT) || s.Spec < 0 || s.Spec >= len(m.bins) {
			r.skipHandle(false)
			return
		}
		return r.created(what, s, m.compile(s.RT, s.Spec), false, "", s.RT, func() obs { return t.compile(s.RT, s.Spec) })
	case "inst":
		if s.CM < 0 || s.CM >= len(m.cms) || m.cms[s.CM] == nil || !r.rtOK(m.cms[s.CM].rt) {
			r.skipHandle(true)
			return
		}
		if r.h.Specs[m.cms[s.CM].spec].StartTrap {
			return r.failing(what, m.instantiate(s.CM, s.Name), func() obs { return t.instantiate(s.CM, s.Name) })
		}
		return r.created(what, s, m.instantiate(s.CM, s.Name), true, s.Name, m.cms[s.CM].rt, func() obs { return t.instantiate(s.CM, s.Name) })
	case "instbytes":
		if !r.rtOK(s.RT) || s.Spec < 0 || s.Spec >= len(m.bins) {
			r.skipHandle(true)
			return
		}
		if r.h.Specs[s.Spec].StartTrap {
			return r.failing(what, m.instBytes(s.RT, s.Spec, s.Name), func() obs { return t.instBytes(s.RT, s.Spec, s.Name) })
		}
		return r.created(what, s, m.instBytes(s.RT, s.Spec, s.Name), true, s.Name, s.RT, func() obs { return t.instBytes(s.RT, s.Spec, s.Name) })
	case "call":
		if !r.usable(s.Inst) {
			return
		}
		return r.judge(what, m.call(s.Inst, s.Fn, argsOf(s.Fn, s.Arg)...), t.call(s.Inst, s.Fn, argsOf(s.Fn, s.Arg)...)), ""
	case "move":
		if !r.live(s.Inst) || !r.live(s.To) || m.insts[s.Inst].rt != m.insts[s.To].rt {
			return
		}
		om, ot := m.move(s), t.move(s)
		if ot.Out.Kind != wz.KOK {
			return "", fmt.Sprintf("%s failed in the twin: %v", what, ot)
		}
		return r.judgeStrict(what, om, ot), ""
	case "mem":
		n, known := memFns[s.Fn]
		if !r.live(s.Inst) || !known {
			return
		}
		args := []uint64{uint64(s.Arg), uint64(s.Val)}[:n]
		om, ot := m.call(s.Inst, s.Fn, args...), t.call(s.Inst, s.Fn, args...)
		if _, forwarded := baseOf[s.Fn]; !forwarded {
			return r.judgeStrict(what, om, ot), ""
		}
		if msg := r.judge(what, om, ot); msg != "" {
			return msg, ""
		}
		if !sameObs(om, ot) {
			r.cut = true
			r.res.Labels["history-cut-after-exit-error-of-state-changing-call"]++
		}
	case "long":
		if !r.live(s.Inst) {
			m.calls = append(m.calls, &callH{finished: true, result: obs{Out: wz.Outcome{Kind: "skipped"}}})
			t.calls = append(t.calls, &callH{finished: true, result: obs{Out: wz.Outcome{Kind: "skipped"}}})
			return
		}
		if msg := m.startLong(s.Inst, s.Arg); msg != "" {
			return fmt.Sprintf("%s: %s", what, msg), ""
		}
		if msg := t.startLong(s.Inst, s.Arg); msg != "" {
			return "", fmt.Sprintf("%s (twin): %s", what, msg)
		}
	case "resume":
		if s.Call < 0 || s.Call >= len(m.calls) {
			return
		}
		om, msg := m.resume(s.Call)
		if msg != "" {
			return fmt.Sprintf("%s: %s", what, msg), ""
		}
		ot, msg := t.resume(s.Call)
		if msg != "" {
			return "", fmt.Sprintf("%s (twin): %s", what, msg)
		}
		return r.judge(what+" (suspended call returned)", om, ot), ""
	case "close":
		if !r.live(s.Inst) {
			return
		}
		r.unname(s.Inst)
		if o := m.closeInst(s.Inst); o.Out.Kind == wz.KInternal {
			return fmt.Sprintf("%s: internal failure: %v", what, o), ""
		}
	case "closecm":
		if s.CM < 0 || s.CM >= len(m.cms) || m.cms[s.CM] == nil || m.cms[s.CM].closed {
			return
		}
		m.cms[s.CM].closed = true
		if o := m.closeCM(s.CM); o.Out.Kind == wz.KInternal {
			return fmt.Sprintf("%s: internal failure: %v", what, o), ""
		}
	case "closert":
		if !r.rtOK(s.RT) {
			return
		}
		r.names[s.RT] = map[string]int{}
		if o := m.closeRT(s.RT); o.Out.Kind == wz.KInternal {
			return fmt.Sprintf("%s: internal failure: %v", what, o), ""
		}
	case "closecache":
		if m.cache == nil || m.cacheClosed {
			return
		}
		m.cacheClosed = true
		if o := m.closeCache(); o.Out.Kind == wz.KInternal {
			return fmt.Sprintf("%s: internal failure: %v", what, o), ""
		}
	case "drop":
		if r.usable(s.Inst) && m.insts[s.Inst].closed {
			m.insts[s.Inst] = nil
		}
	case "dropcm":
		if s.CM >= 0 && s.CM < len(m.cms) && m.cms[s.CM] != nil && m.cms[s.CM].closed {
			m.cms[s.CM] = nil
		}
	case "droprt":
		if s.RT >= 0 && s.RT < 2 && m.rts[s.RT] != nil && !m.rtOpen[s.RT] {
			m.rts[s.RT] = nil
		}
	case "dropall":
		for h, ih := range m.insts {
			if ih != nil && ih.closed {
				m.insts[h] = nil
			}
		}
		for h, c := range m.cms {
			if c != nil && c.closed {
				m.cms[h] = nil
			}
		}
		for k := range m.rts {
			if m.rts[k] != nil && !m.rtOpen[k] {
				m.rts[k] = nil
			}
		}
		if m.cacheClosed {
			m.cache = nil
		}
	case "gc":
		if !r.noGC {
			if n := forceGC(s.Churn); n > 0 {
				r.res.Labels["gc-sentinel-timeout"] += n
			}
		}
	}
	return
}

func argsOf(fn string, arg int) []uint64 {
	for _, p := range probeExports {
		if p.Name == fn && !p.Arg {
			return nil
		}
	}
	return []uint64{uint64(arg)}
}

// probe calls every read-only export of every surviving instance in both worlds.
func (r *runner) probe(i int, s step) string {
	for h := range r.main.insts {
		if !r.live(h) {
			continue
		}
		for _, p := range probeExports {
			n := 1
			if p.Arg {
				n = tableSlots
			}
			for a := 0; a < n; a++ {
				var args []uint64
				if p.Arg {
					args = []uint64{uint64(a)}
				}
				om, ot := r.main.call(h, p.Name, args...), r.twin.call(h, p.Name, args...)
				r.res.probes++
				what := fmt.Sprintf("after step %d %v: probe i%d.%s%v of a surviving instance", i, s, h, p.Name, args)
				var msg string
				if p.Local {
					msg = r.judgeStrict(what, om, ot)
				} else {
					msg = r.judge(what, om, ot)
				}
				if msg != "" {
					return msg
				}
			}
		}
	}
	return ""
}

// runHistory executes h in the main world and in the twin.
func runHistory(h *history, noGC bool) *result {
	res := &result{Labels: map[string]int{}}
	wdStart(h)
	r := &runner{h: h, res: res, noGC: noGC}
	r.names[0], r.names[1] = map[string]int{}, map[string]int{}
	var err error
	if r.main, err = newWorld(h, false, &r.names); err != nil {
		res.Harness = "main world: " + err.Error()
		return res
	}
	if r.twin, err = newWorld(h, true, &r.names); err != nil {
		res.Harness = "twin world: " + err.Error()
		return res
	}
	defer func() {
		r.main.shutdown()
		r.twin.shutdown()
		r.main, r.twin = nil, nil
	}()
	defer func() {
		// what really came into existence (compared with the generator's model by the caller)
		for _, ih := range r.mainInstEver {
			res.instOK = append(res.instOK, ih)
		}
		for _, c := range r.mainCMEver {
			res.cmOK = append(res.cmOK, c)
		}
	}()
	for i, s := range h.Steps {
		ni, nc := len(r.main.insts), len(r.main.cms)
		res.Violation, res.Harness = r.do(i, s)
		for k := ni; k < len(r.main.insts); k++ {
			r.mainInstEver = append(r.mainInstEver, r.main.insts[k] != nil)
		}
		for k := nc; k < len(r.main.cms); k++ {
			r.mainCMEver = append(r.mainCMEver, r.main.cms[k] != nil)
		}
		if res.Violation != "" || res.Harness != "" || r.cut {
			return res
		}
		if res.Violation = r.probe(i, s); res.Violation != "" {
			return res
		}
	}
	// calls still suspended at the end are resumed and judged as well
	for c := range r.main.calls {
		if r.main.calls[c].finished {
			continue
		}
		om, msg := r.main.resume(c)
		if msg != "" {
			res.Violation = fmt.Sprintf("end of history: call%d: %s", c, msg)
			return res
		}
		ot, msg := r.twin.resume(c)
		if msg != "" {
			res.Harness = fmt.Sprintf("end of history: twin call%d: %s", c, msg)
			return res
		}
		if res.Violation = r.judge(fmt.Sprintf("end of history: suspended call%d returned", c), om, ot); res.Violation != "" {
			return res
		}
	}
	return res
}
