package c09

import (
	"fmt"
	"sort"

	"pgregory.net/rapid"
)

// The model tracks, from the steps alone, what exists, who holds which function reference
// and which instances wazero keeps reachable. It is used (1) to generate only applicable
// steps, (2) to exclude the class of the known finding by construction and (3) to decide
// whether a history is non-trivial. It never decides a verdict.

type mTable struct {
	slots    [tableSlots]int  // owner instance of the reference in the slot, -1 = null
	traps    [tableSlots]bool // the slot holds the function that always traps (labels only)
	involved []int            // instances that export or import this table (empty: never exported)
}

type mGlob struct {
	owner   int // owner instance of the reference held, -1 = null
	definer int // instance that defines the global
	traps   bool
}

type mMem struct {
	definer  int // instance that defines the memory (MemoryInstance.ownerModuleEngine keeps it reachable)
	lastGrow int // step of the last successful memory.grow, -1 none
	pages    int
}

type mInst struct {
	ok       bool // the model believes the instance was created
	spec     int
	rt       int
	cm       int // -1: created by InstantiateWithConfig (its code closes with it)
	name     string
	closed   bool
	dropped  bool
	closedAt int
	dropAt   int
	tab0     *mTable
	tab1     *mTable
	glob     *mGlob
	impFrom  int  // instance the function import is bound to, -1 none
	globFrom int  // instance the funcref global is imported from, -1 none
	handed   bool // handed out a reference it does not own to a holder that does not keep it alive
	mem      *mMem
	memFrom  int  // definer of the imported memory, -1 own
	ghost    bool // instantiation failed in the start function: no handle, no name, but its element segments were applied and imported tables list it
	elemDrop bool // the passive element segment was dropped
	dataDrop bool
}

type mCM struct {
	ok       bool
	rt       int
	spec     int
	closed   bool
	dropped  bool
	closedAt int
}

type mCall struct {
	inst     int
	finished bool
}

type model struct {
	cfg          config
	specs        []modSpec
	rtClosed     [2]bool
	rtDropped    [2]bool
	rtClosedAt   [2]int
	cacheClosed  bool
	cacheDropped bool
	cacheAt      int
	cms          []*mCM
	insts        []*mInst
	calls        []*mCall
	names        [2]map[string]int
	codeGone     map[[2]int]bool // (engine, spec): the engine's cache entry was deleted by closing a sibling
	n            int             // steps applied
	lastGC       int
	dirty        bool // something was dropped since the last gc
	labels       map[string]bool
	nontrivial   bool
}

func newModel(cfg config, specs []modSpec) *model {
	m := &model{cfg: cfg, specs: specs, lastGC: -1, labels: map[string]bool{}, codeGone: map[[2]int]bool{}}
	m.names[0], m.names[1] = map[string]int{}, map[string]int{}
	if !cfg.TwoRT {
		m.rtClosed[1], m.rtDropped[1] = true, true
		m.rtClosedAt[1] = -1
	}
	return m
}

func (m *model) engineOf(rt int) int {
	if m.cfg.Cache {
		return 0
	}
	return rt
}

func (m *model) rtUsable(rt int) bool {
	return !m.rtClosed[rt] && !(m.cfg.Cache && m.cacheClosed)
}

// resolvable reports whether spec's imports resolve in runtime rt right now.
func (m *model) resolvable(rt int, sp modSpec) bool {
	need := func(name string, tab, glob bool) bool {
		if name == "" {
			return true
		}
		h, ok := m.names[rt][name]
		if !ok {
			return false
		}
		es := m.specs[m.insts[h].spec]
		return (!tab || es.ExpTab) && (!glob || es.ExpGlob)
	}
	if sp.Tab1From != "" {
		h, ok := m.names[rt][sp.Tab1From]
		if !ok || !m.specs[m.insts[h].spec].ExpTab1 {
			return false
		}
	}
	return need(sp.ImpFrom, false, false) && need(sp.TabFrom, true, false) && need(sp.GlobFrom, false, true) && need(sp.MemFrom, false, false)
}

func (m *model) live(h int) bool {
	return h >= 0 && h < len(m.insts) && m.insts[h].ok && !m.insts[h].closed
}

func (m *model) addInst(rt, spec, cm int, name string) {
	sp := m.specs[spec]
	in := &mInst{spec: spec, rt: rt, cm: cm, name: name, impFrom: -1, globFrom: -1, memFrom: -1}
	h := len(m.insts)
	m.insts = append(m.insts, in)
	if !m.rtUsable(rt) || !m.resolvable(rt, sp) || (name != "" && m.hasName(rt, name)) {
		return
	}
	in.ok = true
	if sp.ImpFrom != "" {
		in.impFrom = m.names[rt][sp.ImpFrom]
	}
	if sp.TabFrom != "" {
		in.tab0 = m.insts[m.names[rt][sp.TabFrom]].tab0
		in.tab0.involved = append(in.tab0.involved, h)
	} else {
		in.tab0 = &mTable{slots: [tableSlots]int{-1, -1, -1}}
	}
	if sp.ExpTab {
		in.tab0.involved = append(in.tab0.involved, h)
	}
	if sp.Tab1From != "" {
		in.tab1 = m.insts[m.names[rt][sp.Tab1From]].tab1
		in.tab1.involved = append(in.tab1.involved, h)
	} else {
		in.tab1 = &mTable{slots: [tableSlots]int{-1, -1, -1}}
	}
	if sp.ExpTab1 {
		in.tab1.involved = append(in.tab1.involved, h)
	}
	for _, x := range append(append([]int{}, in.tab0.involved...), in.tab1.involved...) {
		// some owner exports two tables and each has an importer of its own
		o := m.insts[x]
		if o.ok && len(o.tab0.involved) > 1 && len(o.tab1.involved) > 1 && o.tab0 != o.tab1 && m.specs[o.spec].ExpTab && m.specs[o.spec].ExpTab1 && o.tab0.involved[0] == x {
			m.labels["owner-of-two-exported-tables-each-with-importers"] = true
		}
	}
	if sp.Elem1 >= 1 && sp.Elem1 <= tableSlots {
		in.tab1.slots[sp.Elem1-1] = h
		in.tab1.traps[sp.Elem1-1] = false
	}
	if sp.GlobFrom != "" {
		// the imported global may itself be a re-export: what the compiler keeps reachable is
		// the instance that DEFINES the global (GlobalInstance.Me)
		src := m.insts[m.names[rt][sp.GlobFrom]]
		in.glob = src.glob
		in.globFrom = in.glob.definer
	} else {
		in.glob = &mGlob{owner: -1, definer: h}
	}
	if sp.MemFrom != "" {
		in.mem = m.insts[m.names[rt][sp.MemFrom]].mem
		in.memFrom = in.mem.definer
	} else {
		in.mem = &mMem{definer: h, lastGrow: -1, pages: 1}
	}
	if sp.GlobFrom == "" {
		switch {
		case sp.GlobInit == 2 && sp.ImpFrom != "":
			in.glob.owner = m.importedRefOwner(h)
		case sp.GlobInit >= 1:
			in.glob.owner = h
		}
	}
	if sp.Elem >= 0 && sp.Elem < tableSlots {
		in.tab0.slots[sp.Elem] = h
		if sp.ElemImp && sp.ImpFrom != "" {
			in.tab0.slots[sp.Elem] = m.importedRefOwner(h)
		}
	}
	if sp.StartTrap {
		in.ghost, in.closed, in.dropped, in.closedAt, in.dropAt, m.dirty = true, true, true, m.n, m.n, true
		m.labels["failed-instantiation-left-functions-in-imported-table"] = true
		if cm < 0 {
			m.codeGone[[2]int{m.engineOf(rt), spec}] = true // InstantiateWithConfig closes its code on failure
		}
		return
	}
	if name != "" {
		m.names[rt][name] = h
	}
}

// importedRefOwner: who owns the function record behind a reference to the function that
// instance h imports (ref.func at run time, an element segment or a global initialiser naming
// the imported index). The compiler asks the DEFINING instance's engine for the reference; the
// interpreter points into the importer's own function array.
func (m *model) importedRefOwner(h int) int {
	if in := m.insts[h]; m.cfg.Engine == "compiler" && in.impFrom >= 0 {
		return in.impFrom
	}
	return h
}

// ownerOf is the owner of the reference a move step would fetch.
func (m *model) ownerOf(s step) int {
	switch s.Src {
	case "func":
		if s.K == 2 {
			return m.importedRefOwner(s.Inst)
		}
		return s.Inst
	case "slot":
		return m.table(s.Inst, s.K).slots[s.Slot]
	case "glob":
		return m.insts[s.Inst].glob.owner
	}
	return -1
}

func (m *model) hasName(rt int, name string) bool {
	_, ok := m.names[rt][name]
	return ok
}

func (m *model) closeInst(h int) {
	in := m.insts[h]
	if !in.ok || in.closed {
		return
	}
	in.closed, in.closedAt = true, m.n
	if in.name != "" && m.names[in.rt][in.name] == h {
		delete(m.names[in.rt], in.name)
	}
	if in.cm < 0 {
		m.codeGone[[2]int{m.engineOf(in.rt), in.spec}] = true
	}
}

func (m *model) table(h, t int) *mTable {
	if t == 0 {
		return m.insts[h].tab0
	}
	return m.insts[h].tab1
}

// apply updates the model with step s (mirrors runner.do).
func (m *model) apply(s step) {
	defer func() { m.n++ }()
	switch s.Op {
	case "compile":
		c := &mCM{rt: s.RT, spec: s.Spec}
		m.cms = append(m.cms, c)
		if m.rtUsable(s.RT) {
			c.ok = true
			delete(m.codeGone, [2]int{m.engineOf(s.RT), s.Spec})
		} else if !m.rtClosed[s.RT] {
			m.labels["compile-on-open-runtime-after-its-cache-was-closed"] = true
		}
	case "inst":
		if s.CM < len(m.cms) && m.cms[s.CM].ok && !m.cms[s.CM].closed {
			c := m.cms[s.CM]
			if m.codeGone[[2]int{m.engineOf(c.rt), c.spec}] {
				// On this tree the instantiation fails ("source module must be compiled before
				// instantiation"); whether it does is none of the model's business: the
				// instance is treated as unknown (never used by later steps; the generator
				// makes it anonymous so that it cannot take a name either).
				m.labels["inst-after-sibling-code-closed"] = true
				m.insts = append(m.insts, &mInst{impFrom: -1, globFrom: -1, memFrom: -1})
			} else {
				m.addInst(c.rt, c.spec, s.CM, s.Name)
			}
		} else {
			m.insts = append(m.insts, &mInst{impFrom: -1, globFrom: -1, memFrom: -1})
		}
	case "instbytes":
		m.addInst(s.RT, s.Spec, -1, s.Name)
		if in := m.insts[len(m.insts)-1]; in.ok {
			delete(m.codeGone, [2]int{m.engineOf(s.RT), s.Spec})
		}
	case "call":
		if s.Inst < len(m.insts) && m.insts[s.Inst].ok && m.insts[s.Inst].closed && !m.insts[s.Inst].dropped {
			m.labels["call-on-closed-held-instance"] = true
		}
	case "move":
		if !m.live(s.Inst) || !m.live(s.To) || m.insts[s.Inst].rt != m.insts[s.To].rt {
			return
		}
		owner := m.ownerOf(s)
		traps := (s.Src == "func" && s.K == 3) || (s.Src == "slot" && m.table(s.Inst, s.K).traps[s.Slot]) || (s.Src == "glob" && m.insts[s.Inst].glob.traps)
		if s.Dst == "slot" {
			m.table(s.To, s.DTbl).slots[s.DSlot] = owner
			m.table(s.To, s.DTbl).traps[s.DSlot] = traps
		} else {
			m.insts[s.To].glob.owner = owner
			m.insts[s.To].glob.traps = traps
		}
		if owner >= 0 && owner != s.To {
			m.labels["foreign-reference-stored"] = true
		}
		if owner >= 0 && owner != s.Inst && !m.closure(s.To)[s.Inst] {
			// the reference designates a function of another instance than the one that handed it
			// out, and its new holder does not keep the hander alive: the reference must outlive
			// the hander (e.g. an importer passing ref.func of its import back to the definer)
			m.insts[s.Inst].handed = true
			m.labels["reference-must-outlive-the-instance-that-handed-it-out"] = true
		}
	case "mem":
		if !m.live(s.Inst) {
			return
		}
		exec, fn := s.Inst, s.Fn
		if b, ok := baseOf[s.Fn]; ok {
			fn = b
			if m.insts[s.Inst].impFrom >= 0 {
				exec = m.insts[s.Inst].impFrom
			}
		}
		ex := m.insts[exec]
		switch fn {
		case "tinit":
			if !ex.elemDrop && s.Arg >= 0 && s.Arg < tableSlots {
				ex.tab0.slots[s.Arg] = exec // f1 of the executing instance, from its passive segment
				ex.tab0.traps[s.Arg] = false
			}
		case "edrop":
			ex.elemDrop = true
		case "ddrop":
			ex.dataDrop = true
		case "mgrow":
			if s.Arg > 0 && ex.mem.pages+s.Arg <= 3 {
				ex.mem.pages += s.Arg
				ex.mem.lastGrow = m.n
				if d := m.insts[ex.mem.definer]; d.closed && exec != ex.mem.definer {
					m.labels["memory-grown-by-survivor-after-definer-closed"] = true
				}
			}
		}
		if exec != s.Inst && ex.closed {
			m.labels["state-changing-code-of-closed-instance-run-by-importer"] = true
			if ex.closedAt < m.lastGC && (fn == "minit" || fn == "tinit" || fn == "ddrop" || fn == "edrop") {
				m.labels["passive-segment-of-closed-instance-used-after-gc"] = true
				m.nontrivial = true
			}
		}
	case "long":
		c := &mCall{inst: s.Inst, finished: !m.live(s.Inst)}
		m.calls = append(m.calls, c)
	case "resume":
		if s.Call < len(m.calls) && !m.calls[s.Call].finished {
			c := m.calls[s.Call]
			c.finished = true
			in := m.insts[c.inst]
			if in.closed {
				m.labels["resume-after-close"] = true
				if in.closedAt < m.lastGC {
					m.labels["resume-after-close-gc"] = true
					m.nontrivial = true
				}
			}
		}
	case "close":
		if s.Inst < len(m.insts) {
			m.closeInst(s.Inst)
		}
	case "closecm":
		if s.CM < len(m.cms) && m.cms[s.CM].ok && !m.cms[s.CM].closed {
			c := m.cms[s.CM]
			c.closed, c.closedAt = true, m.n
			m.codeGone[[2]int{m.engineOf(c.rt), c.spec}] = true
		}
	case "closert":
		if !m.rtClosed[s.RT] {
			m.rtClosed[s.RT], m.rtClosedAt[s.RT] = true, m.n
			for h, in := range m.insts {
				if in.ok && in.rt == s.RT {
					m.closeInst(h)
				}
			}
			m.names[s.RT] = map[string]int{}
		}
	case "closecache":
		if m.cfg.Cache && !m.cacheClosed {
			m.cacheClosed, m.cacheAt = true, m.n
		}
	case "drop":
		if s.Inst < len(m.insts) {
			m.dropInst(s.Inst)
		}
	case "dropcm":
		if s.CM < len(m.cms) && m.cms[s.CM].ok && m.cms[s.CM].closed {
			m.cms[s.CM].dropped, m.dirty = true, true
		}
	case "droprt":
		if m.rtClosed[s.RT] {
			m.rtDropped[s.RT], m.dirty = true, true
		}
	case "dropall":
		for h := range m.insts {
			m.dropInst(h)
		}
		for _, c := range m.cms {
			if c.ok && c.closed {
				c.dropped = true
			}
		}
		for k := range m.rtClosed {
			if m.rtClosed[k] {
				m.rtDropped[k] = true
			}
		}
		if m.cacheClosed {
			m.cacheDropped = true
		}
		m.dirty = true
	case "gc":
		m.lastGC, m.dirty = m.n, false
	}
	m.observe()
}

func (m *model) dropInst(h int) {
	in := m.insts[h]
	if in.ok && in.closed && !in.dropped {
		in.dropped, in.dropAt, m.dirty = true, m.n, true
	}
}

// collected: closed, then dropped, then a gc step.
func (m *model) collected(h int) bool {
	in := m.insts[h]
	return in.ok && in.closed && in.dropped && in.dropAt < m.lastGC
}

// observe records which kinds of "close -> drop -> gc -> use" the probes after this step exercise.
func (m *model) observe() {
	for h, in := range m.insts {
		if !m.live(h) {
			continue
		}
		reach := func(x int, how string) {
			if x >= 0 && x != h && m.collected(x) {
				m.labels["use-reaches-collected-instance-via-"+how] = true
				m.nontrivial = true
			}
		}
		for x, xi := range m.insts {
			if xi.handed && x != h && m.collected(x) {
				m.labels["use-after-hander-of-foreign-reference-collected"] = true
			}
		}
		if a := in.impFrom; a >= 0 && m.insts[a].closed && m.insts[a].mem.lastGrow > m.insts[a].closedAt {
			m.labels["code-of-closed-instance-sees-memory-grown-after-its-close"] = true
			m.nontrivial = true
		}
		// a trap inside code whose compiled module was deleted from the engine, reached without
		// a direct function import: the stack trace must be built without the engine's registry
		codeGone := func(x int) bool {
			xi := m.insts[x]
			return (xi.cm >= 0 && m.cms[xi.cm].closed) || (xi.cm < 0 && xi.closed) || (m.cfg.Cache && m.cacheClosed)
		}
		trapVia := func(o int, traps bool, how string) {
			if traps && o >= 0 && o != h && o != in.impFrom && codeGone(o) {
				m.labels["trap-in-code-of-deleted-compiled-module-reached-via-"+how] = true
				m.nontrivial = true
			}
		}
		for k, o := range in.tab0.slots {
			trapVia(o, in.tab0.traps[k], "table")
		}
		for k, o := range in.tab1.slots {
			trapVia(o, in.tab1.traps[k], "table")
		}
		trapVia(in.glob.owner, in.glob.traps, "global")
		if a := in.impFrom; a >= 0 {
			// xtrap: the trap happens at the end of the import chain
			end := a
			for m.insts[end].impFrom >= 0 {
				end = m.insts[end].impFrom
			}
			if end != a && codeGone(end) {
				m.labels["trap-in-code-of-deleted-compiled-module-reached-via-import-of-import"] = true
				m.nontrivial = true
			}
		}
		reach(in.impFrom, "import")
		for _, o := range in.tab0.slots {
			if len(in.tab0.involved) > 0 {
				reach(o, "shared-table")
			} else {
				reach(o, "private-table")
			}
		}
		for _, o := range in.tab1.slots {
			if len(in.tab1.involved) > 0 {
				reach(o, "second-shared-table")
			} else {
				reach(o, "private-table")
			}
		}
		reach(in.glob.owner, "global")
		if in.cm >= 0 {
			if c := m.cms[in.cm]; c.closed && c.dropped && c.closedAt < m.lastGC {
				m.labels["use-after-own-compiled-module-closed-gc"] = true
				m.nontrivial = true
			}
		}
		if m.cfg.Cache && m.cacheClosed && m.cacheAt < m.lastGC {
			m.labels["use-after-cache-closed-gc"] = true
			m.nontrivial = true
		}
		if m.cfg.TwoRT && m.rtClosed[1-in.rt] && m.rtDropped[1-in.rt] && m.rtClosedAt[1-in.rt] < m.lastGC && m.rtClosedAt[1-in.rt] >= 0 {
			m.labels["use-after-other-runtime-closed-gc"] = true
			if m.cfg.Cache {
				m.nontrivial = true
			}
		}
	}
}

// retained computes the instances wazero keeps reachable: instances still registered in a
// store (not closed), instances the harness still references (not dropped), and from those
// transitively the instances their function imports are bound to, every instance involved
// (exporter/importers) in a table they use and, with the compiler only, the instance an
// imported global belongs to. An instance with a suspended call counts as well (the goroutine
// stack references it, and the call uses its tables when it resumes).
func (m *model) retained(callsAreRoots bool) map[int]bool {
	var roots []int
	for h, in := range m.insts {
		if in.ok && !(in.closed && in.dropped) {
			roots = append(roots, h)
		}
	}
	for _, c := range m.calls {
		if callsAreRoots && !c.finished {
			roots = append(roots, c.inst) // the suspended call will use the instance's tables when it resumes
		}
	}
	return m.closureOf(roots)
}

// closure is what instance h alone keeps reachable (including itself).
func (m *model) closure(h int) map[int]bool { return m.closureOf([]int{h}) }

func (m *model) closureOf(roots []int) map[int]bool {
	ret := map[int]bool{}
	var work []int
	add := func(h int) {
		if h >= 0 && m.insts[h].ok && !ret[h] {
			ret[h] = true
			work = append(work, h)
		}
	}
	for _, h := range roots {
		add(h)
	}
	for len(work) > 0 {
		h := work[len(work)-1]
		work = work[:len(work)-1]
		in := m.insts[h]
		add(in.impFrom)
		add(in.memFrom) // MemoryInstance.ownerModuleEngine (both engines)
		if m.cfg.Engine == "compiler" {
			// an imported global points to the module engine of its owner (GlobalInstance.Me);
			// the interpreter keeps global values in the GlobalInstance itself
			add(in.globFrom)
		}
		for _, x := range in.tab0.involved {
			add(x)
		}
		for _, x := range in.tab1.involved {
			add(x)
		}
	}
	return ret
}

// escaped reports whether some retained instance holds, in a table slot or the funcref
// global, a reference owned by an instance that is NOT retained (the known finding's class).
func (m *model) escaped() (bool, string) {
	// Suspended calls return one by one, so any subset of them may still be on its stack:
	// a holder counts if it is reachable with ALL suspended calls as roots, and the creator of
	// a reference it holds must be reachable with NONE of them (reachability is monotone in the
	// root set, so this covers every subset).
	holders, safe := m.retained(true), m.retained(false)
	hs := make([]int, 0, len(holders))
	for h := range holders {
		hs = append(hs, h)
	}
	sort.Ints(hs)
	for _, h := range hs {
		in := m.insts[h]
		chk := func(o int, where string) string {
			// fine if its creator is reachable in any case, or is kept reachable by the holder itself
			if o >= 0 && !safe[o] && !m.closure(h)[o] {
				return fmt.Sprintf("reference of i%d held in %s of i%d", o, where, h)
			}
			return ""
		}
		for _, o := range in.tab0.slots {
			if s := chk(o, "table 0"); s != "" {
				return true, s
			}
		}
		for _, o := range in.tab1.slots {
			if s := chk(o, "table 1"); s != "" {
				return true, s
			}
		}
		if s := chk(in.glob.owner, "the funcref global"); s != "" {
			return true, s
		}
	}
	return false, ""
}

// wouldEscape evaluates escaped() as if the given instances had been dropped.
func (m *model) wouldEscape(hs []int) bool {
	var undo []int
	for _, h := range hs {
		if in := m.insts[h]; in.ok && in.closed && !in.dropped {
			in.dropped = true
			undo = append(undo, h)
		}
	}
	bad, _ := m.escaped()
	for _, h := range undo {
		m.insts[h].dropped = false
	}
	return bad
}

// ---- generator ----

var instNames = []string{"", "a", "b", "c"}

func genSpecs(t *rapid.T) []modSpec {
	n := rapid.IntRange(2, 4).Draw(t, "nspecs")
	specs := make([]modSpec, n)
	for i := range specs {
		s := modSpec{ID: i + 1, Elem: -1}
		if i == 0 {
			// spec 0 imports nothing from guests (something can always be instantiated) and
			// exports everything (the others can import from it)
			s.ExpTab, s.ExpGlob = true, true
			s.ExpTab1 = rapid.IntRange(0, 2).Draw(t, "exp_tab1") > 0 // an owner of two exported tables
		} else {
			// all imports of one module come from one name; which kinds is drawn
			from := rapid.SampledFrom([]string{"a", "a", "b"}).Draw(t, "from")
			kinds := rapid.SampledFrom([]int{0, 1, 1, 2, 2, 3, 3, 4, 5, 6, 7, 8, 9, 9, 9, 11, 13, 15, 16, 16, 16, 16, 17, 18, 24, 19, 2, 2}).Draw(t, "import_kinds")
			if kinds&1 != 0 {
				s.ImpFrom = from
			}
			if kinds&2 != 0 {
				s.TabFrom = from
			}
			if kinds&4 != 0 {
				s.GlobFrom = from
			}
			if kinds&8 != 0 {
				s.MemFrom = from
			}
			if kinds&16 != 0 {
				s.Tab1From = from
			}
			s.ExpTab1 = rapid.IntRange(0, 3).Draw(t, "exp_tab1") == 0
			s.ExpTab = rapid.IntRange(0, 3).Draw(t, "exp_tab") > 0
			s.ExpGlob = rapid.IntRange(0, 2).Draw(t, "exp_glob") > 0
		}
		if rapid.Bool().Draw(t, "has_elem") {
			s.Elem = rapid.IntRange(0, tableSlots-1).Draw(t, "elem")
			s.ElemImp = s.ImpFrom != "" && rapid.Bool().Draw(t, "elem_imp")
		}
		if rapid.IntRange(0, 2).Draw(t, "has_elem1") == 0 || (s.Tab1From != "" && rapid.Bool().Draw(t, "has_elem1_imported")) {
			s.Elem1 = 1 + rapid.IntRange(0, tableSlots-1).Draw(t, "elem1")
		}
		if (s.TabFrom != "" && s.Elem >= 0) || (s.Tab1From != "" && s.Elem1 > 0) {
			// instantiation fails in the start function after the functions were put in the imported table
			s.StartTrap = rapid.IntRange(0, 3).Draw(t, "start_trap") == 0
		}
		if s.GlobFrom == "" {
			s.GlobInit = rapid.SampledFrom([]int{0, 0, 1, 2}).Draw(t, "glob_init")
			if s.GlobInit == 2 && s.ImpFrom == "" {
				s.GlobInit = 1
			}
		}
		specs[i] = s
	}
	if n >= 3 && rapid.IntRange(0, 3).Draw(t, "two_table_family") == 0 {
		// a family that is otherwise rare: an owner exporting two tables, one importer per table,
		// each placing a function of its own in the imported table when it is instantiated
		refrom := func(s *modSpec) {
			for _, f := range []*string{&s.ImpFrom, &s.TabFrom, &s.GlobFrom, &s.MemFrom, &s.Tab1From} {
				if *f != "" {
					*f = "a"
				}
			}
		}
		specs[0].ExpTab1 = true
		specs[1].TabFrom, specs[1].Tab1From = "a", ""
		specs[2].Tab1From, specs[2].TabFrom = "a", ""
		refrom(&specs[1])
		refrom(&specs[2])
		if specs[1].Elem < 0 {
			specs[1].Elem = rapid.IntRange(0, tableSlots-1).Draw(t, "family_elem")
		}
		if specs[2].Elem1 == 0 {
			specs[2].Elem1 = 1 + rapid.IntRange(0, tableSlots-1).Draw(t, "family_elem1")
		}
	}
	return specs
}

func genConfig(t *rapid.T) config {
	c := config{Engine: rapid.SampledFrom([]string{"interpreter", "compiler"}).Draw(t, "engine")}
	c.TwoRT = rapid.IntRange(0, 3).Draw(t, "two_rt") == 0
	c.Cache = rapid.IntRange(0, 1).Draw(t, "cache") == 0
	c.Term = rapid.IntRange(0, 3).Draw(t, "term") == 0
	c.CachedFns = rapid.IntRange(0, 3).Draw(t, "cached_fns") == 0
	c.Listen = rapid.IntRange(0, 3).Draw(t, "listen") == 0
	return c
}

// keeps reports whether instance y keeps instance x reachable by one retention edge.
func (m *model) keeps(y, x int) bool {
	in := m.insts[y]
	if in.impFrom == x || in.memFrom == x || (m.cfg.Engine == "compiler" && in.globFrom == x) {
		return true
	}
	for _, z := range in.tab0.involved {
		if z == x {
			return true
		}
	}
	for _, z := range in.tab1.involved {
		if z == x {
			return true
		}
	}
	return false
}

// referenced reports whether a live instance other than h depends on h (import, involvement
// in a table, or a reference of h in one of its slots): closing such an instance is what the
// property is about.
func (m *model) referenced(h int) bool {
	for y, in := range m.insts {
		if y == h || !m.live(y) {
			continue
		}
		if m.keeps(y, h) {
			return true
		}
		for _, o := range in.tab0.slots {
			if o == h {
				return true
			}
		}
		for _, o := range in.tab1.slots {
			if o == h {
				return true
			}
		}
		if in.glob.owner == h {
			return true
		}
	}
	return false
}

// weighted draws one of the options; weights[i] copies of option i go into the bag.
func weighted[T any](t *rapid.T, label string, opts []T, weight func(T) int) T {
	var bag []int
	for i, o := range opts {
		w := weight(o)
		if w < 1 {
			w = 1
		}
		for k := 0; k < w; k++ {
			bag = append(bag, i)
		}
	}
	return opts[rapid.SampledFrom(bag).Draw(t, label)]
}

type instOpt struct {
	cm, rt, spec int
	name         string
}

// genStep draws the next step from the actions applicable in the model state. ok=false means
// the drawn action was excluded (known-finding class) and nothing is to be applied.
func genStep(t *rapid.T, m *model, excluded *int) (s step, ok bool) {
	var liveI, heldClosed, closedUndropped []int
	for h, in := range m.insts {
		switch {
		case !in.ok:
		case !in.closed:
			liveI = append(liveI, h)
		case !in.dropped:
			heldClosed = append(heldClosed, h)
			closedUndropped = append(closedUndropped, h)
		}
	}
	var rts, openCM, closedCM []int
	for rt := 0; rt < 2; rt++ {
		if m.rtUsable(rt) {
			rts = append(rts, rt)
		}
	}
	for h, c := range m.cms {
		if c.ok && !c.closed && m.rtUsable(c.rt) {
			openCM = append(openCM, h)
		}
		if c.ok && c.closed && !c.dropped {
			closedCM = append(closedCM, h)
		}
	}
	wanted := map[string]bool{} // names some spec imports from
	for _, sp := range m.specs {
		wanted[sp.ImpFrom], wanted[sp.TabFrom], wanted[sp.GlobFrom], wanted[sp.MemFrom], wanted[sp.Tab1From] = true, true, true, true, true
	}
	// instOpts: instantiations expected to succeed; goneOpts: from a CompiledModule whose
	// engine cache entry was deleted by closing a sibling made from the same bytes.
	var instOpts, goneOpts, bytesOpts []instOpt
	if len(m.insts) < 9 {
		for _, h := range openCM {
			c := m.cms[h]
			if !m.resolvable(c.rt, m.specs[c.spec]) {
				continue
			}
			for _, nm := range instNames {
				if nm != "" && m.specs[c.spec].StartTrap {
					continue
				}
				if nm == "" || !m.hasName(c.rt, nm) {
					if m.codeGone[[2]int{m.engineOf(c.rt), c.spec}] {
						if nm == "" && !m.specs[c.spec].StartTrap {
							goneOpts = append(goneOpts, instOpt{h, c.rt, c.spec, nm})
						}
					} else {
						instOpts = append(instOpts, instOpt{h, c.rt, c.spec, nm})
					}
				}
			}
		}
		for _, rt := range rts {
			for sp := range m.specs {
				if !m.resolvable(rt, m.specs[sp]) {
					continue
				}
				for _, nm := range instNames {
					if nm != "" && m.specs[sp].StartTrap {
						continue
					}
					if nm == "" || !m.hasName(rt, nm) {
						bytesOpts = append(bytesOpts, instOpt{-1, rt, sp, nm})
					}
				}
			}
		}
	}
	instWeight := func(o instOpt) int {
		w := 1
		if o.name != "" && wanted[o.name] {
			w *= 8
		}
		sp := m.specs[o.spec]
		if sp.ImpFrom != "" || sp.TabFrom != "" || sp.GlobFrom != "" || sp.MemFrom != "" || sp.Tab1From != "" {
			w *= 3
		}
		if sp.StartTrap {
			w *= 3
		}
		// an importer of one table of an owner whose OTHER exported table already has an importer
		if h, ok := m.names[o.rt][sp.TabFrom]; ok && sp.TabFrom != "" && len(m.insts[h].tab1.involved) > 1 {
			w *= 5
		}
		if h, ok := m.names[o.rt][sp.Tab1From]; ok && sp.Tab1From != "" && len(m.insts[h].tab0.involved) > 1 {
			w *= 5
		}
		return w
	}
	var pending []int
	for c, cl := range m.calls {
		if !cl.finished {
			pending = append(pending, c)
		}
	}
	var openRT, closedRT []int
	for rt := 0; rt < 2; rt++ {
		if !m.rtClosed[rt] {
			openRT = append(openRT, rt)
		} else if !m.rtDropped[rt] && m.rtClosedAt[rt] >= 0 {
			closedRT = append(closedRT, rt)
		}
	}
	var closable []int // runtimes whose closing leaves something alive (or has a call outstanding)
	for _, rt := range openRT {
		if (m.cfg.TwoRT && !m.rtClosed[1-rt]) || len(pending) > 0 {
			closable = append(closable, rt)
		}
	}

	var cs []cand
	add := func(op string, w int, cond bool) {
		if cond && w > 0 {
			cs = append(cs, cand{op, w})
		}
	}
	add("compile", map[bool]int{true: 8, false: 1}[len(m.cms) < 2], len(rts) > 0 && len(m.cms) < 7)
	// compiling on a still open runtime whose shared cache was closed: the result is of no use
	// (the model treats it as unknown), but live instances must not suffer from it
	var orphanRTs []int
	for _, rt := range openRT {
		if m.cfg.Cache && m.cacheClosed {
			orphanRTs = append(orphanRTs, rt)
		}
	}
	add("compile-after-cache-close", 3, len(orphanRTs) > 0 && len(liveI) > 0 && len(m.cms) < 9)
	add("inst", map[bool]int{true: 12, false: 2}[len(liveI) < 3], len(instOpts) > 0)
	add("inst-gone", 1, len(goneOpts) > 0)
	add("instbytes", 1, len(bytesOpts) > 0)
	add("call", 1, len(heldClosed) > 0)
	add("move", 7, len(liveI) > 0)
	add("mem", 6, len(liveI) > 0)
	add("long", 2, len(liveI) > 0 && len(pending) < 2 && len(m.calls) < 4)
	add("resume", 2, len(pending) > 0)
	add("close", map[bool]int{true: 9, false: 4}[len(liveI) > 2], len(liveI) > 1)
	add("closecm", 2, len(openCM) > 0 && len(liveI) > 0)
	add("closert", 1, len(closable) > 0 && len(m.insts) > 2)
	add("closecache", 1, m.cfg.Cache && !m.cacheClosed && len(liveI) > 0)
	add("drop", 18, len(closedUndropped) > 0)
	add("dropcm", 3, len(closedCM) > 0)
	add("droprt", 2, len(closedRT) > 0)
	add("dropall", 4, len(closedUndropped)+len(closedCM)+len(closedRT) > 0 || (m.cacheClosed && !m.cacheDropped))
	add("gc", map[bool]int{true: 24, false: 1}[m.dirty], true)
	var bag []string
	for _, c := range cs {
		for i := 0; i < c.w; i++ {
			bag = append(bag, c.op)
		}
	}
	op := rapid.SampledFrom(bag).Draw(t, "op")
	s = step{Op: op}
	pick := func(xs []int, label string) int { return rapid.SampledFrom(xs).Draw(t, label) }
	switch op {
	case "compile":
		s.RT = pick(rts, "rt")
		s.Spec = rapid.IntRange(0, len(m.specs)-1).Draw(t, "spec")
	case "compile-after-cache-close":
		s.Op = "compile"
		s.RT = pick(orphanRTs, "rt")
		s.Spec = rapid.IntRange(0, len(m.specs)-1).Draw(t, "spec")
	case "inst":
		o := weighted(t, "inst", instOpts, instWeight)
		s.CM, s.Name = o.cm, o.name
	case "inst-gone":
		o := weighted(t, "inst", goneOpts, instWeight)
		s.Op, s.CM, s.Name = "inst", o.cm, o.name
	case "instbytes":
		o := weighted(t, "instbytes", bytesOpts, instWeight)
		s.RT, s.Spec, s.Name = o.rt, o.spec, o.name
	case "call":
		s.Inst = pick(heldClosed, "inst")
		p := rapid.SampledFrom(probeExports).Draw(t, "fn")
		s.Fn = p.Name
		if p.Arg {
			s.Arg = rapid.IntRange(0, tableSlots-1).Draw(t, "arg")
		}
	case "move":
		// first what is fetched from whom, then where it goes: destinations that keep the owner
		// of the reference reachable (or are the owner) give histories inside the property;
		// among those, the ones that do NOT keep the handing-out instance alive are the shape
		// "the reference must outlive whoever passed it on" and are favoured most
		s.Inst = weighted(t, "from", liveI, func(h int) int {
			if m.insts[h].impFrom >= 0 {
				return 3
			}
			return 1
		})
		srcs := []string{"func", "func", "func", "func", "slot", "slot", "glob", "null"}
		s.Src = rapid.SampledFrom(srcs).Draw(t, "src")
		switch s.Src {
		case "func":
			ks := []int{0, 1, 2, 3, 3} // 3: the function that traps
			if m.insts[s.Inst].impFrom >= 0 {
				ks = []int{0, 1, 2, 2, 2, 3, 3}
			}
			s.K = rapid.SampledFrom(ks).Draw(t, "k")
		case "slot":
			s.K = rapid.IntRange(0, 1).Draw(t, "stbl")
			s.Slot = rapid.IntRange(0, tableSlots-1).Draw(t, "sslot")
		}
		owner := m.ownerOf(s)
		var tos []int
		for _, h := range liveI {
			if m.insts[h].rt == m.insts[s.Inst].rt {
				tos = append(tos, h)
			}
		}
		s.To = weighted(t, "to", tos, func(to int) int {
			cl := m.closure(to)
			switch {
			case owner < 0:
				return 1
			case !cl[owner]:
				return 1 // would dangle once the owner goes: the excluded class blocks its drop later
			case owner != s.Inst && !cl[s.Inst]:
				return 16
			case to != s.Inst:
				return 8
			}
			return 2
		})
		s.Dst = rapid.SampledFrom([]string{"slot", "slot", "slot", "glob"}).Draw(t, "dst")
		if s.Dst == "slot" {
			s.DTbl = rapid.IntRange(0, 1).Draw(t, "dtbl")
			s.DSlot = rapid.IntRange(0, tableSlots-1).Draw(t, "dslot")
		}
	case "mem":
		// memory and passive segments; favoured: an importer whose exporter is closed (the
		// closed instance's code runs on the importer's behalf)
		s.Inst = weighted(t, "inst", liveI, func(h int) int {
			switch a := m.insts[h].impFrom; {
			case a >= 0 && m.insts[a].closed:
				return 8
			case a >= 0:
				return 3
			}
			return 1
		})
		var fns []string
		for _, fn := range memFnNames {
			_, fwd := baseOf[fn]
			a := m.insts[s.Inst].impFrom
			if fwd && a >= 0 && m.insts[a].closed && m.cfg.Term {
				continue // would answer with an exit error and end the comparable part of the history
			}
			w := 1
			if fwd && a >= 0 {
				w = 3
			}
			if fn == "mgrow" || fn == "xgrow" {
				w *= 2
			}
			if fn == "ddrop" || fn == "edrop" || fn == "xddrop" || fn == "xedrop" {
				w = 1
			}
			for i := 0; i < w; i++ {
				fns = append(fns, fn)
			}
		}
		s.Fn = rapid.SampledFrom(fns).Draw(t, "fn")
		switch memFns[s.Fn] {
		case 1:
			if s.Fn == "mgrow" || s.Fn == "xgrow" {
				s.Arg = rapid.IntRange(0, 2).Draw(t, "pages")
			} else {
				s.Arg = rapid.IntRange(0, tableSlots-1).Draw(t, "arg")
			}
		case 2:
			s.Arg = rapid.IntRange(0, tableSlots-1).Draw(t, "arg")
			s.Val = rapid.IntRange(1, 255).Draw(t, "val")
		}
	case "long":
		s.Inst = pick(liveI, "inst")
		s.Arg = rapid.IntRange(0, tableSlots-1).Draw(t, "slot")
	case "resume":
		s.Call = pick(pending, "call")
	case "close":
		s.Inst = weighted(t, "inst", liveI, func(h int) int {
			if m.referenced(h) || m.insts[h].handed {
				return 10
			}
			return 1
		})
	case "closecm":
		s.CM = pick(openCM, "cm")
	case "closert":
		s.RT = pick(closable, "rt")
	case "drop":
		s.Inst = weighted(t, "inst", closedUndropped, func(h int) int {
			if m.referenced(h) || m.insts[h].handed {
				return 6
			}
			return 1
		})
		if m.wouldEscape([]int{s.Inst}) {
			*excluded++
			return s, false
		}
	case "dropcm":
		s.CM = pick(closedCM, "cm")
	case "droprt":
		s.RT = pick(closedRT, "rt")
	case "dropall":
		if m.wouldEscape(closedUndropped) {
			*excluded++
			return s, false
		}
	case "gc":
		s.Churn = rapid.Bool().Draw(t, "churn")
	}
	return s, true
}

type cand struct {
	op string
	w  int
}
