package c09

import (
	"context"
	"fmt"
	"os"
	"testing"
	"time"

	"github.com/tetratelabs/wazero"
	"github.com/tetratelabs/wazero/api"

	"verif/internal/evid"
	"verif/internal/wasmenc"
	"verif/internal/wz"
)

// Shared memories (threads feature) are not part of the history worlds; this small enumeration
// covers the one lifetime interaction they add: a call of a live instance parked in
// memory.atomic.wait32 with a finite timeout on a shared memory must not notice that ANOTHER
// instance holding the same memory (an importer, or the owner while importers live) is closed:
// it returns 2 (timed out) exactly as in the twin run without the close, not 0 (woken).
type waitCase struct {
	Engine    string `json:"engine"`
	Importers int    `json:"importers"` // instances importing the owner's shared memory
	Waiter    int    `json:"waiter"`    // 0 = owner, k = importer k
	Close     []int  `json:"close"`     // instances closed while the waiter is parked (never the waiter)
	TimeoutMs int    `json:"timeout_ms"`
}

func waitModule(importMem bool) []byte {
	m := &wasmenc.Module{}
	lim := wasmenc.Limits(1, 1, true)
	if importMem {
		m.Imports = append(m.Imports, wasmenc.Import{Mod: "owner", Name: "mem", Kind: wasmenc.KMem, Desc: lim})
	} else {
		m.Mems = append(m.Mems, lim)
	}
	m.Exports = append(m.Exports, wasmenc.Export{Name: "mem", Kind: wasmenc.KMem, Idx: 0})
	// wait(timeout ns) = memory.atomic.wait32(addr 0, expected 0, timeout)
	m.ExportFunc("wait", m.AddFunc([]byte{wasmenc.I64}, []byte{wasmenc.I32}, nil,
		wasmenc.NewB().I32Const(0).I32Const(0).LocalGet(0).FE(1, 2, 0).Bytes()))
	return m.Encode()
}

func runWait(wc *waitCase, doClose bool) (uint64, string) {
	ctx := context.Background()
	rt := wazero.NewRuntimeWithConfig(ctx, wz.Config(wc.Engine))
	defer rt.Close(ctx)
	insts := make([]api.Module, wc.Importers+1)
	var err error
	if insts[0], err = rt.InstantiateWithConfig(ctx, waitModule(false), wazero.NewModuleConfig().WithName("owner")); err != nil {
		return 0, "harness: " + err.Error()
	}
	for k := 1; k <= wc.Importers; k++ {
		if insts[k], err = rt.InstantiateWithConfig(ctx, waitModule(true), wazero.NewModuleConfig().WithName(fmt.Sprintf("imp%d", k))); err != nil {
			return 0, "harness: " + err.Error()
		}
	}
	type ans struct {
		res []uint64
		err error
	}
	done := make(chan ans, 1)
	f := insts[wc.Waiter].ExportedFunction("wait")
	go func() {
		res, err := f.Call(ctx, uint64(wc.TimeoutMs)*1000000)
		done <- ans{res, err}
	}()
	time.Sleep(time.Duration(wc.TimeoutMs/4) * time.Millisecond) // let it park (if it has not, nothing is tested, nothing is flagged)
	if doClose {
		for _, k := range wc.Close {
			insts[k].Close(ctx)
		}
	}
	select {
	case a := <-done:
		if a.err != nil || len(a.res) != 1 {
			return 0, fmt.Sprintf("wait answered %v, %v", a.res, a.err)
		}
		return a.res[0], ""
	case <-time.After(hangTimeout):
		return 0, "memory.atomic.wait32 with a finite timeout did not return"
	}
}

func TestSharedMemoryWaiters(t *testing.T) {
	if evid.ReplayPath() != "" || os.Getenv("C09_CHILD") != "" {
		t.Skip()
	}
	k := 0
	for _, eng := range wz.Engines {
		for _, wc := range []waitCase{
			{Importers: 2, Waiter: 1, Close: []int{2}},    // importer waits, the other importer is closed
			{Importers: 2, Waiter: 0, Close: []int{1}},    // owner waits, an importer is closed
			{Importers: 2, Waiter: 1, Close: []int{0}},    // importer waits, the owner is closed while importers live
			{Importers: 2, Waiter: 2, Close: []int{0, 1}}, // importer waits, owner and the other importer are closed
		} {
			k++
			if !evid.Mine(k) {
				continue
			}
			wc.Engine, wc.TimeoutMs = eng, 300
			h := &history{Cfg: config{Engine: eng}, Wait: &wc}
			evid.Journal(h)
			if msg := checkWait(&wc); msg != "" {
				if msg[:8] == "harness:" {
					evid.Incomplete("shared-memory-waiters: %s", msg)
				} else {
					evid.Violation("shared-memory-waiters", h, "%s", msg)
				}
				t.Error(msg)
				continue
			}
			evid.Case(evid.Hash64("wait", eng, wc.Waiter, fmt.Sprint(wc.Close)), true, "shared-memory-wait-during-close")
		}
	}
}

// checkWait runs the case with the close and its twin without, and compares.
func checkWait(wc *waitCase) string {
	twin, msg := runWait(wc, false)
	if msg != "" {
		return "harness: twin: " + msg
	}
	got, msg := runWait(wc, true)
	if msg != "" {
		return fmt.Sprintf("%+v: %s", *wc, msg)
	}
	if got != twin {
		return fmt.Sprintf("%+v: instance %d parked in memory.atomic.wait32 (timeout %d ms, nobody notifies) returned %d when instances %v holding the same shared memory were closed; without the close it returns %d (2 = timed out)", *wc, wc.Waiter, wc.TimeoutMs, got, wc.Close, twin)
	}
	return ""
}
