package c09

import (
	"fmt"

	"verif/internal/wasmenc"
)

// modSpec describes one guest module of the universe. All modules have the same exported
// function interface (see exportNames) so that any of them can be imported by any other;
// they differ in what they import and export besides functions.
//
//	table 0  "shared" table (3 slots): imported from TabFrom ("tab"), or defined here and
//	         exported as "tab" when ExpTab (an imported table can be re-exported)
//	table 1  second table (3 slots): private by default; exported as "tab1" when ExpTab1,
//	         imported from Tab1From ("tab1") when set
//	table 2  private scratch table (1 slot) used to call through the funcref global
//	global g mutable funcref global: imported from GlobFrom ("g") or defined here
//	         (initially null); exported as "g" when ExpGlob
//	global   tag (mutable i32, private): makes results instance specific
//	memory   1 page, max 3 (capacity = 1 page, so growing reallocates): imported from MemFrom
//	         ("mem") or defined here; always exported as "mem"
//	segments one passive data segment (8 bytes depending on ID) and one passive element
//	         segment [f0 f1], used by minit/tinit and dropped by ddrop/edrop
//
// Besides f0 an importer (ImpFrom) imports the memory/segment functions mload, mstore, msize,
// mgrow, minit, ddrop, tinit, edrop of that instance and re-exports them as xload, ... : code of
// the (possibly closed) exporting instance run on behalf of a live one. Without import the
// x-functions call the module's own ones.
//
// f0/f1 return tag*1000 + ID*10 + k.
type modSpec struct {
	ID        int    `json:"id"`
	ImpFrom   string `json:"imp_from,omitempty"`   // module name f0 is imported from ("imp0"), "" = none
	TabFrom   string `json:"tab_from,omitempty"`   // module name table 0 is imported from, "" = own
	ExpTab    bool   `json:"exp_tab,omitempty"`    // export table 0 as "tab"
	GlobFrom  string `json:"glob_from,omitempty"`  // module name the funcref global is imported from
	ExpGlob   bool   `json:"exp_glob,omitempty"`   // export the funcref global as "g"
	Elem      int    `json:"elem"`                 // -1, or the slot of table 0 initialised by an active element segment
	ElemImp   bool   `json:"elem_imp,omitempty"`   // the element segment names the IMPORTED function imp0 instead of f1
	GlobInit  int    `json:"glob_init,omitempty"`  // own funcref global starts as 0: null, 1: ref.func f0, 2: ref.func imp0 (imported function)
	MemFrom   string `json:"mem_from,omitempty"`   // module name the memory "mem" is imported from, "" = own (1 page, max 3)
	Tab1From  string `json:"tab1_from,omitempty"`  // module name table 1 is imported from ("tab1"), "" = own
	ExpTab1   bool   `json:"exp_tab1,omitempty"`   // export table 1 as "tab1" (a second exported table of the same owner)
	StartTrap bool   `json:"start_trap,omitempty"` // the start function traps: instantiation fails late, after the element segments were applied
	Elem1     int    `json:"elem1,omitempty"`      // 0, or 1 + the slot of table 1 initialised with f1 by an active element segment
}

func (s modSpec) String() string {
	return fmt.Sprintf("{id=%d imp=%q tab=%q exptab=%v glob=%q expglob=%v elem=%d elemimp=%v globinit=%d mem=%q tab1=%q exptab1=%v elem1=%d starttrap=%v}", s.ID, s.ImpFrom, s.TabFrom, s.ExpTab, s.GlobFrom, s.ExpGlob, s.Elem, s.ElemImp, s.GlobInit, s.MemFrom, s.Tab1From, s.ExpTab1, s.Elem1, s.StartTrap)
}

const tableSlots = 3

// read-only exports used as probes: name -> number of i32 arguments (slot indices).
// Local: the export touches nothing but the instance's own functions and table/global cells
// (it never runs code of another instance).
var probeExports = []struct {
	Name  string
	Arg   bool
	Local bool
}{
	{"self", false, true}, {"calli", false, false}, {"callg", false, false}, {"gnull", false, true},
	{"call0", true, false}, {"call1", true, false}, {"isnull0", true, true}, {"isnull1", true, true},
	{"msize", false, true}, {"xsize", false, false}, {"mload", true, true}, {"xload", true, false},
	{"xtrap", false, false},
}

// memFns are the state-changing memory/segment exports (step "mem"): name -> number of arguments.
// The x-variants run the function of the instance ImpFrom names (the own one without import).
var memFns = map[string]int{
	"mstore": 2, "mgrow": 1, "minit": 1, "ddrop": 0, "tinit": 1, "edrop": 0,
	"xstore": 2, "xgrow": 1, "xinit": 1, "xddrop": 0, "xtinit": 1, "xedrop": 0,
}

var memFnNames = []string{"mstore", "mgrow", "minit", "ddrop", "tinit", "edrop", "xstore", "xgrow", "xinit", "xddrop", "xtinit", "xedrop"}

// baseOf maps an x-variant to the function it forwards to.
var baseOf = map[string]string{"xstore": "mstore", "xgrow": "mgrow", "xinit": "minit", "xddrop": "ddrop", "xtinit": "tinit", "xedrop": "edrop", "xload": "mload", "xsize": "msize"}

func buildModule(s modSpec) []byte {
	const (
		i32 = wasmenc.I32
		fr  = wasmenc.FuncRef
	)
	m := &wasmenc.Module{}
	tI := m.AddType(nil, []byte{i32}) // type 0: () -> i32, the type of every callable reference
	_ = tI
	m.ModuleName = fmt.Sprintf("m%d", s.ID) // stack traces name frames "m<ID>.<export name>"
	block := m.ImportFunc("host", "block", nil, nil)
	boom := m.ImportFunc("host", "boom", nil, nil) // host function that panics
	hasImp := s.ImpFrom != ""
	var imp0 uint32
	if hasImp {
		imp0 = m.ImportFunc(s.ImpFrom, "f0", nil, []byte{i32})
	}
	// the memory/segment functions of the instance f0 is imported from
	type sig struct {
		name string
		p, r []byte
	}
	memSigs := []sig{
		{"mload", []byte{i32}, []byte{i32}}, {"mstore", []byte{i32, i32}, nil}, {"msize", nil, []byte{i32}},
		{"mgrow", []byte{i32}, []byte{i32}}, {"minit", []byte{i32}, nil}, {"ddrop", nil, nil},
		{"tinit", []byte{i32}, nil}, {"edrop", nil, nil},
	}
	impMem := map[string]uint32{}
	var impTrap uint32
	if hasImp {
		impTrap = m.ImportFunc(s.ImpFrom, "xtrap", nil, []byte{i32})
		for _, sg := range memSigs {
			impMem[sg.name] = m.ImportFunc(s.ImpFrom, sg.name, sg.p, sg.r)
		}
	}
	memLimits := wasmenc.Limits(1, 3, false)
	if s.MemFrom != "" {
		m.Imports = append(m.Imports, wasmenc.Import{Mod: s.MemFrom, Name: "mem", Kind: wasmenc.KMem, Desc: memLimits})
	} else {
		m.Mems = append(m.Mems, memLimits)
	}
	m.Exports = append(m.Exports, wasmenc.Export{Name: "mem", Kind: wasmenc.KMem, Idx: 0})
	// table indices: imported tables come first in the index space
	tabType := wasmenc.TableType(fr, tableSlots, -1)
	t0, t1, t2 := uint32(0), uint32(1), uint32(2)
	if s.TabFrom == "" && s.Tab1From != "" {
		t0, t1 = 1, 0
	}
	if s.TabFrom != "" {
		m.Imports = append(m.Imports, wasmenc.Import{Mod: s.TabFrom, Name: "tab", Kind: wasmenc.KTable, Desc: tabType})
	}
	if s.Tab1From != "" {
		m.Imports = append(m.Imports, wasmenc.Import{Mod: s.Tab1From, Name: "tab1", Kind: wasmenc.KTable, Desc: tabType})
	}
	if s.TabFrom == "" {
		m.Tables = append(m.Tables, tabType)
	}
	if s.Tab1From == "" {
		m.Tables = append(m.Tables, tabType)
	}
	m.Tables = append(m.Tables, wasmenc.TableType(fr, 1, -1))
	var gG, gTag uint32
	if s.GlobFrom != "" {
		m.Imports = append(m.Imports, wasmenc.Import{Mod: s.GlobFrom, Name: "g", Kind: wasmenc.KGlobal, Desc: wasmenc.GlobalType(fr, true)})
		gG, gTag = 0, 1
	} else {
		// the initialiser may name a function (index fixed below: host.block is import 0, imp0 import 1,
		// f0 the first local function)
		init := wasmenc.NewB().RefNull(fr).Bytes()
		switch {
		case s.GlobInit == 2 && hasImp:
			init = wasmenc.NewB().RefFunc(imp0).Bytes()
		case s.GlobInit >= 1:
			init = wasmenc.NewB().RefFunc(m.NumImportedFuncs()).Bytes() // f0
		}
		m.Globals = append(m.Globals, wasmenc.Global{Type: fr, Mut: true, Init: init})
		gG, gTag = 0, 1
	}
	m.Globals = append(m.Globals, wasmenc.Global{Type: i32, Mut: true, Init: wasmenc.NewB().I32Const(0).Bytes()})

	fbody := func(k int) []byte {
		return wasmenc.NewB().GlobalGet(gTag).I32Const(1000).Raw(wasmenc.OpI32Mul).I32Const(int32(s.ID*10 + k)).Raw(wasmenc.OpI32Add).Bytes()
	}
	f0 := m.AddFunc(nil, []byte{i32}, nil, fbody(0))
	f1 := m.AddFunc(nil, []byte{i32}, nil, fbody(1))
	third := f0
	if hasImp {
		third = imp0
	}
	exp := func(name string, idx uint32) {
		m.ExportFunc(name, idx)
		m.Funcs[idx-m.NumImportedFuncs()].Name = name
	}
	exp("f0", f0)
	exp("f1", f1)
	exp("set_tag", m.AddFunc([]byte{i32}, nil, nil, wasmenc.NewB().LocalGet(0).GlobalSet(gTag).Bytes()))
	// ftrap always traps, how depends on tag&3: unreachable, integer divide by zero, out of
	// bounds load, panic of a host function
	ftrap := m.AddFunc(nil, []byte{i32}, []byte{i32}, wasmenc.NewB().
		GlobalGet(gTag).I32Const(3).Raw(wasmenc.OpI32And).LocalTee(0).Raw(wasmenc.OpI32Eqz).If().Unreachable().End().
		LocalGet(0).I32Const(1).Raw(wasmenc.OpI32Eq).If().I32Const(1).I32Const(0).Raw(wasmenc.OpI32DivU).Return().End().
		LocalGet(0).I32Const(2).Raw(wasmenc.OpI32Eq).If().I32Const(0x7ffffff0).Mem(wasmenc.OpI32Load, 2, 0).Return().End().
		Call(boom).I32Const(0).Bytes())
	exp("ftrap", ftrap)
	// xtrap: the trapping function at the end of the chain of function imports (import of an import ...)
	xt := ftrap
	if hasImp {
		xt = impTrap
	}
	exp("xtrap", m.AddFunc(nil, []byte{i32}, nil, wasmenc.NewB().Call(xt).Bytes()))
	// handout(k): 0 -> ref.func f0, 1 -> ref.func f1, 3 -> ref.func ftrap, else -> ref.func imp0 (or f0 without import)
	exp("handout", m.AddFunc([]byte{i32}, []byte{fr}, nil, wasmenc.NewB().
		LocalGet(0).Raw(wasmenc.OpI32Eqz).If().RefFunc(f0).Return().End().
		LocalGet(0).I32Const(1).Raw(wasmenc.OpI32Eq).If().RefFunc(f1).Return().End().
		LocalGet(0).I32Const(3).Raw(wasmenc.OpI32Eq).If().RefFunc(ftrap).Return().End().
		RefFunc(third).Bytes()))
	exp("handout_slot", m.AddFunc([]byte{i32, i32}, []byte{fr}, nil, wasmenc.NewB().
		LocalGet(0).Raw(wasmenc.OpI32Eqz).If().LocalGet(1).TableGet(t0).Return().End().
		LocalGet(1).TableGet(t1).Bytes()))
	exp("handout_glob", m.AddFunc(nil, []byte{fr}, nil, wasmenc.NewB().GlobalGet(gG).Bytes()))
	exp("put", m.AddFunc([]byte{i32, i32, fr}, nil, nil, wasmenc.NewB().
		LocalGet(0).Raw(wasmenc.OpI32Eqz).If().LocalGet(1).LocalGet(2).TableSet(t0).Return().End().
		LocalGet(1).LocalGet(2).TableSet(t1).Bytes()))
	exp("put_glob", m.AddFunc([]byte{fr}, nil, nil, wasmenc.NewB().LocalGet(0).GlobalSet(gG).Bytes()))
	exp("call0", m.AddFunc([]byte{i32}, []byte{i32}, nil, wasmenc.NewB().LocalGet(0).CallIndirect(0, t0).Bytes()))
	exp("call1", m.AddFunc([]byte{i32}, []byte{i32}, nil, wasmenc.NewB().LocalGet(0).CallIndirect(0, t1).Bytes()))
	exp("isnull0", m.AddFunc([]byte{i32}, []byte{i32}, nil, wasmenc.NewB().LocalGet(0).TableGet(t0).RefIsNull().Bytes()))
	exp("isnull1", m.AddFunc([]byte{i32}, []byte{i32}, nil, wasmenc.NewB().LocalGet(0).TableGet(t1).RefIsNull().Bytes()))
	exp("callg", m.AddFunc(nil, []byte{i32}, nil, wasmenc.NewB().
		I32Const(0).GlobalGet(gG).TableSet(t2).I32Const(0).CallIndirect(0, t2).Bytes()))
	exp("gnull", m.AddFunc(nil, []byte{i32}, nil, wasmenc.NewB().GlobalGet(gG).RefIsNull().Bytes()))
	calli := m.AddFunc(nil, []byte{i32}, nil, wasmenc.NewB().Call(third).Bytes())
	exp("calli", calli)
	exp("self", m.AddFunc(nil, []byte{i32}, nil, wasmenc.NewB().Call(f0).Bytes()))
	// addr(k): 0 -> 0, 1 -> 16, 2 -> 65544 (second page: out of bounds until the memory has grown)
	addr := func(b *wasmenc.B) *wasmenc.B {
		return b.I32Const(65544).LocalGet(0).I32Const(16).Raw(wasmenc.OpI32Mul).LocalGet(0).I32Const(2).Raw(wasmenc.OpI32Eq).Select()
	}
	own := map[string]uint32{}
	own["mload"] = m.AddFunc([]byte{i32}, []byte{i32}, nil, addr(wasmenc.NewB()).Mem(wasmenc.OpI32Load, 2, 0).Bytes())
	own["mstore"] = m.AddFunc([]byte{i32, i32}, nil, nil, addr(wasmenc.NewB()).LocalGet(1).Mem(wasmenc.OpI32Store, 2, 0).Bytes())
	own["msize"] = m.AddFunc(nil, []byte{i32}, nil, wasmenc.NewB().MemorySize().Bytes())
	own["mgrow"] = m.AddFunc([]byte{i32}, []byte{i32}, nil, wasmenc.NewB().LocalGet(0).MemoryGrow().Bytes())
	own["minit"] = m.AddFunc([]byte{i32}, nil, nil, addr(wasmenc.NewB()).I32Const(0).I32Const(8).MemoryInit(0).Bytes())
	own["ddrop"] = m.AddFunc(nil, nil, nil, wasmenc.NewB().DataDrop(0).Bytes())
	// element segment 1 is the passive one [f0 f1]: tinit(slot) copies f1 into table 0
	own["tinit"] = m.AddFunc([]byte{i32}, nil, nil, wasmenc.NewB().LocalGet(0).I32Const(1).I32Const(1).TableInit(1, t0).Bytes())
	own["edrop"] = m.AddFunc(nil, nil, nil, wasmenc.NewB().ElemDrop(1).Bytes())
	for _, sg := range memSigs {
		exp(sg.name, own[sg.name])
		target := own[sg.name]
		if hasImp {
			target = impMem[sg.name]
		}
		b := wasmenc.NewB()
		for i := range sg.p {
			b.LocalGet(uint32(i))
		}
		xname := map[string]string{"mload": "xload", "mstore": "xstore", "msize": "xsize", "mgrow": "xgrow", "minit": "xinit", "ddrop": "xddrop", "tinit": "xtinit", "edrop": "xedrop"}[sg.name]
		exp(xname, m.AddFunc(sg.p, sg.r, nil, b.Call(target).Bytes()))
	}
	m.Datas = append(m.Datas, wasmenc.PassiveData([]byte{byte(0x10 + s.ID), byte(0x20 + s.ID), byte(0x30 + s.ID), 0x44, 0x55, 0x66, 0x77, byte(s.ID)}))
	m.DataCnt = true
	// long(slot): suspend inside the host, then use the import, (if set) the slot of table 0 and
	// the memory size as this instance's code sees it.
	exp("long", m.AddFunc([]byte{i32}, []byte{i32}, []byte{i32}, wasmenc.NewB().
		Call(block).
		Call(calli).LocalSet(1).
		LocalGet(0).TableGet(t0).RefIsNull().Raw(wasmenc.OpI32Eqz).If().
		LocalGet(1).I32Const(7).Raw(wasmenc.OpI32Mul).LocalGet(0).CallIndirect(0, t0).Raw(wasmenc.OpI32Add).LocalSet(1).
		End().
		LocalGet(1).MemorySize().I32Const(1000000).Raw(wasmenc.OpI32Mul).Raw(wasmenc.OpI32Add).Bytes()))

	if s.ExpTab {
		m.Exports = append(m.Exports, wasmenc.Export{Name: "tab", Kind: wasmenc.KTable, Idx: t0})
	}
	if s.ExpTab1 {
		m.Exports = append(m.Exports, wasmenc.Export{Name: "tab1", Kind: wasmenc.KTable, Idx: t1})
	}
	if s.ExpGlob {
		m.Exports = append(m.Exports, wasmenc.Export{Name: "g", Kind: wasmenc.KGlobal, Idx: gG})
	}
	decl := []uint32{f0, f1, ftrap}
	if hasImp {
		decl = append(decl, imp0)
	}
	m.Elems = append(m.Elems, wasmenc.DeclElemFuncs(decl), wasmenc.PassiveElemFuncs([]uint32{f0, f1}))
	if s.Elem >= 0 && s.Elem < tableSlots {
		ef := f1
		if s.ElemImp && hasImp {
			ef = imp0
		}
		if t0 == 0 {
			m.Elems = append(m.Elems, wasmenc.ActiveElemFuncs(int32(s.Elem), []uint32{ef}))
		} else {
			m.Elems = append(m.Elems, wasmenc.ActiveElemFuncsTable(t0, wasmenc.NewB().I32Const(int32(s.Elem)).Bytes(), []uint32{ef}))
		}
	}
	if s.Elem1 >= 1 && s.Elem1 <= tableSlots {
		m.Elems = append(m.Elems, wasmenc.ActiveElemFuncsTable(t1, wasmenc.NewB().I32Const(int32(s.Elem1-1)).Bytes(), []uint32{f1}))
	}
	if s.StartTrap {
		sf := m.AddFunc(nil, nil, nil, wasmenc.NewB().Unreachable().Bytes())
		m.Start = &sf
	}
	return m.Encode()
}
