// C09 — closing and collecting modules never endangers live ones.
//
// A rapid-generated history (compile / instantiate / call / move a function reference /
// suspend a call inside a host function / close instance, compiled module, runtime, cache /
// drop the harness's references / forced GC / resume) is executed in a main world and in a
// twin world that receives the same history without the close, drop and gc steps. After
// every step every surviving instance is probed through all its read-only exports in both
// worlds: each answer must equal the twin's or be a sys.ExitError; anything else, an internal
// failure or the death of the process is a violation. The process runs with
// GODEBUG=clobberfree=1 so that reads of collected objects are deterministic.
package c09

import (
	"bufio"
	"bytes"
	"encoding/json"
	"fmt"
	"os"
	"os/exec"
	"path/filepath"
	"runtime"
	"runtime/debug"
	"sort"
	"strings"
	"sync"
	"testing"
	"time"

	"pgregory.net/rapid"

	"verif/internal/evid"
)

func TestMain(m *testing.M) {
	// runtime.GC yields after every swept span and every forced collection wakes all Ps: with
	// many Ps the run is dominated by scheduler lock contention (measured CPU per shard of 300
	// histories: 53 s on 16 Ps, 25 s on 2, 7 s on 1). Nothing here needs parallelism: suspended
	// calls are blocked goroutines, finalizers run while the driving goroutine waits for them.
	if os.Getenv("GOMAXPROCS") == "" {
		runtime.GOMAXPROCS(1)
	}
	evid.Main(m, "C09")
}

var siblingNote sync.Once

const knownID = "C09-dangling-funcref-private-table"

func genHistory(t *rapid.T) (*history, *model, int) {
	h := &history{Cfg: genConfig(t), Specs: genSpecs(t)}
	m := newModel(h.Cfg, h.Specs)
	excluded := 0
	n := rapid.IntRange(15, 40).Draw(t, "nsteps")
	for k := 0; k < n; k++ {
		s, ok := genStep(t, m, &excluded)
		if !ok {
			continue
		}
		m.apply(s)
		h.Steps = append(h.Steps, s)
		if bad, why := m.escaped(); bad {
			t.Fatalf("harness: generator invariant broken after %v: %s", s, why)
		}
	}
	return h, m, excluded
}

func keyOf(h *history) uint64 {
	b, _ := json.Marshal(h)
	return evid.Key(b)
}

func describe(h *history) string {
	var sb strings.Builder
	fmt.Fprintf(&sb, "config %+v\n", h.Cfg)
	for i, s := range h.Specs {
		fmt.Fprintf(&sb, "  spec%d %v\n", i, s)
	}
	for i, s := range h.Steps {
		fmt.Fprintf(&sb, "  %2d %v\n", i, s)
	}
	return sb.String()
}

func property(t *rapid.T) {
	h, m, excluded := genHistory(t)
	evid.Journal(h)
	res := runHistory(h, false)
	if res.Harness != "" {
		t.Fatalf("harness: %s\n%s", res.Harness, describe(h))
	}
	// The exclusion of the known class relies on the model: everything it believes to exist
	// must really have been created (the converse is harmless).
	for i, ok := range res.instOK {
		if m.insts[i].ok && !m.insts[i].ghost && !ok {
			t.Fatalf("harness: the generator's model believes instance i%d exists but its creation failed (%v)\n%s", i, res.Labels, describe(h))
		}
	}
	for i, ok := range res.cmOK {
		if m.cms[i].ok && !ok {
			t.Fatalf("harness: the generator's model believes cm%d exists but its creation failed (%v)\n%s", i, res.Labels, describe(h))
		}
	}
	if res.Violation != "" {
		evid.Fail(t, h, "%s\nhistory (%s):\n%s", res.Violation, h.Cfg.Engine, describe(h))
	}
	lbls := []string{"engine-" + h.Cfg.Engine}
	for l := range m.labels {
		lbls = append(lbls, l)
	}
	if h.Cfg.Cache {
		lbls = append(lbls, "shared-cache")
	}
	if h.Cfg.TwoRT {
		lbls = append(lbls, "two-runtimes")
	}
	if h.Cfg.Term {
		lbls = append(lbls, "close-on-context-done")
	}
	if h.Cfg.CachedFns {
		lbls = append(lbls, "cached-function-objects")
	}
	if h.Cfg.Listen {
		lbls = append(lbls, "function-listeners")
	}
	sort.Strings(lbls)
	evid.Case(keyOf(h), m.nontrivial, lbls...)
	if excluded > 0 {
		evid.Label("excluded-drop-of-instance-with-escaped-reference", int64(excluded))
		evid.Label("history-with-exclusion", 1)
	}
	for l, n := range res.Labels {
		evid.Label(l, int64(n))
		if sh, _ := evid.Shard(); sh == 0 && strings.Contains(l, "source module must be compiled") {
			siblingNote.Do(func() {
				evid.Note("side observation, not a C09 violation (the statement speaks about LIVE instances): two CompiledModules made from identical bytes share one engine cache entry keyed by module ID; closing one of them (CompiledModule.Close, or closing an instance that InstantiateWithConfig created from the same bytes) makes InstantiateModule of the other fail with %q, on both engines. Instances that already exist keep answering like the twin. Minimal input: compile(bytes) twice, close the first, InstantiateModule(the second).", strings.TrimPrefix(l, "create-failed: "))
			})
		}
	}
	evid.Label("probe-calls", int64(res.probes))
	evid.Label("steps", int64(len(h.Steps)))
	if m.nontrivial {
		evid.Sample("nontrivial-history", 2, h)
	}
}

func TestKnownDanglingFuncref(t *testing.T) {
	if evid.ReplayPath() != "" || os.Getenv("C09_CHILD") != "" {
		t.Skip()
	}
	if sh, _ := evid.Shard(); sh != 0 {
		t.Skip()
	}
	for _, kv := range knownVariants() {
		for _, eng := range []string{"interpreter", "compiler"} {
			h := kv.hist(eng)
			// self-test of the input: with the collector switched off the history must hold
			if out, died := runIsolated(h, true); died != "" || out.Violation != "" || out.Harness != "" {
				evid.Incomplete("known-finding input %q does not hold even without gc (%s): %s %s %s", kv.name, eng, died, out.Violation, out.Harness)
				t.Errorf("known-finding input %q broken: %s %s %s", kv.name, died, out.Violation, out.Harness)
				continue
			}
			out, died := runIsolated(h, false)
			switch {
			case out.Harness != "":
				evid.Incomplete("known-finding input %q: harness error (%s): %s", kv.name, eng, out.Harness)
				t.Errorf("harness: %s", out.Harness)
			case died != "" || out.Violation != "":
				msg := died
				if msg == "" {
					msg = strings.SplitN(out.Violation, "\n", 2)[0]
				}
				evid.Label("known-finding-reproduced: "+kv.name+" ["+eng+"]", 1)
				if evid.Finding(knownID, "known-dangling-funcref", h, "[%s; %s] the function reference dangles after its instance is closed, dropped and collected: %s", eng, kv.name, msg) {
					t.Errorf("%s %s: %s", eng, kv.name, msg)
				}
			case kv.canonical:
				evid.Note("known finding %s no longer reproduces on the %s engine", knownID, eng)
			default:
				evid.Label("known-finding-variant-holds: "+kv.name+" ["+eng+"]", 1)
			}
		}
	}
}

func TestHistories(t *testing.T) {
	if evid.ReplayPath() != "" || os.Getenv("C09_CHILD") != "" {
		t.Skip()
	}
	evid.Check(t, "lifetime-histories", evid.Scale(1600, 160000), property)
}

// ---- isolated execution of one history in a child process ----

type childOut struct {
	Violation string         `json:"violation"`
	Harness   string         `json:"harness"`
	Labels    map[string]int `json:"labels"`
}

// TestChild runs the history in $C09_CHILD and prints the result (used by runIsolated).
func TestChild(t *testing.T) {
	p := os.Getenv("C09_CHILD")
	if p == "" {
		t.Skip()
	}
	var h history
	b, err := os.ReadFile(p)
	if err == nil {
		err = json.Unmarshal(b, &h)
	}
	if err != nil {
		t.Fatal(err)
	}
	if h.Stress != nil {
		defer runtime.GOMAXPROCS(runtime.GOMAXPROCS(4))
		var msg string
		for i := 0; i < 3 && msg == ""; i++ { // schedule dependent: a few chances
			msg = runStress(h.Stress)
		}
		printChildResult(childOut{Violation: msg})
		if abandoned {
			os.Exit(0)
		}
		return
	}
	noGC := os.Getenv("C09_NOGC") != ""
	if noGC {
		debug.SetGCPercent(-1) // not even an automatic collection
	}
	res := runHistory(&h, noGC)
	printChildResult(childOut{res.Violation, res.Harness, res.Labels})
}

func printChildResult(o childOut) {
	out, _ := json.Marshal(o)
	fmt.Printf("\nC09RESULT %s\n", out)
}

// runIsolated executes h in a child process so that a crash is an observation.
func runIsolated(h *history, noGC bool) (out childOut, died string) {
	b, _ := json.Marshal(h)
	f, err := os.CreateTemp(evid.WorkDir(), "hist-*.json")
	if err != nil {
		return out, "harness: " + err.Error()
	}
	f.Write(b)
	f.Close()
	defer os.Remove(f.Name())
	cmd := exec.Command(os.Args[0], "-test.run", "^TestChild$", "-test.count=1", "-test.timeout=120s")
	env := []string{}
	for _, e := range os.Environ() {
		if strings.HasPrefix(e, "VERIF_SHARD_OUT=") || strings.HasPrefix(e, "VERIF_JOURNAL=") || strings.HasPrefix(e, "VERIF_REPLAY=") {
			continue
		}
		env = append(env, e)
	}
	env = append(env, "C09_CHILD="+f.Name())
	if noGC {
		env = append(env, "C09_NOGC=1")
	}
	cmd.Env = env
	var buf bytes.Buffer
	cmd.Stdout, cmd.Stderr = &buf, &buf
	done := make(chan error, 1)
	if err := cmd.Start(); err != nil {
		return out, "harness: " + err.Error()
	}
	go func() { done <- cmd.Wait() }()
	select {
	case err = <-done:
	case <-time.After(150 * time.Second):
		cmd.Process.Kill()
		<-done
		return out, "child timed out"
	}
	sc := bufio.NewScanner(&buf)
	sc.Buffer(make([]byte, 1<<20), 1<<24)
	var first string
	for sc.Scan() {
		line := sc.Text()
		if strings.HasPrefix(line, "C09RESULT ") {
			if json.Unmarshal([]byte(strings.TrimPrefix(line, "C09RESULT ")), &out) == nil {
				return out, ""
			}
		}
		if first == "" {
			for _, m := range []string{"fatal error:", "unexpected signal", "SIGSEGV", "SIGBUS", "panic: ", "unexpected fault address", "SIGILL"} {
				if strings.Contains(line, m) {
					first = strings.TrimSpace(line)
				}
			}
		}
	}
	if first == "" {
		first = fmt.Sprintf("child ended without a result (%v)", err)
	}
	return out, "process death: " + first
}

// ---- the known finding ----

func hist(engine string, specs []modSpec, steps ...step) *history {
	return &history{Cfg: config{Engine: engine}, Specs: specs, Steps: steps}
}

type knownVariant struct {
	name      string
	canonical bool
	hist      func(engine string) *history
}

// knownVariants are the specific inputs of the open finding. The canonical one: instance i0
// (named "a") hands out ref.func f0, instance i1 stores it in its private table, i0 is closed,
// the harness drops it, the collector runs, and i1 calls through the slot. The others show how
// wide the class is (they all reach the same mechanism: a reference is an address the
// collector does not see, and nothing else keeps its instance reachable).
func knownVariants() []knownVariant {
	mv := func(from, to int, k int, dst string, dtbl, dslot int) step {
		return step{Op: "move", Inst: from, To: to, Src: "func", K: k, Dst: dst, DTbl: dtbl, DSlot: dslot}
	}
	base := []step{{Op: "compile", Spec: 0}, {Op: "compile", Spec: 1}, {Op: "inst", CM: 0, Name: "a"}, {Op: "inst", CM: 1, Name: "b"}}
	cdg := func(i int) []step { return []step{{Op: "close", Inst: i}, {Op: "drop", Inst: i}, {Op: "gc"}} }
	mk := func(specs []modSpec, parts ...[]step) func(string) *history {
		var steps []step
		for _, p := range parts {
			steps = append(steps, p...)
		}
		return func(engine string) *history { return hist(engine, specs, steps...) }
	}
	plain := []modSpec{{ID: 1, Elem: -1}, {ID: 2, Elem: -1}}
	return []knownVariant{
		{"reference in another instance's private table", true,
			mk(plain, base, []step{mv(0, 1, 0, "slot", 1, 0)}, cdg(0), []step{{Op: "call", Inst: 1, Fn: "call1", Arg: 0}})},
		{"reference in another instance's private funcref global", false,
			mk(plain, base, []step{mv(0, 1, 0, "glob", 0, 0)}, cdg(0), []step{{Op: "call", Inst: 1, Fn: "callg"}})},
		{"reference in a table exported by a and imported by b, defining instance c neither exports nor imports it", false,
			mk([]modSpec{{ID: 1, Elem: -1, ExpTab: true}, {ID: 2, Elem: -1, TabFrom: "a"}, {ID: 3, Elem: -1}},
				base, []step{{Op: "compile", Spec: 2}, {Op: "inst", CM: 2, Name: "c"}, mv(2, 0, 0, "slot", 0, 2)}, cdg(2),
				[]step{{Op: "call", Inst: 1, Fn: "call0", Arg: 2}})},
		{"ref.func of an imported function, handed on by the importer b to c's private table, b closed", false,
			mk([]modSpec{{ID: 1, Elem: -1}, {ID: 2, Elem: -1, ImpFrom: "a"}},
				base, []step{{Op: "inst", CM: 0, Name: "c"}, mv(1, 2, 2, "slot", 1, 0)}, cdg(1),
				[]step{{Op: "call", Inst: 2, Fn: "call1", Arg: 0}})},
		{"reference in a's exported funcref global imported by b, a closed (the compiler keeps a reachable through the imported global)", false,
			mk([]modSpec{{ID: 1, Elem: -1, ExpGlob: true}, {ID: 2, Elem: -1, GlobFrom: "a"}},
				base, []step{mv(0, 0, 0, "glob", 0, 0)}, cdg(0), []step{{Op: "call", Inst: 1, Fn: "callg"}})},
	}
}

// knownHistory is the canonical input of the open finding.
func knownHistory(engine string) *history { return knownVariants()[0].hist(engine) }

// knownInputPath is where the canonical input of the open finding is kept as a replay file
// (./check C09 --replay <that file> reproduces it).
func knownInputPath(engine string) string {
	return filepath.Join(evid.Root(), "checks", "c09", "known-dangling-funcref."+engine+".json")
}

// TestKnownInputFiles keeps the stored replay inputs of the finding equal to what
// TestKnownDanglingFuncref executes (C09_WRITE_KNOWN=1 rewrites them).
func TestKnownInputFiles(t *testing.T) {
	if evid.ReplayPath() != "" || os.Getenv("C09_CHILD") != "" {
		t.Skip()
	}
	if sh, _ := evid.Shard(); sh != 0 {
		t.Skip()
	}
	for _, eng := range []string{"interpreter", "compiler"} {
		want, _ := json.MarshalIndent(map[string]any{"property": "C09", "check": "known-dangling-funcref", "finding": knownID,
			"message": "canonical input of the open finding " + knownID, "case": knownHistory(eng)}, "", " ")
		want = append(want, '\n')
		if os.Getenv("C09_WRITE_KNOWN") != "" {
			if err := os.WriteFile(knownInputPath(eng), want, 0o644); err != nil {
				t.Fatal(err)
			}
			continue
		}
		got, err := os.ReadFile(knownInputPath(eng))
		if err != nil || !bytes.Equal(got, want) {
			evid.Incomplete("stored known-finding input %s is missing or out of date (%v)", knownInputPath(eng), err)
			t.Errorf("stored known-finding input %s is missing or out of date (%v)", knownInputPath(eng), err)
		}
	}
}

func TestReplay(t *testing.T) {
	p := evid.ReplayPath()
	if p == "" || os.Getenv("C09_CHILD") != "" {
		t.Skip()
	}
	var h history
	if _, err := evid.LoadReplay(p, &h); err != nil {
		t.Fatal(err)
	}
	if h.Wait != nil {
		if msg := checkWait(h.Wait); msg != "" {
			evid.Violation("replay", &h, "%s", msg)
			t.Fatal(msg)
		}
		return
	}
	if h.Stress != nil {
		defer runtime.GOMAXPROCS(runtime.GOMAXPROCS(4))
		// a schedule-dependent failure: give it several chances to show up again
		for i := 0; i < 5; i++ {
			if msg := runStress(h.Stress); msg != "" {
				evid.Violation("replay", &h, "concurrent compile/instantiate/close (%+v): %s", *h.Stress, msg)
				if abandoned {
					os.Exit(1) // blocked goroutines: do not run deferred closes
				}
				t.Fatal(msg)
			}
		}
		return
	}
	res := runHistory(&h, false)
	if res.Harness != "" {
		t.Fatalf("harness: %s", res.Harness)
	}
	if res.Violation != "" {
		evid.Violation("replay", &h, "%s\nhistory:\n%s", res.Violation, describe(&h))
		t.Fatal(res.Violation)
	}
}
