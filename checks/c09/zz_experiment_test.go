package c09

import (
	"fmt"
	"os"
	"pgregory.net/rapid"
	"sort"
	"testing"
)

// temporary: explore which placements of a foreign reference dangle.
func TestExperiment(t *testing.T) {
	if os.Getenv("C09_EXP") == "" {
		t.Skip()
	}
	mv := func(from, to int, src string, k int, dst string, dtbl, dslot int) step {
		return step{Op: "move", Inst: from, To: to, Src: src, K: k, Dst: dst, DTbl: dtbl, DSlot: dslot}
	}
	type variant struct {
		name  string
		specs []modSpec
		steps []step
	}
	base := []step{{Op: "compile", Spec: 0}, {Op: "compile", Spec: 1}, {Op: "inst", CM: 0, Name: "a"}, {Op: "inst", CM: 1, Name: "b"}}
	cdg := func(i int) []step {
		return []step{{Op: "close", Inst: i}, {Op: "drop", Inst: i}, {Op: "gc", Churn: os.Getenv("C09_CHURN") != ""}}
	}
	cat := func(xs ...[]step) []step {
		var r []step
		for _, x := range xs {
			r = append(r, x...)
		}
		return r
	}
	vs := []variant{
		{"V1 A.f0 -> B private table1; close A", []modSpec{{ID: 1, Elem: -1}, {ID: 2, Elem: -1}},
			cat(base, []step{mv(0, 1, "func", 0, "slot", 1, 0)}, cdg(0))},
		{"V2 A.f0 -> B private global; close A", []modSpec{{ID: 1, Elem: -1}, {ID: 2, Elem: -1}},
			cat(base, []step{mv(0, 1, "func", 0, "glob", 0, 0)}, cdg(0))},
		{"V3 A.f0 -> B exported table0 (A not involved); close A", []modSpec{{ID: 1, Elem: -1}, {ID: 2, Elem: -1, ExpTab: true}},
			cat(base, []step{mv(0, 1, "func", 0, "slot", 0, 0)}, cdg(0))},
		{"V4 A.f0 -> B non-exported table0; close A", []modSpec{{ID: 1, Elem: -1}, {ID: 2, Elem: -1}},
			cat(base, []step{mv(0, 1, "func", 0, "slot", 0, 0)}, cdg(0))},
		{"V5 B imports A.tab, elem writes B.f1; close B; probe A", []modSpec{{ID: 1, Elem: -1, ExpTab: true}, {ID: 2, Elem: 1, TabFrom: "a"}},
			cat(base, cdg(1))},
		{"V6 B imports A.tab, A.f0 in tab; close A; probe B", []modSpec{{ID: 1, Elem: 0, ExpTab: true}, {ID: 2, Elem: 1, TabFrom: "a"}},
			cat(base, cdg(0))},
		{"V7 B imports A.f0; B.handout(2)(=ref.func imp0) -> C private; close B", []modSpec{{ID: 1, Elem: -1}, {ID: 2, Elem: -1, ImpFrom: "a"}},
			cat(base, []step{{Op: "inst", CM: 0, Name: "c"}, mv(1, 2, "func", 2, "slot", 1, 0)}, cdg(1))},
		{"V8 B imports A.f0; A.f1 -> B private; close A", []modSpec{{ID: 1, Elem: -1}, {ID: 2, Elem: -1, ImpFrom: "a"}},
			cat(base, []step{mv(0, 1, "func", 1, "slot", 1, 0)}, cdg(0))},
		{"V9 A exports g holding A.f0, B imports g; close A", []modSpec{{ID: 1, Elem: -1, ExpGlob: true}, {ID: 2, Elem: -1, GlobFrom: "a"}},
			cat(base, []step{mv(0, 0, "func", 0, "glob", 0, 0)}, cdg(0))},
		{"V10 C.f0 -> shared table (A exports, B imports), C not involved; close C", []modSpec{{ID: 1, Elem: -1, ExpTab: true}, {ID: 2, Elem: -1, TabFrom: "a"}, {ID: 3, Elem: -1}},
			cat(base, []step{{Op: "compile", Spec: 2}, {Op: "inst", CM: 2, Name: "c"}, mv(2, 0, "func", 0, "slot", 0, 2)}, cdg(2))},
		{"V11 B imports A.f0; close A; B.calli", []modSpec{{ID: 1, Elem: -1}, {ID: 2, Elem: -1, ImpFrom: "a"}},
			cat(base, cdg(0))},
		{"V12 B imports A.tab; A.f0 -> B private table1 (A involved in B.tab0); close A", []modSpec{{ID: 1, Elem: -1, ExpTab: true}, {ID: 2, Elem: -1, TabFrom: "a"}},
			cat(base, []step{mv(0, 1, "func", 0, "slot", 1, 0)}, cdg(0))},
		{"V13 B imports A.g (global only); A.f0 -> B private table; close A", []modSpec{{ID: 1, Elem: -1, ExpGlob: true}, {ID: 2, Elem: -1, GlobFrom: "a"}},
			cat(base, []step{mv(0, 1, "func", 0, "slot", 1, 0)}, cdg(0))},
	}
	for _, eng := range []string{"interpreter", "compiler"} {
		for _, v := range vs {
			h := hist(eng, v.specs, v.steps...)
			m := newModel(h.Cfg, h.Specs)
			for _, s := range h.Steps {
				m.apply(s)
			}
			esc, why := m.escaped()
			out, died := runIsolated(h, false)
			fmt.Printf("%-12s %-70s model-escaped=%v(%s) nontrivial=%v\n      -> died=%q viol=%q harness=%q labels=%v\n", eng, v.name, esc, why, m.nontrivial, died, firstLine(out.Violation), out.Harness, out.Labels)
		}
	}
}

func firstLine(s string) string {
	for i := range s {
		if s[i] == '\n' {
			return s[:i]
		}
	}
	return s
}

// temporary: generator statistics without executing anything.
func TestGenStats(t *testing.T) {
	if os.Getenv("C09_GEN") == "" {
		t.Skip()
	}
	cnt := map[string]int{}
	n := 0
	rapid.Check(t, func(t *rapid.T) {
		h, m, ex := genHistory(t)
		n++
		{
			m2 := newModel(h.Cfg, h.Specs)
			seen := map[string]bool{}
			for _, s := range h.Steps {
				if s.Op == "close" && m2.live(s.Inst) && m2.referenced(s.Inst) {
					seen["closed-referenced"] = true
				}
				if s.Op == "drop" && s.Inst < len(m2.insts) && m2.insts[s.Inst].ok && m2.referenced(s.Inst) {
					seen["dropped-referenced"] = true
				}
				m2.apply(s)
				for y := range m2.insts {
					if m2.live(y) && (m2.insts[y].impFrom >= 0 || len(m2.insts[y].tab0.involved) > 1) {
						seen["has-dependent-instance"] = true
					}
				}
			}
			for k := range seen {
				cnt[k]++
			}
		}
		if m.nontrivial {
			cnt["nontrivial"]++
		}
		for l := range m.labels {
			cnt[l]++
		}
		if ex > 0 {
			cnt["hist-excl"]++
		}
		closes, drops, gcs, refclose := 0, 0, 0, 0
		for _, s := range h.Steps {
			switch s.Op {
			case "close":
				closes++
			case "drop", "dropall":
				drops++
			case "gc":
				gcs++
			}
			cnt["op-"+s.Op]++
		}
		_ = refclose
		if closes > 0 {
			cnt["has-close"]++
		}
		if closes > 0 && drops > 0 {
			cnt["has-close-drop"]++
		}
		if closes > 0 && drops > 0 && gcs > 0 {
			cnt["has-close-drop-gc"]++
		}
		live := 0
		for h := range m.insts {
			if m.live(h) {
				live++
			}
		}
		cnt[fmt.Sprintf("live-at-end-%d", live)]++
		cnt["steps"] += len(h.Steps)
	})
	fmt.Println("cases", n)
	var ks []string
	for k := range cnt {
		ks = append(ks, k)
	}
	sort.Strings(ks)
	for _, k := range ks {
		fmt.Printf("%7d %s\n", cnt[k], k)
	}
}

func TestSibling(t *testing.T) {
	if os.Getenv("C09_SIB") == "" {
		t.Skip()
	}
	for _, eng := range []string{"interpreter", "compiler"} {
		specs := []modSpec{{ID: 1, Elem: -1}}
		hs := map[string]*history{
			"compile twice, instantiate cm1, close cm0, probe, instantiate cm1 again": hist(eng, specs,
				step{Op: "compile", Spec: 0}, step{Op: "compile", Spec: 0}, step{Op: "inst", CM: 1, Name: "a"},
				step{Op: "closecm", CM: 0}, step{Op: "dropcm", CM: 0}, step{Op: "gc"}, step{Op: "inst", CM: 1, Name: "b"}),
			"compile, InstantiateWithConfig same bytes, close that instance, instantiate cm0": hist(eng, specs,
				step{Op: "compile", Spec: 0}, step{Op: "instbytes", Spec: 0, Name: "a"}, step{Op: "close", Inst: 0},
				step{Op: "inst", CM: 0, Name: "b"}),
		}
		for name, h := range hs {
			res := runHistory(h, false)
			fmt.Printf("%s: %s\n   violation=%q harness=%q labels=%v\n", eng, name, res.Violation, res.Harness, res.Labels)
		}
	}
}
