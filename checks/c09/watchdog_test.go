package c09

import (
	"fmt"
	"os"
	"strings"
	"sync"
	"time"

	"verif/internal/evid"
)

// A wazero API call that never returns (e.g. because an engine lock is never released after a
// close) would block the driving goroutine for ever. Every API call made on behalf of a history
// is bracketed by wdEnter/wdLeave; a monitor goroutine notices a call that has been pending for
// stepLimit on this otherwise idle process. In the searching process the history is then
// re-executed alone in a child process (which has the same watchdog) to rule out machine load;
// a confirmed hang is a violation.
const stepLimit = 25 * time.Second

var wd struct {
	mu    sync.Mutex
	op    string
	inst  int
	fn    string
	since time.Time // zero: no call pending
	h     *history
	once  sync.Once
}

func wdEnter(op string, inst int, fn string) {
	wd.mu.Lock()
	wd.op, wd.inst, wd.fn, wd.since = op, inst, fn, time.Now()
	wd.mu.Unlock()
}

func wdLeave() {
	wd.mu.Lock()
	wd.since = time.Time{}
	wd.mu.Unlock()
}

const hangText = "did not return within"

// wdStart arms the monitor for history h (one history at a time runs in a process).
func wdStart(h *history) {
	wd.mu.Lock()
	wd.h = h
	wd.mu.Unlock()
	wd.once.Do(func() {
		go func() {
			for {
				time.Sleep(time.Second)
				wd.mu.Lock()
				pending := !wd.since.IsZero() && time.Since(wd.since) > stepLimit
				what := fmt.Sprintf("%s (instance handle %d, %s)", wd.op, wd.inst, wd.fn)
				h := wd.h
				wd.mu.Unlock()
				if pending {
					wdFire(h, what)
				}
			}
		}()
	})
}

func wdFire(h *history, what string) {
	msg := fmt.Sprintf("the API call %s %s %v: the calling goroutine is blocked for ever (the twin history without close/drop/gc is not affected)", what, hangText, stepLimit)
	switch {
	case os.Getenv("C09_CHILD") != "":
		printChildResult(childOut{Violation: msg})
		os.Exit(0)
	case evid.ReplayPath() != "":
		evid.Violation("replay", h, "%s\nhistory:\n%s", msg, describe(h))
		os.Exit(1)
	}
	out, died := runIsolated(h, false)
	if strings.Contains(out.Violation, hangText) || died == "child timed out" {
		evid.Violation("watchdog", h, "%s; reproduced alone in a child process\nhistory (%s):\n%s", msg, h.Cfg.Engine, describe(h))
		os.Exit(1)
	}
	// not reproduced alone: leave it to the driver (journaled case, infrastructure trouble)
	fmt.Fprintf(os.Stderr, "C09 watchdog: %s; NOT reproduced alone (%q %q)\n", msg, out.Violation, died)
	os.Exit(3)
}
