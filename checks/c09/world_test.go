package c09

import (
	"context"
	"fmt"
	"runtime"
	"runtime/debug"
	"strings"
	"time"

	"github.com/tetratelabs/wazero"
	"github.com/tetratelabs/wazero/api"
	"github.com/tetratelabs/wazero/experimental"

	"verif/internal/wz"
)

// config is the per-history configuration.
type config struct {
	Engine string `json:"engine"`
	TwoRT  bool   `json:"two_rt"` // two runtimes (instances of one never see those of the other)
	Cache  bool   `json:"cache"`  // the runtimes are created with one shared in-memory CompilationCache
	Term   bool   `json:"term"`   // RuntimeConfig.WithCloseOnContextDone(true)
	// CachedFns: the harness keeps one api.Function object per instance and export instead of
	// asking for a fresh one per call.
	CachedFns bool `json:"cached_fns,omitempty"`
	// Listen: modules are compiled with a FunctionListenerFactory in the context (a no-op
	// listener on every function), so that compiled code goes through the listener trampolines.
	Listen bool `json:"listen,omitempty"`
}

// step is one action of a history. Handles (CM, Inst, To, Call) are indices in order of creation.
type step struct {
	Op    string `json:"op"`
	RT    int    `json:"rt,omitempty"`
	Spec  int    `json:"spec,omitempty"`
	CM    int    `json:"cm,omitempty"`
	Inst  int    `json:"inst,omitempty"`
	To    int    `json:"to,omitempty"`
	Name  string `json:"name,omitempty"`
	Fn    string `json:"fn,omitempty"`
	Arg   int    `json:"arg,omitempty"`
	Val   int    `json:"val,omitempty"`
	Src   string `json:"src,omitempty"` // move: "func" (K=which), "slot" (K=table, Slot), "glob", "null"
	K     int    `json:"k,omitempty"`
	Slot  int    `json:"slot,omitempty"`
	Dst   string `json:"dst,omitempty"` // move: "slot" (DTbl, DSlot) or "glob"
	DTbl  int    `json:"dtbl,omitempty"`
	DSlot int    `json:"dslot,omitempty"`
	Call  int    `json:"call,omitempty"`
	Churn bool   `json:"churn,omitempty"`
}

func (s step) String() string {
	switch s.Op {
	case "compile":
		return fmt.Sprintf("compile(rt%d, spec%d)", s.RT, s.Spec)
	case "inst":
		return fmt.Sprintf("instantiate(cm%d, name=%q)", s.CM, s.Name)
	case "instbytes":
		return fmt.Sprintf("InstantiateWithConfig(rt%d, spec%d, name=%q)", s.RT, s.Spec, s.Name)
	case "call":
		return fmt.Sprintf("call i%d.%s(%d)", s.Inst, s.Fn, s.Arg)
	case "move":
		src := s.Src
		switch s.Src {
		case "func":
			src = fmt.Sprintf("handout(%d)", s.K)
		case "slot":
			src = fmt.Sprintf("table%d[%d]", s.K, s.Slot)
		}
		dst := "global"
		if s.Dst == "slot" {
			dst = fmt.Sprintf("table%d[%d]", s.DTbl, s.DSlot)
		}
		return fmt.Sprintf("move i%d.%s -> i%d.%s", s.Inst, src, s.To, dst)
	case "mem":
		switch memFns[s.Fn] {
		case 0:
			return fmt.Sprintf("i%d.%s()", s.Inst, s.Fn)
		case 1:
			return fmt.Sprintf("i%d.%s(%d)", s.Inst, s.Fn, s.Arg)
		}
		return fmt.Sprintf("i%d.%s(%d, %d)", s.Inst, s.Fn, s.Arg, s.Val)
	case "long":
		return fmt.Sprintf("start i%d.long(%d)", s.Inst, s.Arg)
	case "resume":
		return fmt.Sprintf("resume call%d", s.Call)
	case "close", "drop":
		return fmt.Sprintf("%s i%d", s.Op, s.Inst)
	case "closecm", "dropcm":
		return fmt.Sprintf("%s cm%d", s.Op, s.CM)
	case "closert", "droprt":
		return fmt.Sprintf("%s rt%d", s.Op, s.RT)
	case "gc":
		return fmt.Sprintf("gc(churn=%v)", s.Churn)
	}
	return s.Op
}

type history struct {
	Cfg   config    `json:"cfg"`
	Specs []modSpec `json:"specs"`
	Steps []step    `json:"steps"`
	// Stress, if set, makes this case a concurrent stress run instead of a step history.
	Stress *stressCase `json:"stress,omitempty"`
	// Wait, if set, makes this case a shared-memory waiter case.
	Wait *waitCase `json:"wait,omitempty"`
}

type obs struct {
	Res   []uint64
	Out   wz.Outcome
	Trace []string // the frames of the "wasm stack trace:" section of the error text, innermost first
}

// traceOf extracts the frame lines of the wasm stack trace from an error text.
func traceOf(err error) []string {
	if err == nil {
		return nil
	}
	msg := err.Error()
	i := strings.Index(msg, "wasm stack trace:")
	if i < 0 {
		return nil
	}
	var fr []string
	for _, l := range strings.Split(msg[i:], "\n")[1:] {
		if l = strings.TrimSpace(l); l != "" {
			fr = append(fr, l)
		}
	}
	return fr
}

func (o obs) String() string {
	if o.Out.Kind == wz.KOK {
		return fmt.Sprintf("ok%v", o.Res)
	}
	return o.Out.String()
}

type cmH struct {
	cm     wazero.CompiledModule
	rt     int
	spec   int
	closed bool
}

type instH struct {
	mod    api.Module
	fns    map[string]api.Function
	rt     int
	spec   int
	name   string
	closed bool
}

type callH struct {
	inst     int
	done     chan obs
	gate     chan struct{}
	finished bool
	result   obs
}

// world is one copy of the universe: the main world receives the whole history, the twin
// receives it without close/drop/gc steps.
type world struct {
	twin        bool
	cfg         config
	bins        [][]byte
	ctx         context.Context
	cache       wazero.CompilationCache
	cacheClosed bool
	rts         [2]wazero.Runtime
	rtOpen      [2]bool
	cms         []*cmH   // nil entry: never created or dropped
	insts       []*instH // nil entry: never created or dropped
	calls       []*callH
	entered     chan chan struct{}
	names       *[2]map[string]int // main's name registry (shared by both worlds; used by the twin's resolver)
}

func newWorld(h *history, twin bool, names *[2]map[string]int) (*world, error) {
	w := &world{twin: twin, cfg: h.Cfg, ctx: context.Background(), entered: make(chan chan struct{}), names: names}
	for _, s := range h.Specs {
		w.bins = append(w.bins, buildModule(s))
	}
	if h.Cfg.Cache {
		w.cache = wazero.NewCompilationCache()
	}
	n := 1
	if h.Cfg.TwoRT {
		n = 2
	}
	for i := 0; i < n; i++ {
		rc := wz.Config(h.Cfg.Engine).WithCloseOnContextDone(h.Cfg.Term)
		if w.cache != nil {
			rc = rc.WithCompilationCache(w.cache)
		}
		rt := wazero.NewRuntimeWithConfig(w.ctx, rc)
		_, err := rt.NewHostModuleBuilder("host").NewFunctionBuilder().
			WithGoModuleFunction(api.GoModuleFunc(func(ctx context.Context, mod api.Module, stack []uint64) {
				g := make(chan struct{})
				w.entered <- g
				<-g
			}), nil, nil).Export("block").
			NewFunctionBuilder().WithGoModuleFunction(api.GoModuleFunc(func(context.Context, api.Module, []uint64) {
			panic("boom")
		}), nil, nil).Export("boom").Instantiate(w.ctx)
		if err != nil {
			return nil, err
		}
		w.rts[i], w.rtOpen[i] = rt, true
	}
	return w, nil
}

// compileCtx is the context of CompileModule / InstantiateWithConfig.
func (w *world) compileCtx(ctx context.Context) context.Context {
	if !w.cfg.Listen {
		return ctx
	}
	return experimental.WithFunctionListenerFactory(ctx, experimental.FunctionListenerFactoryFunc(func(api.FunctionDefinition) experimental.FunctionListener {
		return experimental.FunctionListenerFunc(func(context.Context, api.Module, api.FunctionDefinition, []uint64, experimental.StackIterator) {})
	}))
}

func classifyPanic(r any) wz.Outcome {
	return wz.Outcome{Kind: wz.KInternal, Detail: fmt.Sprintf("panic escaped the API: %v", r)}
}

func (w *world) compile(rt, spec int) (o obs) {
	defer func() {
		if r := recover(); r != nil {
			o = obs{Out: classifyPanic(r)}
			w.cms = append(w.cms, nil)
		}
	}()
	if w.rts[rt] == nil {
		w.cms = append(w.cms, nil)
		return obs{Out: wz.Outcome{Kind: wz.KOther, Detail: "skipped: runtime dropped"}}
	}
	wdEnter("CompileModule", -1, fmt.Sprintf("rt%d spec%d", rt, spec))
	cm, err := w.rts[rt].CompileModule(w.compileCtx(w.ctx), w.bins[spec])
	wdLeave()
	if err != nil {
		w.cms = append(w.cms, nil)
		return obs{Out: wz.Classify(err)}
	}
	w.cms = append(w.cms, &cmH{cm: cm, rt: rt, spec: spec})
	return obs{Out: wz.Outcome{Kind: wz.KOK}}
}

// instCtx: the twin instantiates everything anonymously and resolves imports through the
// main world's name registry, because in the twin nothing is closed and names would clash.
func (w *world) instCtx(rt int) context.Context {
	if !w.twin {
		return w.ctx
	}
	return experimental.WithImportResolver(w.ctx, func(name string) api.Module {
		if h, ok := w.names[rt][name]; ok && h < len(w.insts) && w.insts[h] != nil {
			return w.insts[h].mod
		}
		return nil
	})
}

func (w *world) modCfg(name string) wazero.ModuleConfig {
	if w.twin {
		name = ""
	}
	return wazero.NewModuleConfig().WithName(name)
}

func (w *world) instantiate(cm int, name string) (o obs) {
	defer func() {
		if r := recover(); r != nil {
			o = obs{Out: classifyPanic(r)}
			w.insts = append(w.insts, nil)
		}
	}()
	c := w.cms[cm]
	wdEnter("InstantiateModule", len(w.insts), name)
	mod, err := w.rts[c.rt].InstantiateModule(w.instCtx(c.rt), c.cm, w.modCfg(name))
	wdLeave()
	if err != nil {
		w.insts = append(w.insts, nil)
		return obs{Out: wz.Classify(err)}
	}
	w.insts = append(w.insts, &instH{mod: mod, fns: map[string]api.Function{}, rt: c.rt, spec: c.spec, name: name})
	return obs{Out: wz.Outcome{Kind: wz.KOK}}
}

func (w *world) instBytes(rt, spec int, name string) (o obs) {
	defer func() {
		if r := recover(); r != nil {
			o = obs{Out: classifyPanic(r)}
			w.insts = append(w.insts, nil)
		}
	}()
	wdEnter("InstantiateWithConfig", len(w.insts), name)
	mod, err := w.rts[rt].InstantiateWithConfig(w.compileCtx(w.instCtx(rt)), w.bins[spec], w.modCfg(name))
	wdLeave()
	if err != nil {
		w.insts = append(w.insts, nil)
		return obs{Out: wz.Classify(err)}
	}
	w.insts = append(w.insts, &instH{mod: mod, fns: map[string]api.Function{}, rt: rt, spec: spec, name: name})
	return obs{Out: wz.Outcome{Kind: wz.KOK}}
}

// fn returns the api.Function of an export. Unless the history asks for cached function
// objects a fresh one is made for every call: a reused interpreter call engine keeps stale
// frame pointers into the callees of earlier calls, which keeps collected instances alive by
// accident and hides dangling references.
func (ih *instH) fn(name string, cached bool) api.Function {
	if !cached {
		return ih.mod.ExportedFunction(name)
	}
	f := ih.fns[name]
	if f == nil {
		f = ih.mod.ExportedFunction(name)
		ih.fns[name] = f
	}
	return f
}

func (w *world) call(inst int, name string, args ...uint64) (o obs) {
	defer func() {
		if r := recover(); r != nil {
			o = obs{Out: classifyPanic(r)}
		}
	}()
	f := w.insts[inst].fn(name, w.cfg.CachedFns)
	if f == nil {
		return obs{Out: wz.Outcome{Kind: wz.KOther, Detail: "harness: no export " + name}}
	}
	wdEnter("Call", inst, name)
	res, err := f.Call(w.ctx, args...)
	wdLeave()
	return obs{Res: res, Out: wz.Classify(err), Trace: traceOf(err)}
}

// move fetches a reference from `from` and stores it into `to`; the reference itself is
// never compared (it is an address).
func (w *world) move(s step) obs {
	var r uint64
	if s.Src != "null" {
		var o obs
		switch s.Src {
		case "func":
			o = w.call(s.Inst, "handout", uint64(s.K))
		case "slot":
			o = w.call(s.Inst, "handout_slot", uint64(s.K), uint64(s.Slot))
		default:
			o = w.call(s.Inst, "handout_glob")
		}
		if o.Out.Kind != wz.KOK || len(o.Res) != 1 {
			o.Out.Detail = "fetch: " + o.Out.Detail
			return obs{Out: o.Out}
		}
		r = o.Res[0]
	}
	var o obs
	if s.Dst == "slot" {
		o = w.call(s.To, "put", uint64(s.DTbl), uint64(s.DSlot), r)
	} else {
		o = w.call(s.To, "put_glob", r)
	}
	if o.Out.Kind != wz.KOK {
		o.Out.Detail = "store: " + o.Out.Detail
	}
	return obs{Out: o.Out}
}

const hangTimeout = 60 * time.Second

// startLong starts i.long(slot) in its own goroutine with its own api.Function object and
// waits until it is suspended inside the host function (or returned early).
func (w *world) startLong(inst, slot int) string {
	c := &callH{inst: inst, done: make(chan obs, 1)}
	w.calls = append(w.calls, c)
	ctx := w.ctx
	f := w.insts[inst].mod.ExportedFunction("long")
	go func() {
		var o obs
		defer func() {
			if r := recover(); r != nil {
				o = obs{Out: classifyPanic(r)}
			}
			c.done <- o
		}()
		res, err := f.Call(ctx, uint64(slot))
		o = obs{Res: res, Out: wz.Classify(err)}
	}()
	select {
	case g := <-w.entered:
		c.gate = g
	case o := <-c.done:
		c.finished, c.result = true, o
	case <-time.After(hangTimeout):
		return "call did not reach the host function nor return"
	}
	return ""
}

func (w *world) resume(call int) (obs, string) {
	c := w.calls[call]
	if c.finished {
		return c.result, ""
	}
	close(c.gate)
	select {
	case o := <-c.done:
		c.finished, c.result = true, o
		return o, ""
	case <-time.After(hangTimeout):
		return obs{}, "resumed call did not return"
	}
}

func (w *world) closeInst(inst int) (o obs) {
	defer func() {
		if r := recover(); r != nil {
			o = obs{Out: classifyPanic(r)}
		}
	}()
	ih := w.insts[inst]
	ih.closed = true
	wdEnter("Module.Close", inst, "")
	err := ih.mod.Close(w.ctx)
	wdLeave()
	return obs{Out: wz.Classify(err)}
}

func (w *world) closeCM(cm int) (o obs) {
	defer func() {
		if r := recover(); r != nil {
			o = obs{Out: classifyPanic(r)}
		}
	}()
	wdEnter("CompiledModule.Close", cm, "")
	err := w.cms[cm].cm.Close(w.ctx)
	wdLeave()
	return obs{Out: wz.Classify(err)}
}

func (w *world) closeRT(rt int) (o obs) {
	defer func() {
		if r := recover(); r != nil {
			o = obs{Out: classifyPanic(r)}
		}
	}()
	w.rtOpen[rt] = false
	for _, ih := range w.insts {
		if ih != nil && ih.rt == rt {
			ih.closed = true
		}
	}
	wdEnter("Runtime.Close", rt, "")
	err := w.rts[rt].Close(w.ctx)
	wdLeave()
	return obs{Out: wz.Classify(err)}
}

func (w *world) closeCache() (o obs) {
	defer func() {
		if r := recover(); r != nil {
			o = obs{Out: classifyPanic(r)}
		}
	}()
	wdEnter("CompilationCache.Close", -1, "")
	err := w.cache.Close(w.ctx)
	wdLeave()
	return obs{Out: wz.Classify(err)}
}

// shutdown releases everything at the end of a history.
func (w *world) shutdown() {
	for i := range w.calls {
		w.resume(i)
	}
	for i, rt := range w.rts {
		if rt != nil && w.rtOpen[i] {
			wdEnter("Runtime.Close at the end of the history", i, "")
			rt.Close(w.ctx)
			wdLeave()
		}
	}
	if w.cache != nil && !w.cacheClosed {
		w.cache.Close(w.ctx)
	}
}

var churnSink [][]byte

// forceGC makes everything unreachable go away: two rounds of collection each followed by a
// wait for a sentinel finalizer (finalizers run in one goroutine in queueing order, so after
// the second sentinel every finalizer queued by the first collection has run and the objects
// it kept are freed by the next collection), release of freed spans to the OS, and optionally
// heap churn in the small size classes so that freed slots are reused with foreign content.
func forceGC(churn bool) (timeouts int) {
	for round := 0; round < 2; round++ {
		done := make(chan struct{})
		func() {
			s := new([4]uint64)
			runtime.SetFinalizer(s, func(*[4]uint64) { close(done) })
		}()
		runtime.GC()
		select {
		case <-done:
		case <-time.After(10 * time.Second):
			timeouts++
		}
	}
	debug.FreeOSMemory() // a third collection, then returns the freed spans to the OS
	if churn {
		const pat = 0xa5a5a5a5a5a5a5a5
		sizes := []int{16, 24, 32, 48, 64, 80, 96, 112, 128, 192, 256, 512}
		for _, sz := range sizes {
			for i := 0; i < 300; i++ {
				b := make([]byte, sz) // pointer-free spans
				for j := range b {
					b[j] = 0xa5
				}
				churnSink = append(churnSink, b)
			}
		}
		// spans of objects with pointers (function records live there)
		x := new(int)
		for i := 0; i < 600; i++ {
			churnPtr = append(churnPtr,
				&p16{x, pat}, &p24{x, pat, pat}, &p32{x, pat, pat, pat},
				&p48{x, pat, pat, pat, pat, pat}, &p64{x, pat, pat, pat, pat, pat, pat, pat})
		}
		churnSink, churnPtr = nil, nil
	}
	return
}

type (
	p16 struct {
		p *int
		a uint64
	}
	p24 struct {
		p    *int
		a, b uint64
	}
	p32 struct {
		p       *int
		a, b, c uint64
	}
	p48 struct {
		p             *int
		a, b, c, d, e uint64
	}
	p64 struct {
		p                   *int
		a, b, c, d, e, f, g uint64
	}
)

var churnPtr []any

func isOrdinary(o wz.Outcome) bool {
	return o.Kind == wz.KOther && !strings.HasPrefix(o.Detail, "harness:")
}
