package c09

import (
	"context"
	"fmt"
	"os"
	"runtime"
	"strings"
	"sync"
	"sync/atomic"
	"testing"
	"time"

	"github.com/tetratelabs/wazero"
	"github.com/tetratelabs/wazero/api"

	"verif/internal/evid"
	"verif/internal/wz"
)

// stressCase: real concurrency ("schedules" in the property's quantifier). Several goroutines
// compile, instantiate and close (instance, CompiledModule, InstantiateWithConfig instance)
// on one runtime, or on two runtimes sharing a CompilationCache, while other goroutines keep
// calling a live instance, which must keep answering the same. Creation may fail with an
// ordinary error (see the side observation about identical bytes); a wrong answer of the live
// instance, an internal failure, a panic escaping the API or the death of the process (Go
// "concurrent map writes") is a violation. The same test runs in a -race binary, where an
// unsynchronised access inside wazero is reported deterministically.
type stressCase struct {
	Engine  string `json:"engine"`
	Cache   bool   `json:"cache"`
	Workers int    `json:"workers"`
	Rounds  int    `json:"rounds"`
	Same    bool   `json:"same"` // all workers use identical bytes (one shared engine entry)
}

func runStress(sc *stressCase) string {
	ctx := context.Background()
	var cache wazero.CompilationCache
	if sc.Cache {
		cache = wazero.NewCompilationCache()
		defer func() {
			if !abandoned {
				cache.Close(ctx)
			}
		}()
	}
	var rts []wazero.Runtime
	n := 1
	if sc.Cache {
		n = 2
	}
	for i := 0; i < n; i++ {
		rc := wz.Config(sc.Engine)
		if cache != nil {
			rc = rc.WithCompilationCache(cache)
		}
		rt := wazero.NewRuntimeWithConfig(ctx, rc)
		defer func() {
			if !abandoned {
				rt.Close(ctx)
			}
		}()
		_, err := rt.NewHostModuleBuilder("host").
			NewFunctionBuilder().WithGoModuleFunction(api.GoModuleFunc(func(context.Context, api.Module, []uint64) {}), nil, nil).Export("block").
			NewFunctionBuilder().WithGoModuleFunction(api.GoModuleFunc(func(context.Context, api.Module, []uint64) { panic("boom") }), nil, nil).Export("boom").
			Instantiate(ctx)
		if err != nil {
			return "harness: " + err.Error()
		}
		rts = append(rts, rt)
	}
	liveBin := buildModule(modSpec{ID: 1, Elem: 0, ExpTab: true, ExpGlob: true})
	var lives []api.Module
	for i, rt := range rts {
		l, err := rt.InstantiateWithConfig(ctx, liveBin, wazero.NewModuleConfig().WithName("a"))
		if err != nil {
			return "harness: " + err.Error()
		}
		if _, err = l.ExportedFunction("set_tag").Call(ctx, uint64(i+1)); err != nil {
			return "harness: " + err.Error()
		}
		lives = append(lives, l)
	}
	var (
		mu       sync.Mutex
		viol     string
		stop     atomic.Bool
		wg       sync.WaitGroup
		progress atomic.Int64
	)
	fail := func(format string, a ...any) {
		mu.Lock()
		if viol == "" {
			viol = fmt.Sprintf(format, a...)
		}
		mu.Unlock()
		stop.Store(true)
	}
	guard := func(who string) {
		if r := recover(); r != nil {
			fail("%s: panic escaped the API: %v", who, r)
		}
	}
	bad := func(err error) bool { return err != nil && wz.Classify(err).Kind == wz.KInternal }
	// workers: create and close
	for g := 0; g < sc.Workers; g++ {
		wg.Add(1)
		go func(g int) {
			defer wg.Done()
			defer guard(fmt.Sprintf("worker %d", g))
			id := 2
			if !sc.Same {
				id = 2 + g
			}
			// importing the live instance's function, table, global and memory: closing the
			// importer must leave the live instance alone
			// (no active element segment: concurrent instantiations must not write shared guest state)
			bin := buildModule(modSpec{ID: id, Elem: -1, ImpFrom: "a", TabFrom: "a", GlobFrom: "a", MemFrom: "a"})
			rt := rts[g%len(rts)]
			for r := 0; r < sc.Rounds && !stop.Load(); r++ {
				progress.Add(1)
				if (r+g)%3 == 0 {
					m, err := rt.InstantiateWithConfig(ctx, bin, wazero.NewModuleConfig().WithName(""))
					if bad(err) {
						fail("worker %d: InstantiateWithConfig: %v", g, err)
						return
					}
					if err == nil {
						if _, err = m.ExportedFunction("calli").Call(ctx); bad(err) {
							fail("worker %d: call: %v", g, err)
						}
						if err = m.Close(ctx); bad(err) {
							fail("worker %d: Close: %v", g, err)
						}
					}
					continue
				}
				cm, err := rt.CompileModule(ctx, bin)
				if bad(err) {
					fail("worker %d: CompileModule: %v", g, err)
					return
				}
				if err != nil {
					continue
				}
				m, err := rt.InstantiateModule(ctx, cm, wazero.NewModuleConfig().WithName(""))
				if bad(err) {
					fail("worker %d: InstantiateModule: %v", g, err)
				}
				if err == nil {
					if _, err = m.ExportedFunction("xtrap").Call(ctx); err == nil || bad(err) {
						fail("worker %d: xtrap answered %v", g, err)
					}
					if (r+g)%2 == 0 {
						m.Close(ctx)
						cm.Close(ctx)
					} else {
						cm.Close(ctx)
						m.Close(ctx)
					}
				} else {
					cm.Close(ctx)
				}
			}
		}(g)
	}
	// observers: the live instances keep answering the same
	var owg sync.WaitGroup
	for i, l := range lives {
		owg.Add(1)
		go func(i int, l api.Module) {
			defer owg.Done()
			defer guard("observer")
			want := uint64((i+1)*1000 + 10)
			for !stop.Load() {
				progress.Add(1)
				res, err := l.ExportedFunction("self").Call(ctx)
				if err != nil || len(res) != 1 || res[0] != want {
					fail("live instance %d: self answered %v, %v (want %d)", i, res, err, want)
					return
				}
				_, err = l.ExportedFunction("ftrap").Call(ctx)
				if err == nil || wz.Classify(err).Kind == wz.KInternal {
					fail("live instance %d: ftrap answered %v", i, err)
					return
				}
				res, err = l.ExportedFunction("msize").Call(ctx)
				if err != nil || res[0] < 1 {
					fail("live instance %d: msize answered %v, %v", i, res, err)
					return
				}
				runtime.Gosched()
			}
		}(i, l)
	}
	// wait for the goroutines, but notice a deadlock: nobody makes progress for stallLimit
	finished := make(chan struct{})
	go func() {
		wg.Wait()
		stop.Store(true)
		owg.Wait()
		close(finished)
	}()
	last, lastAt := progress.Load(), time.Now()
	for {
		select {
		case <-finished:
			return viol
		case <-time.After(500 * time.Millisecond):
		}
		if p := progress.Load(); p != last {
			last, lastAt = p, time.Now()
		} else if time.Since(lastAt) > stallLimit {
			stop.Store(true)
			// the blocked goroutines are abandoned (their deferred Close calls would block too)
			abandoned = true
			return fmt.Sprintf("%s: none of the %d goroutines compiling/instantiating/closing/calling made progress for %v", stallText, sc.Workers+len(lives), stallLimit)
		}
	}
}

const (
	stallLimit = 20 * time.Second
	stallText  = "deadlock"
)

// abandoned: a stress run was left with blocked goroutines; deferred closes must not run.
var abandoned bool

func TestConcurrentClose(t *testing.T) {
	if evid.ReplayPath() != "" || os.Getenv("C09_CHILD") != "" {
		t.Skip()
	}
	defer runtime.GOMAXPROCS(runtime.GOMAXPROCS(4))
	race := os.Getenv("VERIF_RACE") != ""
	rounds := 300
	if evid.Thorough() {
		rounds = 3000
	}
	if race {
		rounds = 60
	}
	sh, _ := evid.Shard()
	k := 0
	for _, eng := range wz.Engines {
		for _, cache := range []bool{false, true} {
			for _, same := range []bool{false, true} {
				k++
				if !race && !evid.Mine(k) {
					continue
				}
				sc := &stressCase{Engine: eng, Cache: cache, Workers: 6, Rounds: rounds, Same: same}
				h := &history{Cfg: config{Engine: eng, Cache: cache}, Stress: sc}
				evid.Journal(h)
				msg := runStress(sc)
				if strings.HasPrefix(msg, "harness:") {
					evid.Incomplete("concurrent-close: %s", msg)
					t.Error(msg)
					continue
				}
				if strings.HasPrefix(msg, stallText) {
					// rule out machine load: the same stress case alone in a child process
					abandoned = false
					out, died := runIsolated(h, false)
					if !strings.Contains(out.Violation, stallText) && died != "child timed out" {
						evid.Incomplete("concurrent-close: %s; NOT reproduced alone (%q %q)", msg, out.Violation, died)
						t.Error(msg)
						return
					}
					msg += "; reproduced alone in a child process"
				}
				if msg != "" {
					evid.Violation("concurrent-close", h, "concurrent compile/instantiate/close (%+v): %s", *sc, msg)
					t.Error(msg)
					if strings.HasPrefix(msg, stallText) {
						return // goroutines of this process are blocked for good
					}
					continue
				}
				if !race {
					evid.Case(evid.Hash64("stress", eng, cache, same, sh), true, "concurrent-close-stress-"+eng)
					evid.Label("concurrent-close-rounds", int64(sc.Workers*sc.Rounds))
				}
			}
		}
	}
}
