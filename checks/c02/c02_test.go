// C02 — guest memory accesses never leave the linear memory.
//
// Generator: access scripts in a small language (setlocal / load / store / atomic / SIMD /
// memory.fill / memory.copy / guest and host growth / calls, inside blocks, twice-run loops and
// ifs) whose base address is a constant, a parameter, a reused local or a small computation,
// with static offsets and addresses steered to the ends of the memory, to 2^31 and to 2^32, on
// memories of 0-3 pages and of 32767..65536 pages. Oracles: (1) an independent reference model
// (sparse bytes, 64-bit effective addresses) predicts the result / trap kind, the number of
// accesses completed before the trap, the final size and the final contents; (2) the memory is
// backed by guardmem (PROT_NONE guards, page-exact commit, optional move-on-grow): any touch
// outside [base, base+size) kills the process, which the driver attributes to the journaled
// case. Each engine is judged against the model, not against the other engine.
package c02

import (
	"context"
	"encoding/binary"
	"fmt"
	"sort"
	"strings"
	"testing"

	"github.com/tetratelabs/wazero"
	"github.com/tetratelabs/wazero/api"
	"github.com/tetratelabs/wazero/experimental"
	"pgregory.net/rapid"

	"verif/internal/evid"
	"verif/internal/guardmem"
	"verif/internal/wasmenc"
	"verif/internal/wz"
)

func TestMain(m *testing.M) { evid.Main(m, "C02") }

// Base describes how the base address of an access is produced.
type Base struct {
	Kind  string `json:"kind"` // const | param | local | param+const | param<<sh | local+param<<sh | ext
	Idx   int    `json:"idx,omitempty"`
	Idx2  int    `json:"idx2,omitempty"`
	C     uint32 `json:"c,omitempty"`
	Shift uint8  `json:"sh,omitempty"`
}

// Op is one node of the script.
type Op struct {
	Kind   string `json:"k"` // setlocal load store aload astore armw vload vstore fill copy grow hostgrow call block loop if
	Sub    string `json:"sub,omitempty"`
	Width  int    `json:"w,omitempty"`
	Base   Base   `json:"base,omitempty"`
	Base2  Base   `json:"base2,omitempty"` // copy source
	Off    uint32 `json:"off,omitempty"`
	Val    uint64 `json:"val,omitempty"`
	N      uint32 `json:"n,omitempty"`    // fill/copy length, grow delta
	Lane   int    `json:"lane,omitempty"` // lane index
	Local  int    `json:"local,omitempty"`
	Param  int    `json:"param,omitempty"` // if: condition parameter
	Body   []Op   `json:"body,omitempty"`
	Signed bool   `json:"signed,omitempty"`
	T64    bool   `json:"t64,omitempty"` // integer load/store of i64 type
}

// Case is the replayable form.
type Case struct {
	Pages  uint32    `json:"pages"`
	Max    int64     `json:"max"`
	Params [3]uint32 `json:"params"`
	Ops    []Op      `json:"ops"`
	Engine string    `json:"engine"`
	Alloc  string    `json:"alloc"`         // default | guard | guard-moving
	Mem    string    `json:"mem,omitempty"` // "" = the module defines its memory | "imported" = another instance ("owner") defines it
	CapMax bool      `json:"capacity_from_max,omitempty"` // WithMemoryCapacityFromMax(true): the buffer is allocated up to the maximum at once (an allocator may still move it)
	Shared bool      `json:"shared,omitempty"` // the memory is a shared one (threads proposal): never moved, allocated up to its maximum at once
}

// ---------------- reference model ----------------

type model struct {
	size   uint64 // bytes
	max    uint64 // bytes
	mem    map[uint64]byte
	locals [4]uint32
	params [3]uint32
	acc    uint64
	prog   uint32
	trap   string
	eas    []uint64 // every effective address computed (for targeted comparison)
}

func (m *model) base(b Base) uint32 {
	switch b.Kind {
	case "const":
		return b.C
	case "param":
		return m.params[b.Idx]
	case "local":
		return m.locals[b.Idx]
	case "param+const":
		return m.params[b.Idx] + b.C
	case "param<<sh":
		return m.params[b.Idx] << b.Shift
	case "local+param<<sh":
		return m.locals[b.Idx] + m.params[b.Idx2]<<b.Shift
	case "wrap64": // i32.wrap_i64 of an i64 whose upper half is non-zero
		return m.params[b.Idx] + b.C
	}
	return 0
}

func (m *model) rd(ea uint64, w int) uint64 {
	var v uint64
	for i := 0; i < w; i++ {
		v |= uint64(m.mem[ea+uint64(i)]) << (8 * uint(i))
	}
	return v
}

func (m *model) wr(ea uint64, w int, v uint64) {
	for i := 0; i < w; i++ {
		m.mem[ea+uint64(i)] = byte(v >> (8 * uint(i)))
	}
}

func (m *model) fold(v uint64) { m.acc = m.acc*31 + v }

func sext(v uint64, bits uint) uint64 {
	s := 64 - bits
	return uint64(int64(v<<s) >> s)
}

// check returns false (and sets trap) if the access is out of bounds.
func (m *model) check(ea uint64, n uint64) bool {
	m.eas = append(m.eas, ea)
	if ea+n > m.size {
		m.trap = "out of bounds memory access"
		return false
	}
	return true
}

func (m *model) exec(ops []Op) bool {
	for i := range ops {
		op := &ops[i]
		switch op.Kind {
		case "setlocal":
			m.locals[op.Local] = m.base(op.Base)
		case "load":
			ea := uint64(m.base(op.Base)) + uint64(op.Off)
			if !m.check(ea, uint64(op.Width)) {
				return false
			}
			v := m.rd(ea, op.Width)
			if op.Signed {
				v = sext(v, uint(op.Width*8))
			}
			if !op.T64 {
				v &= 0xffffffff
			}
			m.fold(v)
			m.prog++
		case "store":
			ea := uint64(m.base(op.Base)) + uint64(op.Off)
			if !m.check(ea, uint64(op.Width)) {
				return false
			}
			m.wr(ea, op.Width, op.Val)
			m.prog++
		case "aload", "astore", "armw":
			ea := uint64(m.base(op.Base)) + uint64(op.Off)
			if !m.check(ea, uint64(op.Width)) {
				return false
			}
			if ea%uint64(op.Width) != 0 {
				m.trap = "unaligned atomic"
				return false
			}
			mask := ^uint64(0)
			if op.Width < 8 {
				mask = 1<<(8*uint(op.Width)) - 1
			}
			switch op.Kind {
			case "aload":
				m.fold(m.rd(ea, op.Width))
			case "astore":
				m.wr(ea, op.Width, op.Val)
			default:
				old := m.rd(ea, op.Width)
				nv := op.Val & mask
				switch op.Sub {
				case "add":
					nv = (old + op.Val) & mask
				case "xchg":
				case "cmpxchg": // expected = 0, replacement = Val
					if old != 0 {
						nv = old
					}
				}
				m.wr(ea, op.Width, nv)
				m.fold(old)
			}
			m.prog++
		case "vload":
			ea := uint64(m.base(op.Base)) + uint64(op.Off)
			if !m.check(ea, uint64(op.Width)) {
				return false
			}
			lo, hi := m.vload(op, ea)
			m.fold(lo)
			m.fold(hi)
			m.prog++
		case "vstore":
			ea := uint64(m.base(op.Base)) + uint64(op.Off)
			if !m.check(ea, uint64(op.Width)) {
				return false
			}
			// the stored vector is v128.const Val, ^Val; a lane store takes lane `Lane`
			var buf [16]byte
			binary.LittleEndian.PutUint64(buf[:8], op.Val)
			binary.LittleEndian.PutUint64(buf[8:], ^op.Val)
			if op.Sub == "full" {
				for i := 0; i < 16; i++ {
					m.mem[ea+uint64(i)] = buf[i]
				}
			} else {
				for i := 0; i < op.Width; i++ {
					m.mem[ea+uint64(i)] = buf[op.Lane*op.Width+i]
				}
			}
			m.prog++
		case "fill":
			d := uint64(m.base(op.Base))
			if !m.check(d, uint64(op.N)) {
				return false
			}
			for i := uint64(0); i < uint64(op.N); i++ {
				m.mem[d+i] = byte(op.Val)
			}
			m.prog++
		case "copy":
			d, s := uint64(m.base(op.Base)), uint64(m.base(op.Base2))
			m.eas = append(m.eas, s)
			if s+uint64(op.N) > m.size || !m.check(d, uint64(op.N)) {
				m.trap = "out of bounds memory access"
				return false
			}
			tmp := make([]byte, op.N)
			for i := range tmp {
				tmp[i] = m.mem[s+uint64(i)]
			}
			for i := range tmp {
				m.mem[d+uint64(i)] = tmp[i]
			}
			m.prog++
		case "grow", "hostgrow", "callgrow":
			pages := m.size / 65536
			if (pages+uint64(op.N))*65536 <= m.max {
				m.size += uint64(op.N) * 65536
				if op.Kind == "grow" {
					m.fold(pages)
				}
			} else if op.Kind == "grow" {
				m.fold(0xffffffff)
			}
		case "call":
		case "xwait":
			// the waiter's memory is all zero and nobody notifies: equal -> timed out (2), else not-equal (1)
			if uint32(op.Val) == 0 {
				m.fold(2)
			} else {
				m.fold(1)
			}
		case "block":
			if !m.exec(op.Body) {
				return false
			}
		case "loop":
			for k := 0; k < 2; k++ {
				if !m.exec(op.Body) {
					return false
				}
			}
		case "if":
			if m.params[op.Param] != 0 {
				if !m.exec(op.Body) {
					return false
				}
			}
		}
	}
	return true
}

func (m *model) vload(op *Op, ea uint64) (lo, hi uint64) {
	switch op.Sub {
	case "full":
		return m.rd(ea, 8), m.rd(ea+8, 8)
	case "zero":
		return m.rd(ea, op.Width), 0
	case "splat":
		v := m.rd(ea, op.Width)
		var r uint64
		for i := 0; i < 8; i += op.Width {
			r |= v << (8 * uint(i))
		}
		return r, r
	case "lane": // into v128.const 0 0
		var buf [16]byte
		for i := 0; i < op.Width; i++ {
			buf[op.Lane*op.Width+i] = m.mem[ea+uint64(i)]
		}
		return binary.LittleEndian.Uint64(buf[:8]), binary.LittleEndian.Uint64(buf[8:])
	default: // extending loads: "8x8s" etc: N = element bytes
		eb := int(op.N)
		var out [16]byte
		for i := 0; i < 8/eb; i++ {
			v := m.rd(ea+uint64(i*eb), eb)
			if op.Signed {
				v = sext(v, uint(eb*8))
			}
			for b := 0; b < eb*2; b++ {
				out[i*eb*2+b] = byte(v >> (8 * uint(b)))
			}
		}
		return binary.LittleEndian.Uint64(out[:8]), binary.LittleEndian.Uint64(out[8:])
	}
}

// ---------------- guest code ----------------

const (
	localAcc   = 3 // i64 accumulator (params are 0..2)
	localL0    = 4 // i32 locals L0..L3 = 4..7
	localTmp   = 8 // i64 scratch
	localLoopC = 9 // loop counters 9.. (one per nesting level)
	localV     = 20
)

func emitBase(b *wasmenc.B, x Base) {
	switch x.Kind {
	case "const":
		b.I32Const(int32(x.C))
	case "param":
		b.LocalGet(uint32(x.Idx))
	case "local":
		b.LocalGet(uint32(localL0 + x.Idx))
	case "param+const":
		b.LocalGet(uint32(x.Idx)).I32Const(int32(x.C)).Raw(wasmenc.OpI32Add)
	case "param<<sh":
		b.LocalGet(uint32(x.Idx)).I32Const(int32(x.Shift)).Raw(wasmenc.OpI32Shl)
	case "local+param<<sh":
		b.LocalGet(uint32(localL0 + x.Idx)).LocalGet(uint32(x.Idx2)).I32Const(int32(x.Shift)).Raw(wasmenc.OpI32Shl).Raw(wasmenc.OpI32Add)
	case "wrap64":
		// ((zext(param) + C) | K<<32) wrapped to i32: the i64 carries garbage in its upper half
		b.LocalGet(uint32(x.Idx)).Raw(wasmenc.OpI64ExtendI32U).I64Const(int64(x.C)).Raw(wasmenc.OpI64Add).
			I64Const(int64(uint64(x.Shift)+1) << 32).Raw(wasmenc.OpI64Or).Raw(wasmenc.OpI32WrapI64)
	}
}

// foldTop folds the i64 on top of the stack into the accumulator.
func foldTop(b *wasmenc.B) {
	b.LocalSet(localTmp).LocalGet(localAcc).I64Const(31).Raw(wasmenc.OpI64Mul).LocalGet(localTmp).Raw(wasmenc.OpI64Add).LocalSet(localAcc)
}

func progress(b *wasmenc.B) { b.GlobalGet(0).I32Const(1).Raw(wasmenc.OpI32Add).GlobalSet(0) }

func log2(w int) uint32 {
	n := uint32(0)
	for w > 1 {
		w >>= 1
		n++
	}
	return n
}

var loadOps = map[string]byte{"i32.4.u": 0x28, "i64.8.u": 0x29, "i32.1.s": 0x2c, "i32.1.u": 0x2d, "i32.2.s": 0x2e, "i32.2.u": 0x2f,
	"i64.1.s": 0x30, "i64.1.u": 0x31, "i64.2.s": 0x32, "i64.2.u": 0x33, "i64.4.s": 0x34, "i64.4.u": 0x35}
var storeOps = map[string]byte{"i32.4": 0x36, "i64.8": 0x37, "i32.1": 0x3a, "i32.2": 0x3b, "i64.1": 0x3c, "i64.2": 0x3d, "i64.4": 0x3e}

func tname(t64 bool) string {
	if t64 {
		return "i64"
	}
	return "i32"
}

func emit(b *wasmenc.B, ops []Op, depth int, fNoop, fHost, fGrow, fWait uint32) {
	for i := range ops {
		op := &ops[i]
		switch op.Kind {
		case "setlocal":
			emitBase(b, op.Base)
			b.LocalSet(uint32(localL0 + op.Local))
		case "load":
			s := "u"
			if op.Signed {
				s = "s"
			}
			emitBase(b, op.Base)
			b.Mem(loadOps[fmt.Sprintf("%s.%d.%s", tname(op.T64), op.Width, s)], 0, op.Off)
			if !op.T64 {
				b.Raw(wasmenc.OpI64ExtendI32U)
			}
			foldTop(b)
			progress(b)
		case "store":
			emitBase(b, op.Base)
			if op.T64 {
				b.I64Const(int64(op.Val))
			} else {
				b.I32Const(int32(uint32(op.Val)))
			}
			b.Mem(storeOps[fmt.Sprintf("%s.%d", tname(op.T64), op.Width)], 0, op.Off)
			progress(b)
		case "aload", "astore", "armw":
			// atomic opcodes by (type,width)
			idx := map[string]uint32{"i32.4": 0, "i64.8": 1, "i32.1": 2, "i32.2": 3, "i64.1": 4, "i64.2": 5, "i64.4": 6}[fmt.Sprintf("%s.%d", tname(op.T64), op.Width)]
			emitBase(b, op.Base)
			switch op.Kind {
			case "aload":
				b.FE(0x10+idx, log2(op.Width), op.Off)
				if !op.T64 {
					b.Raw(wasmenc.OpI64ExtendI32U)
				}
				foldTop(b)
			case "astore":
				if op.T64 {
					b.I64Const(int64(op.Val))
				} else {
					b.I32Const(int32(uint32(op.Val)))
				}
				b.FE(0x17+idx, log2(op.Width), op.Off)
			default:
				base := map[string]uint32{"add": 0x1e, "xchg": 0x41, "cmpxchg": 0x48}[op.Sub]
				if op.Sub == "cmpxchg" {
					if op.T64 {
						b.I64Const(0)
					} else {
						b.I32Const(0)
					}
				}
				if op.T64 {
					b.I64Const(int64(op.Val))
				} else {
					b.I32Const(int32(uint32(op.Val)))
				}
				b.FE(base+idx, log2(op.Width), op.Off)
				if !op.T64 {
					b.Raw(wasmenc.OpI64ExtendI32U)
				}
				foldTop(b)
			}
			progress(b)
		case "vload":
			emitBase(b, op.Base)
			switch op.Sub {
			case "full":
				b.FDMem(0x00, 0, op.Off)
			case "zero":
				b.FDMem(map[int]uint32{4: 0x5c, 8: 0x5d}[op.Width], 0, op.Off)
			case "splat":
				b.FDMem(map[int]uint32{1: 0x07, 2: 0x08, 4: 0x09, 8: 0x0a}[op.Width], 0, op.Off)
			case "lane":
				b.V128Const(0, 0)
				b.FDMem(map[int]uint32{1: 0x54, 2: 0x55, 4: 0x56, 8: 0x57}[op.Width], 0, op.Off).Raw(byte(op.Lane))
			default:
				code := map[string]uint32{"1s": 0x01, "1u": 0x02, "2s": 0x03, "2u": 0x04, "4s": 0x05, "4u": 0x06}[fmt.Sprintf("%d%s", op.N, map[bool]string{true: "s", false: "u"}[op.Signed])]
				b.FDMem(code, 0, op.Off)
			}
			b.LocalTee(localV).FD(0x1d, 0)
			foldTop(b)
			b.LocalGet(localV).FD(0x1d, 1)
			foldTop(b)
			progress(b)
		case "vstore":
			emitBase(b, op.Base)
			b.V128Const(op.Val, ^op.Val)
			if op.Sub == "full" {
				b.FDMem(0x0b, 0, op.Off)
			} else {
				b.FDMem(map[int]uint32{1: 0x58, 2: 0x59, 4: 0x5a, 8: 0x5b}[op.Width], 0, op.Off).Raw(byte(op.Lane))
			}
			progress(b)
		case "fill":
			emitBase(b, op.Base)
			b.I32Const(int32(uint32(op.Val))).I32Const(int32(op.N)).MemoryFill()
			progress(b)
		case "copy":
			emitBase(b, op.Base)
			emitBase(b, op.Base2)
			b.I32Const(int32(op.N)).MemoryCopy()
			progress(b)
		case "grow":
			b.I32Const(int32(op.N)).MemoryGrow().Raw(wasmenc.OpI64ExtendI32U)
			foldTop(b)
		case "hostgrow":
			b.I32Const(int32(op.N)).Call(fHost)
		case "callgrow":
			b.I32Const(int32(op.N)).Call(fGrow)
		case "xwait":
			// memory.atomic.wait32 executed by ANOTHER module on its own shared memory (timeout 0)
			b.I32Const(int32(op.Off)).I32Const(int32(uint32(op.Val))).Call(fWait).Raw(wasmenc.OpI64ExtendI32U)
			foldTop(b)
		case "call":
			b.Call(fNoop)
		case "block":
			b.Block()
			emit(b, op.Body, depth+1, fNoop, fHost, fGrow, fWait)
			b.End()
		case "loop":
			c := uint32(localLoopC + depth)
			b.I32Const(2).LocalSet(c)
			b.Loop()
			emit(b, op.Body, depth+1, fNoop, fHost, fGrow, fWait)
			b.LocalGet(c).I32Const(1).Raw(wasmenc.OpI32Sub).LocalTee(c).BrIf(0)
			b.End()
		case "if":
			b.LocalGet(uint32(op.Param)).If()
			emit(b, op.Body, depth+1, fNoop, fHost, fGrow, fWait)
			b.End()
		}
	}
}

func usesWaiter(ops []Op) bool {
	for _, op := range ops {
		if op.Kind == "xwait" || usesWaiter(op.Body) {
			return true
		}
	}
	return false
}

// buildWaiter is a module with its own shared memory whose function w(addr, expected) executes
// memory.atomic.wait32 with a zero timeout.
func buildWaiter() []byte {
	m := &wasmenc.Module{Mems: [][]byte{wasmenc.Limits(1, 1, true)}}
	m.ExportFunc("w", m.AddFunc([]byte{wasmenc.I32, wasmenc.I32}, []byte{wasmenc.I32}, nil,
		wasmenc.NewB().LocalGet(0).LocalGet(1).I64Const(0).FE(0x01, 2, 0).Bytes()))
	return m.Encode()
}

// buildOwner is the instance that defines the memory in "imported" mode.
func buildOwner(c *Case) []byte {
	m := &wasmenc.Module{}
	m.Mems = [][]byte{wasmenc.Limits(c.Pages, c.Max, c.Shared)}
	m.Exports = append(m.Exports, wasmenc.Export{Name: "memory", Kind: wasmenc.KMem, Idx: 0})
	m.ExportFunc("grow", m.AddFunc([]byte{wasmenc.I32}, nil, nil, wasmenc.NewB().LocalGet(0).MemoryGrow().Drop().Bytes()))
	return m.Encode()
}

func build(c *Case) []byte {
	m := &wasmenc.Module{}
	fHost := m.ImportFunc("env", "hgrow", []byte{wasmenc.I32}, nil)
	var fGrow, fWait uint32
	if usesWaiter(c.Ops) {
		fWait = m.ImportFunc("waiter", "w", []byte{wasmenc.I32, wasmenc.I32}, []byte{wasmenc.I32})
	}
	growBody := wasmenc.NewB().LocalGet(0).MemoryGrow().Drop().Bytes()
	if c.Mem == "imported" {
		// callgrow crosses into the instance that owns the memory
		fGrow = m.ImportFunc("owner", "grow", []byte{wasmenc.I32}, nil)
		m.Imports = append(m.Imports, wasmenc.Import{Mod: "owner", Name: "memory", Kind: wasmenc.KMem, Desc: wasmenc.Limits(c.Pages, c.Max, c.Shared)})
	} else {
		fGrow = m.AddFunc([]byte{wasmenc.I32}, nil, nil, growBody)
	}
	fNoop := m.AddFunc(nil, nil, nil, wasmenc.NewB().Nop().Bytes())
	b := wasmenc.NewB()
	emit(b, c.Ops, 0, fNoop, fHost, fGrow, fWait)
	b.LocalGet(localAcc)
	locals := []byte{wasmenc.I64, wasmenc.I32, wasmenc.I32, wasmenc.I32, wasmenc.I32, wasmenc.I64}
	for i := 0; i < 11; i++ {
		locals = append(locals, wasmenc.I32)
	}
	locals = append(locals, wasmenc.V128)
	run := m.AddFunc([]byte{wasmenc.I32, wasmenc.I32, wasmenc.I32}, []byte{wasmenc.I64}, locals, b.Bytes())
	m.ExportFunc("run", run)
	if c.Mem != "imported" {
		m.Mems = [][]byte{wasmenc.Limits(c.Pages, c.Max, c.Shared)}
	}
	m.Exports = append(m.Exports, wasmenc.Export{Name: "memory", Kind: wasmenc.KMem, Idx: 0}, wasmenc.Export{Name: "prog", Kind: wasmenc.KGlobal, Idx: 0})
	m.Globals = []wasmenc.Global{{Type: wasmenc.I32, Mut: true, Init: wasmenc.NewB().I32Const(0).Bytes()}}
	return m.Encode()
}

// ---------------- execution ----------------

// RunCase executes the case and compares with the model. It returns a violation message.
func RunCase(c *Case) string {
	ctx := context.Background()
	max := uint64(65536)
	if c.Max >= 0 {
		max = uint64(c.Max)
	}
	md := &model{size: uint64(c.Pages) * 65536, max: max * 65536, mem: map[uint64]byte{}, params: c.Params}
	md.exec(c.Ops)

	var ga *guardmem.Allocator
	ictx := ctx
	switch c.Alloc {
	case "guard":
		ga = guardmem.New(false)
	case "guard-moving":
		ga = guardmem.New(true)
	}
	if ga != nil {
		ictx = experimental.WithMemoryAllocator(ctx, ga)
		defer ga.Release()
	}
	rt := wazero.NewRuntimeWithConfig(ictx, wz.Config(c.Engine).WithMemoryCapacityFromMax(c.CapMax))
	defer rt.Close(ctx)
	_, err := rt.NewHostModuleBuilder("env").NewFunctionBuilder().WithGoModuleFunction(api.GoModuleFunc(func(ctx context.Context, mod api.Module, stack []uint64) {
		mod.Memory().Grow(uint32(stack[0]))
	}), []api.ValueType{api.ValueTypeI32}, nil).Export("hgrow").Instantiate(ictx)
	if err != nil {
		return "harness: " + err.Error()
	}
	if usesWaiter(c.Ops) {
		if _, err := rt.InstantiateWithConfig(ictx, buildWaiter(), wazero.NewModuleConfig().WithName("waiter")); err != nil {
			return "harness: waiter module rejected: " + err.Error()
		}
	}
	if c.Mem == "imported" {
		if _, err := rt.InstantiateWithConfig(ictx, buildOwner(c), wazero.NewModuleConfig().WithName("owner")); err != nil {
			return "harness: owner module rejected: " + err.Error()
		}
	}
	mod, err := rt.InstantiateWithConfig(ictx, build(c), wazero.NewModuleConfig().WithName(""))
	if err != nil {
		return "harness: module rejected: " + err.Error()
	}
	res, out := wz.SafeCall(ictx, mod.ExportedFunction("run"), uint64(c.Params[0]), uint64(c.Params[1]), uint64(c.Params[2]))
	if out.Kind == wz.KInternal {
		return fmt.Sprintf("internal failure: %v", out)
	}
	prog := uint32(mod.ExportedGlobal("prog").Get())
	if md.trap == "" {
		if out.Kind != wz.KOK {
			return fmt.Sprintf("model: all accesses in bounds, result %#x; engine: %v after %d accesses", md.acc, out, prog)
		}
		if res[0] != md.acc {
			return fmt.Sprintf("result %#x, model %#x (values loaded differ)", res[0], md.acc)
		}
	} else {
		if out.Kind != wz.KTrap || out.Detail != md.trap {
			got := out.String()
			if out.Kind == wz.KOK {
				got = fmt.Sprintf("ok(%#x)", res[0])
			}
			return fmt.Sprintf("model: trap %q at access #%d; engine: %s after %d accesses", md.trap, md.prog, got, prog)
		}
	}
	if prog != md.prog {
		return fmt.Sprintf("accesses completed: engine %d, model %d (trap %q)", prog, md.prog, md.trap)
	}
	mem := mod.Memory()
	pages, _ := mem.Grow(0)
	if uint64(pages)*65536 != md.size {
		return fmt.Sprintf("final size %d pages, model %d", pages, md.size/65536)
	}
	// contents: every page the model touched, every page near a computed effective address
	// (also the wrapped / sign-confused neighbours), the first and last pages; everything else
	// must be zero for small memories.
	pagesToCheck := map[uint64]bool{0: true}
	if md.size > 0 {
		pagesToCheck[md.size/65536-1] = true
	}
	for a := range md.mem {
		pagesToCheck[a/65536] = true
	}
	for _, ea := range md.eas {
		for _, d := range []uint64{0, 1 << 31, 1 << 32} {
			for _, x := range []uint64{ea + d, ea - d} {
				for _, y := range []uint64{x, x + 65535, x - 65536} {
					if y < md.size {
						pagesToCheck[y/65536] = true
					}
				}
			}
		}
	}
	if md.size <= 16*65536 {
		for p := uint64(0); p < md.size/65536; p++ {
			pagesToCheck[p] = true
		}
	}
	var ps []uint64
	for p := range pagesToCheck {
		if p*65536 < md.size {
			ps = append(ps, p)
		}
	}
	sort.Slice(ps, func(i, j int) bool { return ps[i] < ps[j] })
	for _, p := range ps {
		buf, ok := mem.Read(uint32(p*65536), 65536)
		if !ok {
			return fmt.Sprintf("host cannot read page %d of %d", p, pages)
		}
		for i, bt := range buf {
			if want := md.mem[p*65536+uint64(i)]; bt != want {
				return fmt.Sprintf("memory[%#x] = %#x, model %#x (an access touched bytes it should not have, or missed some)", p*65536+uint64(i), bt, want)
			}
		}
	}
	return ""
}

// ---------------- generator ----------------

var offsets = func(w int) []uint32 {
	return []uint32{0, 0, 0, 1, uint32(w - 1), 8, 0xffff, 0x10000, 0x7fffffff, 0x80000000, uint32(0x100000000 - uint64(w)), 0xffffffff}
}

// uni draws near-uniformly from [0,n) (rapid's IntRange is strongly biased to small values);
// the raw draw 0 maps to 0 so that shrinking still reaches the first alternative.
func uni(t *rapid.T, n int, l string) int {
	if n <= 1 {
		return 0
	}
	u := rapid.Uint64().Draw(t, l)
	if u == 0 {
		return 0
	}
	u ^= u >> 33
	u *= 0xff51afd7ed558ccd
	u ^= u >> 33
	u *= 0xc4ceb9fe1a85ec53
	u ^= u >> 33
	return int(u % uint64(n))
}

func pick[T any](t *rapid.T, l string, xs []T) T { return xs[uni(t, len(xs), l)] }

// target chooses an interesting effective address for the current model size.
func target(t *rapid.T, size uint64, w int) uint64 {
	c := []uint64{0, 0, 8, 64, 4096}
	if size >= uint64(w) {
		c = append(c, size-uint64(w), size-uint64(w), size-uint64(w)+1, size-1, size, size+1, size/2)
	} else {
		c = append(c, size, size+1)
	}
	c = append(c, 1<<31-uint64(w), 1<<31-1, 1<<31, 1<<31+8, 1<<32-uint64(w), 1<<32-1, 1<<32, 1<<32+65536)
	if size >= 1<<31+uint64(w)+64 && uni(t, 2, "high") == 1 {
		// big memories: half of the in-bounds targets lie above 2^31
		return rapid.Uint64Range(1<<31, size-uint64(w)).Draw(t, "highaddr") &^ uint64(uni(t, 2, "al")*(w-1))
	}
	if uni(t, 100, "inb") >= 7 && size >= uint64(w) {
		// mostly in-bounds, so that scripts make progress
		return rapid.Uint64Range(0, size-uint64(w)).Draw(t, "inaddr") &^ uint64(rapid.IntRange(0, 1).Draw(t, "al")*(w-1))
	}
	return pick(t, "tgt", c)
}

type gen struct {
	t    *rapid.T
	md   *model // tracks size/locals while generating so that addresses can be steered
	nacc int
}

// smallOff replaces a huge static offset by a small one most of the time when the base is not
// steered (reused locals, shifted parameters), so that accesses through a reused base mostly stay
// in bounds and exercise the paths that reuse earlier bounds knowledge.
func (g *gen) smallOff(op *Op) {
	switch op.Base.Kind {
	case "local", "param<<sh", "local+param<<sh", "param":
		if op.Off > 64 && uni(g.t, 10, "keepbigoff") != 0 {
			op.Off = uint32(uni(g.t, 4, "smalloff")) * uint32(op.Width)
			if op.Kind == "aload" || op.Kind == "astore" || op.Kind == "armw" {
				op.Off &^= uint32(op.Width - 1)
			}
		}
	}
}

// fit returns an offset that can actually reach ea (the effective address is base+offset
// without 32-bit wrap-around, so offset must not exceed ea).
func (g *gen) fit(ea uint64, off uint32) uint32 {
	if uint64(off) <= ea {
		return off
	}
	if ea == 0 {
		return 0
	}
	lim := ea
	if lim > 64 {
		lim = 64
	}
	return uint32(uni(g.t, int(lim)+1, "fitoff"))
}

func (g *gen) baseFor(ea uint64, off uint32) Base {
	want := uint32(ea - uint64(off)) // base + off == ea (mod 2^32; for ea >= 2^32 the sum overflows into bit 32 as intended only when base+off carries)
	t := g.t
	switch uni(t, 20, "basekind") {
	case 0, 1, 8, 9, 10, 14, 15, 16:
		return Base{Kind: "const", C: want}
	case 17, 18:
		p := rapid.IntRange(0, 2).Draw(t, "p")
		return Base{Kind: "wrap64", Idx: p, C: want - g.md.params[p], Shift: uint8(rapid.IntRange(0, 3).Draw(t, "hi"))}
	case 2, 11, 12, 13, 19:
		p := rapid.IntRange(0, 2).Draw(t, "p")
		if g.md.params[p] == want {
			return Base{Kind: "param", Idx: p}
		}
		return Base{Kind: "param+const", Idx: p, C: want - g.md.params[p]}
	case 3, 4:
		k := rapid.IntRange(0, 3).Draw(t, "l")
		return Base{Kind: "local", Idx: k} // whatever the local holds: reuse (possibly stale knowledge)
	case 5:
		p := rapid.IntRange(0, 2).Draw(t, "p")
		return Base{Kind: "param<<sh", Idx: p, Shift: uint8(rapid.IntRange(0, 3).Draw(t, "sh"))}
	case 6:
		return Base{Kind: "local+param<<sh", Idx: rapid.IntRange(0, 3).Draw(t, "l"), Idx2: rapid.IntRange(0, 2).Draw(t, "p"), Shift: uint8(rapid.IntRange(0, 3).Draw(t, "sh"))}
	default:
		p := rapid.IntRange(0, 2).Draw(t, "p")
		return Base{Kind: "param", Idx: p}
	}
}

func (g *gen) ops(n, depth int) []Op {
	t := g.t
	var out []Op
	for i := 0; i < n && g.nacc < 40; i++ {
		if depth < 3 && uni(t, 5, "reuse") == 1 {
			out = append(out, g.reusePattern()...)
			continue
		}
		k := uni(t, 100, "op")
		var op Op
		switch {
		case k < 14:
			w := 4
			ea := target(t, g.md.size, w)
			off := g.fit(ea, pick(t, "off", offsets(w)))
			op = Op{Kind: "setlocal", Local: rapid.IntRange(0, 3).Draw(t, "l"), Base: Base{Kind: "const", C: uint32(ea - uint64(off))}}
			if rapid.Bool().Draw(t, "fromparam") {
				p := rapid.IntRange(0, 2).Draw(t, "p")
				op.Base = Base{Kind: "param+const", Idx: p, C: uint32(ea-uint64(off)) - g.md.params[p]}
			}
		case k < 36:
			t64 := rapid.Bool().Draw(t, "t64")
			ws := []int{1, 2, 4}
			if t64 {
				ws = []int{1, 2, 4, 8}
			}
			w := pick(t, "w", ws)
			signed := rapid.Bool().Draw(t, "signed") && !(w == 4 && !t64) && w != 8
			ea := target(t, g.md.size, w)
			off := g.fit(ea, pick(t, "off", offsets(w)))
			op = Op{Kind: "load", Width: w, T64: t64, Signed: signed, Off: off, Base: g.baseFor(ea, off)}
		case k < 52:
			t64 := rapid.Bool().Draw(t, "t64")
			ws := []int{1, 2, 4}
			if t64 {
				ws = []int{1, 2, 4, 8}
			}
			w := pick(t, "w", ws)
			ea := target(t, g.md.size, w)
			off := g.fit(ea, pick(t, "off", offsets(w)))
			op = Op{Kind: "store", Width: w, T64: t64, Off: off, Val: rapid.Uint64().Draw(t, "val") | 1, Base: g.baseFor(ea, off)}
		case k < 62:
			t64 := rapid.Bool().Draw(t, "t64")
			ws := []int{1, 2, 4}
			if t64 {
				ws = []int{1, 2, 4, 8}
			}
			w := pick(t, "w", ws)
			ea := target(t, g.md.size, w) &^ uint64(w-1)
			off := g.fit(ea, pick(t, "off", offsets(w))) &^ uint32(w-1)
			kind := pick(t, "akind", []string{"aload", "astore", "armw", "armw"})
			op = Op{Kind: kind, Width: w, T64: t64, Off: off, Val: rapid.Uint64().Draw(t, "val") | 1, Sub: pick(t, "rmw", []string{"add", "xchg", "cmpxchg"}),
				Base: g.baseFor(ea, off)}
		case k < 74:
			sub := pick(t, "vsub", []string{"full", "zero", "splat", "lane", "ext"})
			op = Op{Kind: "vload", Sub: sub}
			switch sub {
			case "full":
				op.Width = 16
			case "zero":
				op.Width = pick(t, "w", []int{4, 8})
			case "splat", "lane":
				op.Width = pick(t, "w", []int{1, 2, 4, 8})
				op.Lane = rapid.IntRange(0, 16/op.Width-1).Draw(t, "lane")
			default:
				op.Width = 8
				op.N = uint32(pick(t, "eb", []int{1, 2, 4}))
				op.Signed = rapid.Bool().Draw(t, "signed")
			}
			{
				ea := target(t, g.md.size, op.Width)
				op.Off = g.fit(ea, pick(t, "off", offsets(op.Width)))
				op.Base = g.baseFor(ea, op.Off)
			}
		case k < 80:
			op = Op{Kind: "vstore", Sub: pick(t, "vs", []string{"full", "lane"}), Val: rapid.Uint64().Draw(t, "val") | 1}
			op.Width = 16
			if op.Sub == "lane" {
				op.Width = pick(t, "w", []int{1, 2, 4, 8})
				op.Lane = rapid.IntRange(0, 16/op.Width-1).Draw(t, "lane")
			}
			{
				ea := target(t, g.md.size, op.Width)
				op.Off = g.fit(ea, pick(t, "off", offsets(op.Width)))
				op.Base = g.baseFor(ea, op.Off)
			}
		case k < 84:
			n := pick(t, "n", []uint32{0, 1, 7, 64, 65536, 65537})
			op = Op{Kind: "fill", N: n, Val: uint64(rapid.IntRange(1, 255).Draw(t, "fv")), Base: g.baseFor(target(t, g.md.size, int(n)), 0)}
		case k < 88:
			n := pick(t, "n", []uint32{0, 1, 7, 64, 4096})
			op = Op{Kind: "copy", N: n, Base: g.baseFor(target(t, g.md.size, int(n)), 0), Base2: g.baseFor(target(t, g.md.size, int(n)), 0)}
		case k < 91:
			op = Op{Kind: pick(t, "gk", []string{"grow", "hostgrow", "callgrow"}), N: uint32(rapid.IntRange(0, 2).Draw(t, "gd"))}
		case k < 93:
			op = Op{Kind: "call"}
		case k < 94:
			op = Op{Kind: "xwait", Off: uint32(rapid.IntRange(0, 16383).Draw(t, "waddr")) * 4, Val: uint64(rapid.SampledFrom([]uint32{0, 0, 1, 0xffffffff}).Draw(t, "wexp"))}
		default:
			if depth >= 3 {
				continue
			}
			kind := pick(t, "ck", []string{"block", "loop", "if"})
			op = Op{Kind: kind, Param: rapid.IntRange(0, 2).Draw(t, "cp")}
			// the body is generated against a copy of the model state; its effect on the tracking
			// model is applied below by executing the finished op once
			op.Body = g.ops(rapid.IntRange(1, 4).Draw(t, "nbody"), depth+1)
			out = append(out, op)
			continue
		}
		if op.Kind != "setlocal" && op.Kind != "grow" && op.Kind != "hostgrow" && op.Kind != "callgrow" && op.Kind != "call" && op.Kind != "xwait" {
			g.nacc++
			g.smallOff(&op)
		}
		// keep the tracking model in step (only sizes and locals matter for steering)
		if op.Kind == "setlocal" || op.Kind == "grow" || op.Kind == "hostgrow" || op.Kind == "callgrow" {
			g.md.exec([]Op{op})
		}
		out = append(out, op)
	}
	return out
}

// reusePattern emits: L := steered address; access [L+off]; (call | grow | host grow | nothing);
// access [L+off'] - the shape in which knowledge from the first access (bounds, absolute
// address) is reused or must be discarded by the second.
func (g *gen) reusePattern() []Op {
	t := g.t
	k := rapid.IntRange(0, 3).Draw(t, "rl")
	w := pick(t, "rw", []int{1, 2, 4, 8})
	ea := target(t, g.md.size, w)
	set := Op{Kind: "setlocal", Local: k, Base: Base{Kind: "const", C: uint32(ea)}}
	switch uni(t, 4, "rsetkind") {
	case 0:
		p := rapid.IntRange(0, 2).Draw(t, "p")
		set.Base = Base{Kind: "param+const", Idx: p, C: uint32(ea) - g.md.params[p]}
	case 1: // the address is a wrapped i64 whose upper half is non-zero
		p := rapid.IntRange(0, 2).Draw(t, "p")
		set.Base = Base{Kind: "wrap64", Idx: p, C: uint32(ea) - g.md.params[p], Shift: uint8(rapid.IntRange(0, 3).Draw(t, "hi"))}
	}
	g.md.exec([]Op{set})
	acc := func() Op {
		off := pick(t, "roff", []uint32{0, 0, 0, 1, 4, 8, 16, 0xffff, 0x10000})
		if uni(t, 2, "rstore") == 0 {
			return Op{Kind: "store", Width: w, T64: true, Off: off, Val: rapid.Uint64().Draw(t, "val") | 1, Base: Base{Kind: "local", Idx: k}}
		}
		return Op{Kind: "load", Width: w, T64: true, Off: off, Base: Base{Kind: "local", Idx: k}}
	}
	first := acc()
	out := []Op{set}
	switch uni(t, 4, "rfirstwrap") {
	case 0: // the first access happens on only one path into the merge
		out = append(out, Op{Kind: "if", Param: rapid.IntRange(0, 2).Draw(t, "cp"), Body: []Op{first}})
	case 1:
		out = append(out, Op{Kind: "block", Body: []Op{first}})
	default:
		out = append(out, first)
	}
	switch uni(t, 8, "rmid") {
	case 7:
		mid := Op{Kind: "callgrow", N: uint32(uni(t, 2, "gd"))}
		g.md.exec([]Op{mid})
		out = append(out, mid)
	case 5: // a control-flow merge without any access or call on its paths
		out = append(out, Op{Kind: "if", Param: rapid.IntRange(0, 2).Draw(t, "cp"), Body: []Op{{Kind: "setlocal", Local: (k + 1) % 4, Base: Base{Kind: "const", C: 7}}}})
		g.md.exec(out[len(out)-1:])
	case 6:
		out = append(out, Op{Kind: "loop", Body: []Op{{Kind: "setlocal", Local: (k + 1) % 4, Base: Base{Kind: "const", C: 9}}}})
		g.md.exec(out[len(out)-1:])
	case 0:
		out = append(out, Op{Kind: "call"})
	case 1:
		mid := Op{Kind: "grow", N: uint32(uni(t, 2, "gd"))}
		g.md.exec([]Op{mid})
		out = append(out, mid)
	case 2:
		mid := Op{Kind: "hostgrow", N: uint32(uni(t, 2, "gd"))}
		g.md.exec([]Op{mid})
		out = append(out, mid)
	}
	out = append(out, acc())
	g.nacc += 2
	return out
}

var smallPages = []uint32{0, 1, 1, 1, 1, 2, 2, 3}
var bigPages = []uint32{32767, 32768, 32769, 40000, 65535, 65536}

func prop(t *rapid.T) {
	c := &Case{Engine: pick(t, "engine", wz.Engines)}
	big := uni(t, 100, "big") >= 100-bigShare()
	if big {
		c.Pages = pick(t, "bigpages", bigPages)
	} else {
		c.Pages = pick(t, "pages", smallPages)
	}
	c.Max = -1
	if rapid.Bool().Draw(t, "hasmax") {
		c.Max = int64(c.Pages) + int64(rapid.IntRange(0, 2).Draw(t, "room"))
		if c.Max > 65536 {
			c.Max = 65536
		}
	}
	if uni(t, 4, "memkind") == 3 {
		c.Mem = "imported"
	}
	c.Alloc = pick(t, "alloc", []string{"default", "guard", "guard", "guard-moving"})
	if c.Max >= 0 && c.Max <= 64 && uni(t, 3, "capmax") == 2 {
		c.CapMax = true
	}
	if !big && uni(t, 5, "sharedmem") == 4 {
		// a shared memory needs a maximum; its buffer never moves and extends to the maximum, so
		// the bytes between the current size and the maximum exist in the host buffer
		c.Shared = true
		c.Max = int64(c.Pages) + int64(rapid.IntRange(1, 3).Draw(t, "sharedroom"))
		if c.Alloc == "guard-moving" {
			c.Alloc = "guard"
		}
	}
	if big && c.Alloc != "guard" {
		c.Alloc = "guard" // big memories only with the lazily committed in-place guard allocator
	}
	if evid.KnownOpen("C02-compiler-65536-pages") && c.Engine == "compiler" && (c.Pages == 65536 || (c.Pages >= 65534 && (c.Max < 0 || c.Max == 65536))) {
		// class of the finding C14-compiler-memlen-32bit / C02-compiler-65536-pages (excluded only
		// while that finding is listed as open; it was repaired by 9433439)
		evid.Label("excluded-compiler-65536-pages", 1)
		c.Pages = 65533
		if c.Max >= 0 {
			c.Max = 65535
		}
		if c.Max < 0 {
			c.Max = 65535
		}
	}
	size := uint64(c.Pages) * 65536
	for i := range c.Params {
		switch uni(t, 7, "pk") {
		case 0:
			c.Params[i] = uint32(target(t, size, 4))
		case 1, 2, 3, 4:
			c.Params[i] = uint32(rapid.IntRange(0, 64).Draw(t, "psmall"))
		default:
			c.Params[i] = pick(t, "pb", []uint32{0, 1, 0x7fffffff, 0x80000000, 0xffffffff, 0xfffffffc, 0x1fffffff, 0x20000000, 0x40000000, 65536})
		}
	}
	max := uint64(65536)
	if c.Max >= 0 {
		max = uint64(c.Max)
	}
	g := &gen{t: t, md: &model{size: size, max: max * 65536, mem: map[uint64]byte{}, params: c.Params}}
	c.Ops = g.ops(rapid.IntRange(1, 14).Draw(t, "nops"), 0)
	evid.Journal(c)
	if msg := RunCase(c); msg != "" {
		evid.Fail(t, c, "%s (engine %s, %d pages, allocator %s)", msg, c.Engine, c.Pages, c.Alloc)
	}
	// classification
	md := &model{size: size, max: max * 65536, mem: map[uint64]byte{}, params: c.Params}
	md.exec(c.Ops)
	nt := false
	for _, ea := range md.eas {
		if ea >= 1<<31 || (ea+16 >= md.size && ea <= md.size+16) {
			nt = true
		}
	}
	flat := fmt.Sprint(c.Ops)
	if strings.Contains(flat, "grow") || strings.Contains(flat, "call") {
		nt = nt || len(md.eas) > 0
	}
	lbl := []string{"engine:" + c.Engine, "alloc:" + c.Alloc}
	if c.Mem == "imported" {
		lbl = append(lbl, "imported-memory")
	}
	if c.Shared {
		lbl = append(lbl, "shared-memory")
	}
	if c.CapMax {
		lbl = append(lbl, "capacity-from-max")
	}
	if strings.Contains(flat, "callgrow") {
		lbl = append(lbl, "grow-in-callee")
	}
	if usesWaiter(c.Ops) {
		lbl = append(lbl, "atomic-wait-in-another-module")
	}
	if big {
		lbl = append(lbl, "big-memory")
	}
	if md.trap != "" {
		lbl = append(lbl, "trap:"+md.trap)
	} else {
		lbl = append(lbl, "no-trap")
	}
	switch {
	case md.prog >= 8:
		lbl = append(lbl, "accesses-completed>=8")
	case md.prog >= 3:
		lbl = append(lbl, "accesses-completed>=3")
	case md.prog >= 1:
		lbl = append(lbl, "accesses-completed>=1")
	default:
		lbl = append(lbl, "accesses-completed=0")
	}
	evid.Case(evid.Hash64(c.Pages, c.Max, fmt.Sprint(c.Params), flat, c.Engine, c.Alloc, c.Shared, c.Mem, c.CapMax), nt, lbl...)
	if nt {
		evid.Sample("script", 2, c)
	}
}

func bigShare() int { return 25 }

func TestAccessScripts(t *testing.T) {
	if evid.ReplayPath() != "" {
		t.Skip()
	}
	evid.Check(t, "access-scripts", evid.Scale(40000, 1600000), prop)
}

func TestReplay(t *testing.T) {
	p := evid.ReplayPath()
	if p == "" {
		t.Skip()
	}
	var c Case
	if _, err := evid.LoadReplay(p, &c); err != nil {
		t.Fatal(err)
	}
	if msg := RunCase(&c); msg != "" {
		evid.Violation("replay", &c, "%s", msg)
		t.Fatal(msg)
	}
}

// TestKnown65536PagesCompiler re-runs the specific input of the open finding
// C02-compiler-65536-pages (same root cause as C14-compiler-memlen-32bit): an in-bounds access
// of a 65536-page memory traps on the compiler. The generator excludes that class.
func TestKnown65536PagesCompiler(t *testing.T) {
	if evid.ReplayPath() != "" {
		t.Skip()
	}
	if s, _ := evid.Shard(); s != 0 {
		t.Skip()
	}
	c := &Case{Pages: 65536, Max: 65536, Engine: "compiler", Alloc: "guard", Ops: []Op{
		{Kind: "store", Width: 4, Off: 0, Val: 0x1234, Base: Base{Kind: "const", C: 16}},
		{Kind: "load", Width: 4, Off: 0, Base: Base{Kind: "const", C: 16}},
	}}
	if msg := RunCase(c); msg != "" {
		if evid.Finding("C02-compiler-65536-pages", "known-65536-pages", c, "%s", msg) {
			t.Fail()
		}
	} else {
		evid.Note("finding C02-compiler-65536-pages no longer reproduces")
	}
	evid.Case(evid.Hash64("known-65536"), true, "known-finding-input")
}
