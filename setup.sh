#!/bin/sh
# setup_cmd: offline build of the shared harness packages (checks build their own test
# binaries against /repo's working tree each time they run).
set -e
cd "$(dirname "$0")"
export GOFLAGS=-mod=mod GOPROXY=off GOSUMDB=off GOTOOLCHAIN=local
go build ./internal/... 
go vet ./checks/... >/dev/null 2>&1 || true
mkdir -p evidence replays .bin
echo setup ok
