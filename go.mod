module verif

go 1.23

toolchain go1.23.5

require (
	github.com/anishathalye/porcupine v1.3.0
	github.com/tetratelabs/wazero v0.0.0
	pgregory.net/rapid v1.3.0
)

replace github.com/tetratelabs/wazero => /repo
