#!/usr/bin/env python3
"""Generates internal/wasmgen/optable_gen.go from the opcode constants listed in
/repo/internal/wasm/instruction.go. The file is only used as a list of names and encodings;
signatures and classes are derived here from the WebAssembly naming scheme."""
import re, sys
src = open('/repo/internal/wasm/instruction.go').read()
T = {'I32':'I32','I64':'I64','F32':'F32','F64':'F64'}
out = []
def emit(name, prefix, sub, params, results, imm='ImmNone', width=0, lanes=0, nan=False, trap=False, feat='FeatMVP'):
    out.append('\t{Name: %-36s Prefix: 0x%02x, Sub: 0x%02x, Params: []byte{%s}, Results: []byte{%s}, Imm: %s, Width: %d, Lanes: %d, NaN: %s, Trap: %s, Feat: %s},' % (
        '"%s",' % name, prefix, sub, ', '.join(params), ', '.join(results), imm, width, lanes, 'true' if nan else 'false', 'true' if trap else 'false', feat))

def snake(n):
    return re.sub(r'(?<!^)(?=[A-Z])', '_', n).lower()

# ---- scalar ----
for m in re.finditer(r'^\s*Opcode((I32|I64|F32|F64)([A-Za-z0-9]+))\s+Opcode = (0x[0-9a-f]+)', src, re.M):
    full, t, rest, code = m.group(1), m.group(2), m.group(3), int(m.group(4), 16)
    if rest.startswith('Load') or rest.startswith('Store') or rest == 'Const':
        continue
    name = '%s.%s' % (t.lower(), snake(rest))
    isf = t[0] == 'F'
    feat = 'FeatMVP'
    if rest == 'Eqz':
        emit(name, 0, code, [t], ['I32'])
    elif rest in ('Eq','Ne','LtS','LtU','GtS','GtU','LeS','LeU','GeS','GeU','Lt','Gt','Le','Ge'):
        emit(name, 0, code, [t, t], ['I32'])
    elif rest in ('Clz','Ctz','Popcnt','Abs','Neg'):
        emit(name, 0, code, [t], [t])
    elif rest in ('Ceil','Floor','Trunc','Nearest','Sqrt'):
        emit(name, 0, code, [t], [t], nan=True)
    elif rest in ('Extend8S','Extend16S','Extend32S'):
        emit(name, 0, code, [t], [t], feat='FeatSignExt')
    elif rest in ('DivS','DivU','RemS','RemU'):
        emit(name, 0, code, [t, t], [t], trap=True)
    elif rest in ('Add','Sub','Mul','And','Or','Xor','Shl','ShrS','ShrU','Rotl','Rotr'):
        emit(name, 0, code, [t, t], [t], nan=isf)
    elif rest in ('Div','Min','Max'):
        emit(name, 0, code, [t, t], [t], nan=True)
    elif rest == 'Copysign':
        emit(name, 0, code, [t, t], [t])
    else:
        mm = re.match(r'^(Wrap|Trunc|Extend|Convert|Demote|Promote|Reinterpret)(I32|I64|F32|F64)(S|U)?$', rest)
        assert mm, full
        kind, s = mm.group(1), mm.group(2)
        emit(name, 0, code, [s], [t], nan=kind in ('Demote','Promote'), trap=(kind == 'Trunc'))
for m in re.finditer(r'OpcodeMisc((I32|I64)TruncSat(F32|F64)(S|U))\s+OpcodeMisc = (0x[0-9a-f]+)', src):
    emit('%s.trunc_sat_%s_%s' % (m.group(2).lower(), m.group(3).lower(), m.group(4).lower()), 0xfc, int(m.group(5), 16), [m.group(3)], [m.group(2)], feat='FeatSatTrunc')

# ---- SIMD ----
shape_lanes = {'I8x16':16,'I16x8':8,'I32x4':4,'I64x2':2,'F32x4':4,'F64x2':2}
shape_scalar = {'I8x16':'I32','I16x8':'I32','I32x4':'I32','I64x2':'I64','F32x4':'F32','F64x2':'F64'}
for m in re.finditer(r'OpcodeVec([A-Za-z0-9]+)\s+OpcodeVec = (0x[0-9a-f]+)', src):
    n, code = m.group(1), int(m.group(2), 16)
    F = 'FeatSIMD'
    name = 'v.' + snake(n)
    mm = re.match(r'^V128Load(8x8s|8x8u|16x4s|16x4u|32x2s|32x2u)$', n)
    if n == 'V128Load':
        emit(name, 0xfd, code, ['I32'], ['V128'], 'ImmMem', 16, feat=F); continue
    if mm:
        emit(name, 0xfd, code, ['I32'], ['V128'], 'ImmMem', 8, feat=F); continue
    mm = re.match(r'^V128Load(8|16|32|64)Splat$', n)
    if mm:
        emit(name, 0xfd, code, ['I32'], ['V128'], 'ImmMem', int(mm.group(1))//8, feat=F); continue
    mm = re.match(r'^V128Load(32|64)zero$', n)
    if mm:
        emit(name, 0xfd, code, ['I32'], ['V128'], 'ImmMem', int(mm.group(1))//8, feat=F); continue
    if n == 'V128Store':
        emit(name, 0xfd, code, ['I32','V128'], [], 'ImmMem', 16, feat=F); continue
    mm = re.match(r'^V128Load(8|16|32|64)Lane$', n)
    if mm:
        w = int(mm.group(1))//8
        emit(name, 0xfd, code, ['I32','V128'], ['V128'], 'ImmMemLane', w, 16//w, feat=F); continue
    mm = re.match(r'^V128Store(8|16|32|64)Lane$', n)
    if mm:
        w = int(mm.group(1))//8
        emit(name, 0xfd, code, ['I32','V128'], [], 'ImmMemLane', w, 16//w, feat=F); continue
    if n == 'V128Const':
        continue  # emitted by the generator directly
    if n == 'V128i8x16Shuffle':
        emit(name, 0xfd, code, ['V128','V128'], ['V128'], 'ImmShuffle', feat=F); continue
    mm = re.match(r'^(I8x16|I16x8|I32x4|I64x2|F32x4|F64x2)(.*)$', n)
    if mm:
        sh, rest = mm.group(1), mm.group(2)
        sc = shape_scalar[sh]
        isf = sh[0] == 'F'
        if rest.startswith('ExtractLane'):
            emit(name, 0xfd, code, ['V128'], [sc], 'ImmLane', 0, shape_lanes[sh], feat=F); continue
        if rest == 'ReplaceLane':
            emit(name, 0xfd, code, ['V128', sc], ['V128'], 'ImmLane', 0, shape_lanes[sh], feat=F); continue
        if rest == 'Splat':
            emit(name, 0xfd, code, [sc], ['V128'], feat=F); continue
        if rest in ('AllTrue','BitMask'):
            emit(name, 0xfd, code, ['V128'], ['I32'], feat=F); continue
        if rest in ('Shl','ShrS','ShrU'):
            emit(name, 0xfd, code, ['V128','I32'], ['V128'], feat=F); continue
        unary = ('Abs','Neg','Popcnt','Sqrt','Ceil','Floor','Trunc','Nearest')
        if rest in unary or rest.startswith('Extend') or rest.startswith('Extadd') or rest.startswith('Convert') or rest.startswith('TruncSat') or rest.startswith('Demote') or rest.startswith('Promote'):
            nan = (isf and rest in ('Sqrt','Ceil','Floor','Trunc','Nearest')) or rest.startswith('Demote') or rest.startswith('Promote')
            emit(name, 0xfd, code, ['V128'], ['V128'], nan=nan, feat=F); continue
        nan = isf and rest in ('Add','Sub','Mul','Div','Min','Max')
        emit(name, 0xfd, code, ['V128','V128'], ['V128'], nan=nan, feat=F); continue
    if n == 'V128Not':
        emit(name, 0xfd, code, ['V128'], ['V128'], feat=F); continue
    if n in ('V128And','V128AndNot','V128Or','V128Xor'):
        emit(name, 0xfd, code, ['V128','V128'], ['V128'], feat=F); continue
    if n == 'V128Bitselect':
        emit(name, 0xfd, code, ['V128','V128','V128'], ['V128'], feat=F); continue
    if n == 'V128AnyTrue':
        emit(name, 0xfd, code, ['V128'], ['I32'], feat=F); continue
    raise SystemExit('unclassified ' + n)

# ---- atomics ----
for m in re.finditer(r'OpcodeAtomic([A-Za-z0-9]+)\s+OpcodeAtomic = (0x[0-9a-f]+)', src):
    n, code = m.group(1), int(m.group(2), 16)
    F = 'FeatThreads'
    name = 'atomic.' + snake(n)
    if n in ('MemoryNotify','MemoryWait32','MemoryWait64','Fence'):
        continue  # emitted by the generator directly
    mm = re.match(r'^(I32|I64)(Load|Store|Rmw)(8|16|32)?(Add|Sub|And|Or|Xor|Xchg|Cmpxchg)?(U)?$', n)
    assert mm, n
    t, kind, w, op = mm.group(1), mm.group(2), mm.group(3), mm.group(4)
    width = int(w)//8 if w else (4 if t == 'I32' else 8)
    if kind == 'Load':
        emit(name, 0xfe, code, ['I32'], [t], 'ImmAtomic', width, feat=F)
    elif kind == 'Store':
        emit(name, 0xfe, code, ['I32', t], [], 'ImmAtomic', width, feat=F)
    elif op == 'Cmpxchg':
        emit(name, 0xfe, code, ['I32', t, t], [t], 'ImmAtomic', width, feat=F)
    else:
        emit(name, 0xfe, code, ['I32', t], [t], 'ImmAtomic', width, feat=F)

hdr = '''// Code generated by tools/genoptable.py from the opcode list of the repository; DO NOT EDIT.

package wasmgen

// OpTable lists the numeric, SIMD and atomic instructions the generator can emit.
var OpTable = []Op{
'''
open('/verif/internal/wasmgen/optable_gen.go', 'w').write(hdr + '\n'.join(out) + '\n}\n')
print(len(out), 'ops')
