#!/bin/sh
# usage: tools/seedrun.sh <PID> <mutdir> [extra checks]   - imports /tmp/mut/<x>/seeded/* as seeded/<PID>-<name> and tests them
PID=$1; SRC=$2; shift 2
for d in $SRC/seeded/*/; do
  n=$(basename $d); mkdir -p /verif/seeded/$PID-$n; cp -r $d/* /verif/seeded/$PID-$n/
  EXTRA=""; [ -n "$1" ] && EXTRA="--checks $1"
  python3 /verif/tools/seedtest.py /verif/seeded/$PID-$n $EXTRA 2>&1 | python3 -c "
import sys,json
try:
    r=json.load(sys.stdin)
    print(r['seeded'], 'demo_ok=',r.get('demo_ok'), r.get('error',''), {k:(v['caught'],v['violations'],v['wall_s'],v['first'][:160]) for k,v in r['checks'].items()})
except Exception as e: print('ERR',e)"
done
