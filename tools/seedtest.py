#!/usr/bin/env python3
"""Runs checks against one seeded change.

usage: tools/seedtest.py <seeded-dir> [--tier quick|thorough] [--checks C01,C02] [--no-demo]

<seeded-dir> holds patch.diff, meta.json (property, demo_dir, demo_cmd, …) and the demo file.
A scratch worktree of /repo HEAD is created under /tmp, the demo is verified there (fails with
the patch, passes without), the patch is applied and the listed checks (default: the check of
the property the change is meant to break) are run against the worktree via VERIF_REPO. The
worktree and all outputs are removed afterwards; the result is written to <seeded-dir>/result.json.
"""
import json, os, shutil, subprocess, sys, time, glob

ROOT = os.path.dirname(os.path.dirname(os.path.abspath(__file__)))
GOENV = {"GOFLAGS": "-mod=mod", "GOPROXY": "off", "GOSUMDB": "off", "GOTOOLCHAIN": "local"}


def sh(cmd, cwd, timeout=1800, env=None):
    e = dict(os.environ)
    e.update(GOENV)
    if env:
        e.update(env)
    try:
        r = subprocess.run(cmd, cwd=cwd, shell=True, env=e, stdout=subprocess.PIPE, stderr=subprocess.STDOUT, text=True, timeout=timeout)
        return r.returncode, r.stdout
    except subprocess.TimeoutExpired as ex:
        return 124, (ex.stdout or b"").decode("utf-8", "replace") if isinstance(ex.stdout, bytes) else (ex.stdout or "") + "\nTIMEOUT"


def main():
    args = sys.argv[1:]
    sd = os.path.abspath(args[0])
    tier = "quick"
    checks = None
    demo = True
    i = 1
    while i < len(args):
        if args[i] == "--tier":
            i += 1
            tier = args[i]
        elif args[i] == "--checks":
            i += 1
            checks = args[i].split(",")
        elif args[i] == "--no-demo":
            demo = False
        i += 1
    meta = json.load(open(os.path.join(sd, "meta.json")))
    if checks is None:
        checks = [meta["property"]]
    tag = "%s-%d" % (os.path.basename(sd), os.getpid())
    wt = "/tmp/seedwt-" + tag
    out = "/tmp/seedout-" + tag
    res = {"seeded": os.path.basename(sd), "property": meta["property"], "tier": tier, "checks": {}, "when": time.strftime("%Y-%m-%d %H:%M:%S")}
    subprocess.run(["git", "-C", "/repo", "worktree", "add", "-q", wt, "HEAD"], check=True)
    try:
        patch = os.path.join(sd, "patch.diff")
        if demo:
            # demo on the clean tree
            files = [f for f in glob.glob(os.path.join(sd, "*")) if os.path.basename(f) not in ("patch.diff", "patch.orig.diff", "meta.json", "result.json", "history.json")]
            ddir = os.path.join(wt, (meta.get("demo_dir", ".").split() or ["."])[0])
            os.makedirs(ddir, exist_ok=True)
            for f in files:
                if os.path.isdir(f):
                    shutil.copytree(f, os.path.join(ddir, os.path.basename(f)))
                else:
                    shutil.copy(f, ddir)
            rc0, o0 = sh(meta["demo_cmd"], wt, timeout=900)
            res["demo_clean_rc"] = rc0
            rc, o = sh("git apply --whitespace=nowarn " + patch, wt)
            if rc != 0:
                res["error"] = "patch does not apply: " + o[-500:]
                return res
            rc1, o1 = sh(meta["demo_cmd"], wt, timeout=900)
            res["demo_patched_rc"] = rc1
            res["demo_patched_tail"] = o1[-600:]
            res["demo_ok"] = (rc0 == 0 and rc1 != 0)
            # remove demo files again so that they do not influence the checks
            for f in files:
                p = os.path.join(ddir, os.path.basename(f))
                if os.path.isdir(p):
                    shutil.rmtree(p, ignore_errors=True)
                elif os.path.exists(p):
                    os.remove(p)
        else:
            rc, o = sh("git apply --whitespace=nowarn " + patch, wt)
            if rc != 0:
                res["error"] = "patch does not apply: " + o[-500:]
                return res
        rcb, ob = sh("go build ./...", wt, timeout=900)
        res["build_rc"] = rcb
        for c in checks:
            t0 = time.time()
            rc, o = sh("./check %s %s" % (c, tier), ROOT, timeout=7200,
                       env={"VERIF_REPO": wt, "VERIF_EVID_DIR": out + "/ev", "VERIF_REPLAYS_DIR": out + "/rp"})
            viol = [l for l in o.splitlines() if l.startswith("VIOLATION")]
            first = ""
            for l in o.splitlines():
                if l.startswith("--- "):
                    first = l[:400]
                    break
            res["checks"][c] = {"rc": rc, "violations": len(viol), "first": first, "wall_s": round(time.time() - t0, 1),
                                "caught": rc == 1 and len(viol) > 0}
        return res
    finally:
        subprocess.run(["git", "-C", "/repo", "worktree", "remove", "--force", wt])
        shutil.rmtree(out, ignore_errors=True)
        import hashlib
        mytag = hashlib.sha1(wt.encode()).hexdigest()[:8]  # the driver tags binaries built against VERIF_REPO with this hash
        for f in glob.glob(os.path.join(ROOT, ".bin", "*.%s*.test" % mytag)) + glob.glob(os.path.join(ROOT, ".work", "alt-%s.*" % mytag)):
            try:
                os.remove(f)
            except OSError:
                pass
        json.dump(res, open(os.path.join(sd, "result.json"), "w"), indent=1)
        hp = os.path.join(sd, "history.json")
        hist = json.load(open(hp)) if os.path.exists(hp) else []
        hist.append({k: res.get(k) for k in ("when", "tier", "checks", "demo_ok")})
        json.dump(hist, open(hp, "w"), indent=1)
        print(json.dumps(res, indent=1))


if __name__ == "__main__":
    main()
