#!/usr/bin/env python3
"""Regenerates the seeded-change table in DESIGN.md (between the markers) from seeded/*/{meta,result}.json."""
import json, glob, os, re
ROOT = os.path.dirname(os.path.dirname(os.path.abspath(__file__)))
rows = []
stats = {"n": 0, "own_first": 0, "any_first": 0, "own_ever": 0, "any_ever": 0}
for d in sorted(glob.glob(os.path.join(ROOT, "seeded", "*"))):
    if not os.path.isdir(d):
        continue
    try:
        meta = json.load(open(os.path.join(d, "meta.json")))
    except Exception:
        continue
    hist = []
    hp = os.path.join(d, "history.json")
    if os.path.exists(hp):
        hist = json.load(open(hp))
    caught, missed = set(), set()
    for r in hist:
        for c, v in r.get("checks", {}).items():
            (caught if v.get("caught") else missed).add(c)
    missed -= caught
    if hist:
        prop = meta.get("property")
        stats["n"] += 1
        stats["own_first"] += bool(hist[0].get("checks", {}).get(prop, {}).get("caught"))
        stats["any_first"] += any(v.get("caught") for v in hist[0].get("checks", {}).values())
        stats["own_ever"] += any(r.get("checks", {}).get(prop, {}).get("caught") for r in hist)
        stats["any_ever"] += bool(caught)
    needs = re.sub(r"\s+", " ", meta.get("needs", ""))[:200]
    rows.append((os.path.basename(d), meta.get("property"), ", ".join(sorted(caught)) or "-", ", ".join(sorted(missed)) or "-", needs, meta.get("note", "")))
lines = ["| seeded change | breaks | caught by (quick tier) | not caught by | needs | note |", "|---|---|---|---|---|---|"]
for r in rows:
    lines.append("| %s | %s | %s | %s | %s | %s |" % tuple(x.replace("|", "/") for x in r))
intro = ("%(n)d seeded changes were produced by sub-agents that saw only the property text (rounds 1-7, see `seeded/*/meta.json`). "
         "At its first recorded run the check of the property a change was written against caught %(own_first)d of them "
         "(%(any_first)d counting the sibling checks that were run alongside); after the strengthening described in section 8 "
         "that check catches %(own_ever)d, and every remaining change is caught by the sibling check named in its note "
         "(%(any_ever)d of %(n)d caught by some check). A change is only listed after its demonstration was confirmed "
         "(fails with the change, passes without) in a scratch worktree by `tools/seedtest.py`.\n\n") % stats
table = intro + "\n".join(lines)
p = os.path.join(ROOT, "DESIGN.md")
s = open(p).read()
b, e = "<!-- seeded-table-begin -->", "<!-- seeded-table-end -->"
if b not in s:
    s += "\n" + b + "\n" + e + "\n"
s = s[:s.index(b) + len(b)] + "\n" + table + "\n" + s[s.index(e):]
open(p, "w").write(s)
print(table)
