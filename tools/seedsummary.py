#!/usr/bin/env python3
"""Regenerates the seeded-change table in DESIGN.md (between the markers) from seeded/*/{meta,result}.json."""
import json, glob, os, re
ROOT = os.path.dirname(os.path.dirname(os.path.abspath(__file__)))
rows = []
for d in sorted(glob.glob(os.path.join(ROOT, "seeded", "*"))):
    if not os.path.isdir(d):
        continue
    try:
        meta = json.load(open(os.path.join(d, "meta.json")))
    except Exception:
        continue
    hist = []
    hp = os.path.join(d, "history.json")
    if os.path.exists(hp):
        hist = json.load(open(hp))
    caught, missed = set(), set()
    for r in hist:
        for c, v in r.get("checks", {}).items():
            (caught if v.get("caught") else missed).add(c)
    missed -= caught
    needs = re.sub(r"\s+", " ", meta.get("needs", ""))[:200]
    rows.append((os.path.basename(d), meta.get("property"), ", ".join(sorted(caught)) or "-", ", ".join(sorted(missed)) or "-", needs, meta.get("note", "")))
lines = ["| seeded change | breaks | caught by (quick tier) | not caught by | needs | note |", "|---|---|---|---|---|---|"]
for r in rows:
    lines.append("| %s | %s | %s | %s | %s | %s |" % tuple(x.replace("|", "/") for x in r))
table = "\n".join(lines)
p = os.path.join(ROOT, "DESIGN.md")
s = open(p).read()
b, e = "<!-- seeded-table-begin -->", "<!-- seeded-table-end -->"
if b not in s:
    s += "\n" + b + "\n" + e + "\n"
s = s[:s.index(b) + len(b)] + "\n" + table + "\n" + s[s.index(e):]
open(p, "w").write(s)
print(table)
