#!/usr/bin/env python3
"""Regenerates the 'Open findings' and 'Repaired by fix: commits' tables of DESIGN.md section 9 from known_findings.json."""
import json, os, re
ROOT = os.path.dirname(os.path.dirname(os.path.abspath(__file__)))
j = json.load(open(os.path.join(ROOT, "known_findings.json")))
opn, fixed = [], []
for f in j["findings"]:
    what = re.sub(r"\s+", " ", f.get("what", "")).replace("|", "/")
    if f.get("status") == "open":
        opn.append("| %s | %s |" % (f["id"], what))
    else:
        what = re.sub(r"^fixed: property=\S+ \S+ ", "", what)
        fixed.append("| %s | %s | %s |" % (f["id"], f.get("commit", ""), what))
p = os.path.join(ROOT, "DESIGN.md")
s = open(p).read()
a = s.index("### Open findings")
b = s.index("### Repaired by `fix:` commits")
c = s.index("\n\n", s.index("|---|---|---|", b))
s = (s[:a] + "### Open findings\n| id | what |\n|---|---|\n" + "\n".join(opn) + "\n\n"
     + "### Repaired by `fix:` commits\n| id | commit | what failed |\n|---|---|---|\n" + "\n".join(fixed) + s[c:])
open(p, "w").write(s)
print(len(opn), "open", len(fixed), "fixed")
